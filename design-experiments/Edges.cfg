SPECIFICATION ESpec
CONSTANTS N = 3
  Limits = {0,1,2}
  MaxFail = 1
  AllowAfter = TRUE
CHECK_DEADLOCK FALSE
