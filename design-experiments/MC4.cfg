SPECIFICATION Spec
CONSTANTS N = 4
  Limits = {0,2}
  MaxFail = 0
  AllowAfter = FALSE
INVARIANTS OnceEach DepsFirst BoundNoErr ReturnAfterAll ResultOK NoDeadlock
CHECK_DEADLOCK FALSE
