---- MODULE MCT ----
EXTENDS Template, Json, CSV, IOUtils
Names == {"A", "B"}
Lits == {"x", " ", "-"}
Leaf == [k : {"lit"}, c : Lits] \cup {[k |-> "esc"]} \cup [k : {"var"}, n : Names, b : BOOLEAN]
Seqs(S, L) == UNION {[1..k -> S] : k \in 0..L}
\* adjacent literal/var-unbraced followed by name char would re-tokenise; keep generator unambiguous:
NoClash(t) == \A j \in 1..(Len(t)-1) :
     ~(t[j].k = "var" /\ ~t[j].b /\ t[j+1].k = "lit" /\ t[j+1].c = "x")
T0 == {t \in Seqs(Leaf, 2) : NoClash(t)}
Item1 == Leaf \cup [k : {"op"}, n : Names, op : Ops, t : T0]
T1 == {t \in Seqs(Item1, 2) : NoClash(t)}
Vals == {[set |-> FALSE, v |-> ""], [set |-> TRUE, v |-> ""], [set |-> TRUE, v |-> "v"], [set |-> TRUE, v |-> "${B}"]}
VARIABLES tpl, env, done
Out == IOEnv.OUTFILE
Init == tpl \in T1 /\ env \in [Names -> Vals] /\ done = FALSE
Next == /\ ~done /\ done' = TRUE /\ UNCHANGED <<tpl, env>>
        /\ CSVWrite("%1$s", <<ToJson([s |-> Render(tpl), env |-> env, r |-> Eval(tpl, env)])>>, Out)
====
