------------------------------ MODULE Template ------------------------------
EXTENDS Naturals, Sequences, FiniteSets, TLC
\* AST item kinds:
\*  [k |-> "lit", c |-> "a"]            literal text chunk (string)
\*  [k |-> "esc"]                       $$
\*  [k |-> "var", n |-> "A", b |-> TRUE/FALSE]     $A or ${A}
\*  [k |-> "op", n |-> "A", op |-> ":-", t |-> <<items>>]   ${A:-T}
\* env: [Names -> value]  value = [set |-> BOOLEAN, v |-> string]
Ops == {":-", "-", ":+", "+", ":?", "?"}

RECURSIVE Render(_), RenderItem(_)
RenderItem(i) ==
  CASE i.k = "lit" -> i.c
    [] i.k = "esc" -> "$$"
    [] i.k = "var" -> IF i.b THEN "${" \o i.n \o "}" ELSE "$" \o i.n
    [] i.k = "op"  -> "${" \o i.n \o i.op \o Render(i.t) \o "}"
Render(t) == IF t = <<>> THEN "" ELSE RenderItem(Head(t)) \o Render(Tail(t))

\* result: [ok |-> TRUE, v |-> string] or [ok |-> FALSE, var |-> name, msg |-> string]
OK(s) == [ok |-> TRUE, v |-> s]
RECURSIVE Eval(_,_), EvalItem(_,_)
EvalItem(i, env) ==
  CASE i.k = "lit" -> OK(i.c)
    [] i.k = "esc" -> OK("$")
    [] i.k = "var" -> OK(IF env[i.n].set THEN env[i.n].v ELSE "")
    [] i.k = "op"  ->
        LET d == Eval(i.t, env)
            set == env[i.n].set
            nonempty == set /\ env[i.n].v # ""
            val == IF set THEN env[i.n].v ELSE ""
        IN IF ~d.ok THEN d    \* nested error propagates (message itself failed)
           ELSE CASE i.op = ":-" -> OK(IF nonempty THEN val ELSE d.v)
                  [] i.op = "-"  -> OK(IF set THEN val ELSE d.v)
                  [] i.op = ":+" -> OK(IF nonempty THEN d.v ELSE "")
                  [] i.op = "+"  -> OK(IF set THEN d.v ELSE "")
                  [] i.op = ":?" -> IF nonempty THEN OK(val) ELSE [ok |-> FALSE, var |-> i.n, msg |-> d.v]
                  [] i.op = "?"  -> IF set THEN OK(val) ELSE [ok |-> FALSE, var |-> i.n, msg |-> d.v]
Eval(t, env) ==
  IF t = <<>> THEN OK("")
  ELSE LET h == EvalItem(Head(t), env) IN
       IF ~h.ok THEN h
       ELSE LET r == Eval(Tail(t), env) IN IF ~r.ok THEN r ELSE OK(h.v \o r.v)
=============================================================================
