SPECIFICATION Spec
CONSTANTS N = 3
  Limits = {0,1,2}
  MaxFail = 1
  AllowAfter = TRUE
INVARIANTS OnceEach DepsFirst BoundNoErr ReturnAfterAll ResultOK NoDeadlock
PROPERTY Live
CHECK_DEADLOCK FALSE
