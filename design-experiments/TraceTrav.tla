------------------------------ MODULE TraceTrav ------------------------------
EXTENDS Naturals, Sequences, FiniteSets, TLC, Json, SequencesExt, IOUtils

Trace == ndJsonDeserialize(IOEnv.TRACE)

VARIABLES l, nn, deps, inverse, limit, after, fails,
          status, chan, expect, sem, cancelled, egErr,
          pcM, mTodo, mCur, pcC, cTodo, cCur, pcW, visits, ret
cfgv == <<nn, deps, inverse, limit, after, fails>>
vars == <<l, nn, deps, inverse, limit, after, fails, status, chan, expect, sem, cancelled, egErr,
          pcM, mTodo, mCur, pcC, cTodo, cCur, pcW, visits, ret>>

Nodes == 1..nn
Children(n) == deps[n]
Parents(n)  == {m \in Nodes : n \in deps[m]}
RECURSIVE Desc(_)
Desc(n) == Children(n) \cup UNION {Desc(c) : c \in Children(n)}
Waits(n)    == IF inverse THEN Parents(n) ELSE Children(n)
Adjacent(n) == IF inverse THEN Children(n) ELSE Parents(n)
Skip(n) == after # {} /\ n \notin after /\ after \cap Desc(n) = {}
Cap == IF limit = 0 THEN nn + 2 ELSE limit + 1
Ready(n) == \A d \in Waits(n) : status[d] = "visited"

Num(k) == CHOOSE i \in 1..9 : k = "s" \o ToString(i)
Ev == Trace[l]
IsEv(role, point) == l <= Len(Trace) /\ Ev.kind = "ev" /\ Ev.role = role /\ Ev.point = point
Step == l' = l + 1

\* ---- trace boundary: load configuration
Reset ==
  /\ l <= Len(Trace) /\ Ev.kind = "cfg"
  /\ (l = 1 \/ pcM = "returned")
  /\ Step
  /\ nn' = Ev.n
  /\ deps' = [i \in 1..Ev.n |-> ToSet(Ev.deps[i])]
  /\ inverse' = Ev.inverse /\ limit' = Ev.limit
  /\ after' = ToSet(Ev.after) /\ fails' = ToSet(Ev.fails)
  /\ status' = [i \in 1..Ev.n |-> "absent"]
  /\ chan' = <<>> /\ expect' = Ev.n /\ sem' = 1 /\ cancelled' = FALSE /\ egErr' = 0
  /\ pcM' = "iter"
  /\ mTodo' = LET d == [i \in 1..Ev.n |-> ToSet(Ev.deps[i])] IN
              IF Ev.inverse THEN {i \in 1..Ev.n : \A m \in 1..Ev.n : i \notin d[m]}
                            ELSE {i \in 1..Ev.n : d[i] = {}}
  /\ mCur' = 0 /\ pcC' = "select" /\ cTodo' = {} /\ cCur' = 0
  /\ pcW' = [i \in 1..Ev.n |-> "none"] /\ visits' = [i \in 1..Ev.n |-> 0] /\ ret' = "pending"

\* ---- silent steps (not logged)
SMPick == /\ pcM = "iter" /\ mTodo # {}
          /\ \E n \in mTodo : mCur' = n /\ mTodo' = mTodo \ {n}
          /\ pcM' = "ready"
          /\ UNCHANGED <<l, cfgv, status, chan, expect, sem, cancelled, egErr, pcC, cTodo, cCur, pcW, visits, ret>>
SCPick == /\ pcC = "iter"
          /\ IF cTodo = {} THEN pcC' = "select" /\ UNCHANGED <<cTodo, cCur>>
             ELSE \E n \in cTodo : cCur' = n /\ cTodo' = cTodo \ {n} /\ pcC' = "ready"
          /\ UNCHANGED <<l, cfgv, status, chan, expect, sem, cancelled, egErr, pcM, mTodo, mCur, pcW, visits, ret>>
SMGo == /\ pcM = "spawning" /\ sem < Cap /\ sem' = sem + 1
        /\ pcW' = [pcW EXCEPT ![mCur] = "start"] /\ pcM' = "spawned"
        /\ UNCHANGED <<l, cfgv, status, chan, expect, cancelled, egErr, mTodo, mCur, pcC, cTodo, cCur, visits, ret>>
SCGo == /\ pcC = "spawning" /\ sem < Cap /\ sem' = sem + 1
        /\ pcW' = [pcW EXCEPT ![cCur] = "start"] /\ pcC' = "spawned"
        /\ UNCHANGED <<l, cfgv, status, chan, expect, cancelled, egErr, pcM, mTodo, mCur, cTodo, cCur, visits, ret>>

\* ---- logged steps
TReady == \/ /\ IsEv("main", "ready") /\ pcM = "ready" /\ mCur = Num(Ev.key) /\ Step
             /\ pcM' = IF Ready(mCur) THEN "enter" ELSE "iter"
             /\ UNCHANGED <<cfgv, status, chan, expect, sem, cancelled, egErr, mTodo, mCur, pcC, cTodo, cCur, pcW, visits, ret>>
          \/ /\ IsEv("coord", "ready") /\ pcC = "ready" /\ cCur = Num(Ev.key) /\ Step
             /\ pcC' = IF Ready(cCur) THEN "enter" ELSE "iter"
             /\ UNCHANGED <<cfgv, status, chan, expect, sem, cancelled, egErr, pcM, mTodo, mCur, cTodo, cCur, pcW, visits, ret>>
TEnter == \/ /\ IsEv("main", "enter") /\ pcM = "enter" /\ mCur = Num(Ev.key) /\ Step
             /\ IF status[mCur] = "absent" THEN status' = [status EXCEPT ![mCur] = "entered"] /\ pcM' = "spawn"
                ELSE UNCHANGED status /\ pcM' = "iter"
             /\ UNCHANGED <<cfgv, chan, expect, sem, cancelled, egErr, mTodo, mCur, pcC, cTodo, cCur, pcW, visits, ret>>
          \/ /\ IsEv("coord", "enter") /\ pcC = "enter" /\ cCur = Num(Ev.key) /\ Step
             /\ IF status[cCur] = "absent" THEN status' = [status EXCEPT ![cCur] = "entered"] /\ pcC' = "spawn"
                ELSE UNCHANGED status /\ pcC' = "iter"
             /\ UNCHANGED <<cfgv, chan, expect, sem, cancelled, egErr, pcM, mTodo, mCur, cTodo, cCur, pcW, visits, ret>>
TSpawn == \/ /\ IsEv("main", "spawn") /\ pcM = "spawn" /\ mCur = Num(Ev.key) /\ Step /\ pcM' = "spawning"
             /\ UNCHANGED <<cfgv, status, chan, expect, sem, cancelled, egErr, mTodo, mCur, pcC, cTodo, cCur, pcW, visits, ret>>
          \/ /\ IsEv("coord", "spawn") /\ pcC = "spawn" /\ cCur = Num(Ev.key) /\ Step /\ pcC' = "spawning"
             /\ UNCHANGED <<cfgv, status, chan, expect, sem, cancelled, egErr, pcM, mTodo, mCur, cTodo, cCur, pcW, visits, ret>>
TSpawned == \/ /\ IsEv("main", "spawned") /\ pcM = "spawned" /\ mCur = Num(Ev.key) /\ Step /\ pcM' = "iter"
               /\ UNCHANGED <<cfgv, status, chan, expect, sem, cancelled, egErr, mTodo, mCur, pcC, cTodo, cCur, pcW, visits, ret>>
            \/ /\ IsEv("coord", "spawned") /\ pcC = "spawned" /\ cCur = Num(Ev.key) /\ Step /\ pcC' = "iter"
               /\ UNCHANGED <<cfgv, status, chan, expect, sem, cancelled, egErr, pcM, mTodo, mCur, cTodo, cCur, pcW, visits, ret>>
TRecv == /\ IsEv("coord", "coord.recv") /\ pcC = "select" /\ chan # <<>> /\ Head(chan) = Num(Ev.key) /\ Step
         /\ chan' = Tail(chan) /\ expect' = expect - 1
         /\ IF expect - 1 = 0 THEN pcC' = "exit" /\ sem' = sem - 1 /\ UNCHANGED <<cTodo, cCur>>
            ELSE pcC' = "iter" /\ cTodo' = Adjacent(Head(chan)) /\ cCur' = 0 /\ UNCHANGED sem
         /\ UNCHANGED <<cfgv, status, cancelled, egErr, pcM, mTodo, mCur, pcW, visits, ret>>
TCtxDone == /\ IsEv("coord", "coord.ctxdone") /\ pcC = "select" /\ cancelled /\ Step
            /\ pcC' = "exit" /\ sem' = sem - 1
            /\ UNCHANGED <<cfgv, status, chan, expect, cancelled, egErr, pcM, mTodo, mCur, cTodo, cCur, pcW, visits, ret>>
W == Num(Ev.key)
TWStart == /\ l <= Len(Trace) /\ Ev.kind = "ev" /\ Ev.point = "worker.start" /\ pcW[W] = "start" /\ Step
           /\ IF Skip(W) THEN pcW' = [pcW EXCEPT ![W] = "after"] /\ UNCHANGED visits
              ELSE pcW' = [pcW EXCEPT ![W] = "visiting"] /\ visits' = [visits EXCEPT ![W] = @ + 1]
           /\ UNCHANGED <<cfgv, status, chan, expect, sem, cancelled, egErr, pcM, mTodo, mCur, pcC, cTodo, cCur, ret>>
TVEnter == /\ l <= Len(Trace) /\ Ev.kind = "ev" /\ Ev.point = "visit.enter" /\ pcW[W] = "visiting" /\ Step
           /\ UNCHANGED <<cfgv, status, chan, expect, sem, cancelled, egErr, pcM, mTodo, mCur, pcC, cTodo, cCur, pcW, visits, ret>>
TVExit == /\ l <= Len(Trace) /\ Ev.kind = "ev" /\ Ev.point = "visit.exit" /\ pcW[W] = "visiting" /\ Step
          /\ pcW' = [pcW EXCEPT ![W] = "after"]
          /\ UNCHANGED <<cfgv, status, chan, expect, sem, cancelled, egErr, pcM, mTodo, mCur, pcC, cTodo, cCur, visits, ret>>
TWDone == /\ l <= Len(Trace) /\ Ev.kind = "ev" /\ Ev.point = "worker.done" /\ pcW[W] = "after" /\ Step
          /\ status' = [status EXCEPT ![W] = "visited"] /\ pcW' = [pcW EXCEPT ![W] = "send"]
          /\ UNCHANGED <<cfgv, chan, expect, sem, cancelled, egErr, pcM, mTodo, mCur, pcC, cTodo, cCur, visits, ret>>
\* send + goroutine exit (slot release, first error cancels) happen before the next release
TWSend == /\ l <= Len(Trace) /\ Ev.kind = "ev" /\ Ev.point = "worker.send" /\ pcW[W] = "send" /\ Step
          /\ chan' = Append(chan, W) /\ pcW' = [pcW EXCEPT ![W] = "gone"] /\ sem' = sem - 1
          /\ IF W \in fails /\ ~Skip(W)
               THEN cancelled' = TRUE /\ egErr' = (IF egErr = 0 THEN W ELSE egErr)
               ELSE UNCHANGED <<cancelled, egErr>>
          /\ UNCHANGED <<cfgv, status, expect, pcM, mTodo, mCur, pcC, cTodo, cCur, visits, ret>>
TReturn == /\ l <= Len(Trace) /\ Ev.kind = "ret" /\ pcM = "iter" /\ mTodo = {} /\ sem = 0 /\ Step
           /\ pcM' = "returned" /\ ret' = (IF egErr = 0 THEN "nil" ELSE "err")
           /\ ret' = Ev.ret
           /\ UNCHANGED <<cfgv, status, chan, expect, sem, cancelled, egErr, mTodo, mCur, pcC, cTodo, cCur, pcW, visits>>

Init == /\ l = 1 /\ nn = 0 /\ deps = <<>> /\ inverse = FALSE /\ limit = 0 /\ after = {} /\ fails = {}
        /\ status = <<>> /\ chan = <<>> /\ expect = 0 /\ sem = 0 /\ cancelled = FALSE /\ egErr = 0
        /\ pcM = "returned" /\ mTodo = {} /\ mCur = 0 /\ pcC = "exit" /\ cTodo = {} /\ cCur = 0
        /\ pcW = <<>> /\ visits = <<>> /\ ret = "pending"
Next == Reset \/ SMPick \/ SCPick \/ SMGo \/ SCGo \/ TReady \/ TEnter \/ TSpawn \/ TSpawned \/ TRecv \/ TCtxDone
        \/ TWStart \/ TVEnter \/ TVExit \/ TWDone \/ TWSend \/ TReturn
Spec == Init /\ [][Next]_vars

\* invariants evaluated on every state of the real execution
Visiting == {n \in Nodes : pcW[n] = "visiting"}
VisitorReturned(n) == pcW[n] \in {"after", "send", "exit", "gone"}
OnceEach == \A n \in Nodes : visits[n] <= 1
DepsFirst == \A n \in Visiting : \A d \in Waits(n) : ~Skip(d) => VisitorReturned(d)
BoundNoErr == (limit > 0 /\ ~cancelled) => Cardinality(Visiting) <= limit
BoundAlways == limit > 0 => Cardinality(Visiting) <= limit

ASSUME TLCSet(1, 0)
HW == TLCSet(1, IF l > TLCGet(1) THEN l ELSE TLCGet(1))
Track == HW
Accepted == TLCGet(1) = Len(Trace) + 1
=============================================================================
