SPECIFICATION Spec
CONSTRAINT Track
INVARIANTS OnceEach DepsFirst BoundNoErr
POSTCONDITION Accepted
CHECK_DEADLOCK FALSE
