---- MODULE T3 ----
EXTENDS Naturals, Sequences, TLC, Json, FiniteSets, SequencesExt
\* tagged values: [t |-> "m", v |-> [k |-> val]], [t|->"l", v|-> <<>>], [t|->"s", v|->"x"], [t|->"i", v|->1], [t|->"b", v|->TRUE], [t|->"n"]
IsMap(x) == x.t = "m"
IsSeq(x) == x.t = "l"
Keys(x) == DOMAIN x.v
RECURSIVE Merge(_,_,_)
Merge(e, o, p) ==
  IF o.t = "n" THEN e
  ELSE IF IsMap(e) THEN
     IF ~IsMap(o) THEN [t |-> "err", v |-> p]
     ELSE [t |-> "m", v |-> [k \in Keys(e) \cup Keys(o) |->
              IF k \notin Keys(o) THEN e.v[k]
              ELSE IF k \notin Keys(e) THEN o.v[k]
              ELSE Merge(e.v[k], o.v[k], Append(p, k))]]
  ELSE IF IsSeq(e) THEN
     IF ~IsSeq(o) THEN [t |-> "err", v |-> p] ELSE [t |-> "l", v |-> e.v \o o.v]
  ELSE o
Trace == ndJsonDeserialize("tr3.ndjson")
VARIABLE l
Init == l = 1
Next == /\ l <= Len(Trace)
        /\ Merge(Trace[l].base, Trace[l].over, <<>>) = Trace[l].out
        /\ l' = l + 1
Accepted == TLCGet("stats").diameter - 1 = Len(Trace)
====
