------------------------------ MODULE Traversal ------------------------------
EXTENDS Naturals, Sequences, FiniteSets, TLC

CONSTANTS N,        \* number of services 1..N
          Limits,   \* set of maxConcurrency values to explore (0 = unbounded)
          MaxFail,  \* max number of failing visitors
          AllowAfter \* BOOLEAN: explore WithRootNodesAndDown

Nodes == 1..N

VARIABLES deps, inverse, limit, after, fails,   \* configuration, fixed in Init
          status, chan, expect, sem, cancelled, egErr,
          pcM, mTodo, mCur,
          pcC, cTodo, cCur,
          pcW, visits, ret

cfgv == <<deps, inverse, limit, after, fails>>
vars == <<deps, inverse, limit, after, fails, status, chan, expect, sem, cancelled, egErr,
          pcM, mTodo, mCur, pcC, cTodo, cCur, pcW, visits, ret>>

\* children = dependencies ; parents = dependents
Children(n) == deps[n]
Parents(n)  == {m \in Nodes : n \in deps[m]}
RECURSIVE Desc(_)
Desc(n) == Children(n) \cup UNION {Desc(c) : c \in Children(n)}

Waits(n)    == IF inverse THEN Parents(n) ELSE Children(n)    \* must be visited before n
Adjacent(n) == IF inverse THEN Children(n) ELSE Parents(n)    \* scheduled after n finishes
Extremities == IF inverse THEN {n \in Nodes : Parents(n) = {}} ELSE {n \in Nodes : Children(n) = {}}
Skip(n) == /\ after # {}
           /\ n \notin after
           /\ after \cap Desc(n) = {}

Cap == IF limit = 0 THEN N + 2 ELSE limit + 1

Init ==
  /\ deps \in [Nodes -> SUBSET Nodes]
  /\ \A n \in Nodes : \A d \in deps[n] : d < n          \* acyclic by construction
  /\ inverse \in BOOLEAN
  /\ limit \in Limits
  /\ after \in (IF AllowAfter THEN {{}} \cup {{n} : n \in Nodes} ELSE {{}})
  /\ fails \in {F \in SUBSET Nodes : Cardinality(F) <= MaxFail}
  /\ status = [n \in Nodes |-> "absent"]
  /\ chan = <<>>
  /\ expect = N
  /\ sem = 1                     \* coordinator goroutine started first
  /\ cancelled = FALSE
  /\ egErr = 0
  /\ pcM = "iter" /\ mTodo = Extremities /\ mCur = 0
  /\ pcC = "select" /\ cTodo = {} /\ cCur = 0
  /\ pcW = [n \in Nodes |-> "none"]
  /\ visits = [n \in Nodes |-> 0]
  /\ ret = "pending"

Ready(n) == \A d \in Waits(n) : status[d] = "visited"

\* ---- main goroutine: for node in extremityNodes: visit(node) ; eg.Wait()
MPick == /\ pcM = "iter" /\ mTodo # {}
         /\ \E n \in mTodo : mCur' = n /\ mTodo' = mTodo \ {n}
         /\ pcM' = "ready"
         /\ UNCHANGED <<cfgv, status, chan, expect, sem, cancelled, egErr, pcC, cTodo, cCur, pcW, visits, ret>>
MReady == /\ pcM = "ready"
          /\ pcM' = IF Ready(mCur) THEN "enter" ELSE "iter"
          /\ UNCHANGED <<cfgv, status, chan, expect, sem, cancelled, egErr, mTodo, mCur, pcC, cTodo, cCur, pcW, visits, ret>>
MEnter == /\ pcM = "enter"
          /\ IF status[mCur] = "absent"
               THEN status' = [status EXCEPT ![mCur] = "entered"] /\ pcM' = "spawn"
               ELSE UNCHANGED status /\ pcM' = "iter"
          /\ UNCHANGED <<cfgv, chan, expect, sem, cancelled, egErr, mTodo, mCur, pcC, cTodo, cCur, pcW, visits, ret>>
MSpawn == /\ pcM = "spawn" /\ sem < Cap
          /\ sem' = sem + 1
          /\ pcW' = [pcW EXCEPT ![mCur] = "start"]
          /\ pcM' = "iter"
          /\ UNCHANGED <<cfgv, status, chan, expect, cancelled, egErr, mTodo, mCur, pcC, cTodo, cCur, visits, ret>>
MWait == /\ pcM = "iter" /\ mTodo = {} /\ sem = 0
         /\ pcM' = "returned"
         /\ ret' = IF egErr = 0 THEN "nil" ELSE "err"
         /\ UNCHANGED <<cfgv, status, chan, expect, sem, cancelled, egErr, mTodo, mCur, pcC, cTodo, cCur, pcW, visits>>

\* ---- coordinator goroutine
CRecv == /\ pcC = "select" /\ chan # <<>>
         /\ chan' = Tail(chan)
         /\ expect' = expect - 1
         /\ IF expect - 1 = 0
              THEN pcC' = "exit" /\ sem' = sem - 1 /\ UNCHANGED <<cTodo, cCur>>
              ELSE pcC' = "iter" /\ cTodo' = Adjacent(Head(chan)) /\ cCur' = 0 /\ UNCHANGED sem
         /\ UNCHANGED <<cfgv, status, cancelled, egErr, pcM, mTodo, mCur, pcW, visits, ret>>
CDone == /\ pcC = "select" /\ cancelled
         /\ pcC' = "exit" /\ sem' = sem - 1
         /\ UNCHANGED <<cfgv, status, chan, expect, cancelled, egErr, pcM, mTodo, mCur, cTodo, cCur, pcW, visits, ret>>
CPick == /\ pcC = "iter"
         /\ IF cTodo = {} THEN pcC' = "select" /\ UNCHANGED <<cTodo, cCur>>
            ELSE \E n \in cTodo : cCur' = n /\ cTodo' = cTodo \ {n} /\ pcC' = "ready"
         /\ UNCHANGED <<cfgv, status, chan, expect, sem, cancelled, egErr, pcM, mTodo, mCur, pcW, visits, ret>>
CReady == /\ pcC = "ready"
          /\ pcC' = IF Ready(cCur) THEN "enter" ELSE "iter"
          /\ UNCHANGED <<cfgv, status, chan, expect, sem, cancelled, egErr, pcM, mTodo, mCur, cTodo, cCur, pcW, visits, ret>>
CEnter == /\ pcC = "enter"
          /\ IF status[cCur] = "absent"
               THEN status' = [status EXCEPT ![cCur] = "entered"] /\ pcC' = "spawn"
               ELSE UNCHANGED status /\ pcC' = "iter"
          /\ UNCHANGED <<cfgv, chan, expect, sem, cancelled, egErr, pcM, mTodo, mCur, cTodo, cCur, pcW, visits, ret>>
CSpawn == /\ pcC = "spawn" /\ sem < Cap
          /\ sem' = sem + 1
          /\ pcW' = [pcW EXCEPT ![cCur] = "start"]
          /\ pcC' = "iter"
          /\ UNCHANGED <<cfgv, status, chan, expect, cancelled, egErr, pcM, mTodo, mCur, cTodo, cCur, visits, ret>>

\* ---- worker goroutine for node n
WStart(n) == /\ pcW[n] = "start"
             /\ IF Skip(n) THEN pcW' = [pcW EXCEPT ![n] = "after"] /\ UNCHANGED visits
                ELSE pcW' = [pcW EXCEPT ![n] = "visiting"] /\ visits' = [visits EXCEPT ![n] = @ + 1]
             /\ UNCHANGED <<cfgv, status, chan, expect, sem, cancelled, egErr, pcM, mTodo, mCur, pcC, cTodo, cCur, ret>>
WReturn(n) == /\ pcW[n] = "visiting"
              /\ pcW' = [pcW EXCEPT ![n] = "after"]
              /\ UNCHANGED <<cfgv, status, chan, expect, sem, cancelled, egErr, pcM, mTodo, mCur, pcC, cTodo, cCur, visits, ret>>
WDone(n) == /\ pcW[n] = "after"
            /\ status' = [status EXCEPT ![n] = "visited"]
            /\ pcW' = [pcW EXCEPT ![n] = "send"]
            /\ UNCHANGED <<cfgv, chan, expect, sem, cancelled, egErr, pcM, mTodo, mCur, pcC, cTodo, cCur, visits, ret>>
WSend(n) == /\ pcW[n] = "send"
            /\ chan' = Append(chan, n)
            /\ pcW' = [pcW EXCEPT ![n] = "exit"]
            /\ UNCHANGED <<cfgv, status, expect, sem, cancelled, egErr, pcM, mTodo, mCur, pcC, cTodo, cCur, visits, ret>>
WExit(n) == /\ pcW[n] = "exit"
            /\ pcW' = [pcW EXCEPT ![n] = "gone"]
            /\ sem' = sem - 1
            /\ IF n \in fails /\ ~Skip(n)
                 THEN /\ cancelled' = TRUE
                      /\ egErr' = IF egErr = 0 THEN n ELSE egErr
                 ELSE UNCHANGED <<cancelled, egErr>>
            /\ UNCHANGED <<cfgv, status, chan, expect, pcM, mTodo, mCur, pcC, cTodo, cCur, visits, ret>>

Next == MPick \/ MReady \/ MEnter \/ MSpawn \/ MWait
        \/ CRecv \/ CDone \/ CPick \/ CReady \/ CEnter \/ CSpawn
        \/ \E n \in Nodes : WStart(n) \/ WReturn(n) \/ WDone(n) \/ WSend(n) \/ WExit(n)

Terminated == pcM = "returned"
Spec == Init /\ [][Next]_vars /\ WF_vars(Next)

\* ---- properties
Visiting == {n \in Nodes : pcW[n] = "visiting"}
VisitorReturned(n) == pcW[n] \in {"after", "send", "exit", "gone"}
OnceEach == \A n \in Nodes : visits[n] <= 1
DepsFirst == \A n \in Visiting : \A d \in Waits(n) : ~Skip(d) => VisitorReturned(d)
BoundNoErr == (limit > 0 /\ ~cancelled) => Cardinality(Visiting) <= limit
BoundAlways == limit > 0 => Cardinality(Visiting) <= limit
ReturnAfterAll == Terminated => \A n \in Nodes : pcW[n] \in {"none", "gone"}
ResultOK == Terminated =>
              /\ (ret = "nil") <=> (\A n \in Nodes : ~(n \in fails /\ visits[n] = 1))
              /\ ret = "nil" => \A n \in Nodes : visits[n] = (IF Skip(n) THEN 0 ELSE 1)
NoDeadlock == (ENABLED Next) \/ Terminated
Live == <>Terminated
=============================================================================
