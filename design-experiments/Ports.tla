------------------------------ MODULE Ports ------------------------------
EXTENDS Naturals, Sequences, FiniteSets, TLC, Json, CSV, IOUtils
\* abstract short form: [ip, host: <<lo,hi>> or <<>>, ctr: <<lo,hi>>, proto]
IPs == {"", "127.0.0.1", "0.0.0.0", "[::1]"}
Protos == {"", "tcp", "udp", "sctp", "TCP"}
Ranges(base) == {<<base, base>>, <<base, base + 1>>, <<base, base + 2>>}
HostRanges == {<<>>} \cup Ranges(8000) \cup {<<9000, 9001>>}
CtrRanges == Ranges(80)
R(r) == IF r[1] = r[2] THEN ToString(r[1]) ELSE ToString(r[1]) \o "-" \o ToString(r[2])
Render(p) == (IF p.ip # "" THEN p.ip \o ":" ELSE "")
          \o (IF p.host # <<>> THEN R(p.host) \o ":" ELSE IF p.ip # "" THEN ":" ELSE "")
          \o R(p.ctr)
          \o (IF p.proto # "" THEN "/" \o p.proto ELSE "")
Len2(r) == r[2] - r[1]
Lower(s) == IF s = "TCP" THEN "tcp" ELSE s
StripBr(ip) == IF ip = "[::1]" THEN "::1" ELSE ip
Valid(p) == p.host = <<>> \/ Len2(p.ctr) = 0 \/ Len2(p.host) = Len2(p.ctr)
Long(p) == [i \in 0..Len2(p.ctr) |->
             [target |-> p.ctr[1] + i,
              published |-> IF p.host = <<>> THEN ""
                            ELSE IF Len2(p.ctr) = 0 THEN R(p.host)     \* single container port keeps host range
                            ELSE ToString(p.host[1] + i),
              host_ip |-> StripBr(p.ip),
              protocol |-> IF p.proto = "" THEN "tcp" ELSE Lower(p.proto),
              mode |-> "ingress"]]
VARIABLES p, done
Init == p \in [ip : IPs, host : HostRanges, ctr : CtrRanges, proto : Protos] /\ done = FALSE
Next == /\ ~done /\ done' = TRUE /\ UNCHANGED p
        /\ CSVWrite("%1$s", <<ToJson([short |-> Render(p), valid |-> Valid(p),
               long |-> IF Valid(p) THEN [i \in 1..(Len2(p.ctr)+1) |-> Long(p)[i-1]] ELSE <<>>])>>, IOEnv.OUT)
==========================================================================
