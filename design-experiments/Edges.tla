---- MODULE Edges ----
EXTENDS Traversal, Json, CSV, IOUtils
Ctl == [pcM |-> pcM, mTodo |-> mTodo, mCur |-> mCur, pcC |-> pcC, cTodo |-> cTodo, cCur |-> cCur, pcW |-> pcW,
        status |-> status, chan |-> chan, expect |-> expect, sem |-> sem, cancelled |-> cancelled, egErr |-> egErr]
CtlP == [pcM |-> pcM', mTodo |-> mTodo', mCur |-> mCur', pcC |-> pcC', cTodo |-> cTodo', cCur |-> cCur', pcW |-> pcW',
        status |-> status', chan |-> chan', expect |-> expect', sem |-> sem', cancelled |-> cancelled', egErr |-> egErr']
Emit(lbl, n) == CSVWrite("%1$s", <<ToJson([from |-> Ctl, act |-> lbl, node |-> n, to |-> CtlP])>>, IOEnv.OUT)
ENext == \/ (MPick /\ Emit("MPick", mCur'))
         \/ (MReady /\ Emit("MReady", mCur))
         \/ (MEnter /\ Emit("MEnter", mCur))
         \/ (MSpawn /\ Emit("MSpawn", mCur))
         \/ (MWait /\ Emit("MWait", 0))
         \/ (CRecv /\ Emit("CRecv", Head(chan)))
         \/ (CDone /\ Emit("CDone", 0))
         \/ (CPick /\ Emit("CPick", cCur'))
         \/ (CReady /\ Emit("CReady", cCur))
         \/ (CEnter /\ Emit("CEnter", cCur))
         \/ (CSpawn /\ Emit("CSpawn", cCur))
         \/ \E n \in Nodes : \/ (WStart(n) /\ Emit("WStart", n))
                             \/ (WReturn(n) /\ Emit("WReturn", n))
                             \/ (WDone(n) /\ Emit("WDone", n))
                             \/ (WSend(n) /\ Emit("WSend", n))
                             \/ (WExit(n) /\ Emit("WExit", n))
\* one fixed configuration: diamond-ish 3 nodes: 2 and 3 depend on 1
EInit == Init /\ deps = <<{}, {1}, {1}>> /\ inverse = FALSE /\ limit = 1 /\ after = {} /\ fails = {1}
ESpec == EInit /\ [][ENext]_vars
====
