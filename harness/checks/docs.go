//go:build verif

package checks

import (
	"context"
	"encoding/json"
	"fmt"
	"sort"
	"strings"

	"github.com/compose-spec/compose-go/v2/loader"
	"github.com/compose-spec/compose-go/v2/types"

	"verif/harness/internal/proj"
)

// yamlOf renders a tagged tree (spec/lib/Val.tla) as flow-style YAML (JSON plus YAML tags).
func yamlOf(v interface{}) string {
	m := asMap(v)
	tag := ""
	if t, ok := m["tag"]; ok {
		tag = "!" + asStr(t) + " "
	}
	switch asStr(m["t"]) {
	case "n":
		return tag + "null"
	case "b":
		return tag + fmt.Sprint(asBool(m["v"]))
	case "i":
		return tag + fmt.Sprint(asInt(m["v"]))
	case "f":
		return tag + asStr(m["v"])
	case "s":
		q, _ := json.Marshal(asStr(m["v"]))
		return tag + string(q)
	case "l":
		var parts []string
		for _, x := range asList(m["v"]) {
			parts = append(parts, yamlOf(x))
		}
		return tag + "[" + strings.Join(parts, ", ") + "]"
	case "m":
		mv := asMap(m["v"])
		if mv == nil { // the empty mapping prints as <<>>
			return tag + "{}"
		}
		keys := make([]string, 0, len(mv))
		for k := range mv {
			keys = append(keys, k)
		}
		sort.Strings(keys)
		var parts []string
		for _, k := range keys {
			q, _ := json.Marshal(k)
			parts = append(parts, string(q)+": "+yamlOf(mv[k]))
		}
		return tag + "{" + strings.Join(parts, ", ") + "}"
	}
	return "null"
}

// safeLoad loads compose documents through the real loader; a panic inside the library is returned as an error.
func safeLoad(workdir string, env map[string]string, docs []namedDoc, opts ...func(*loader.Options)) (p *types.Project, err error) {
	defer func() {
		if r := recover(); r != nil {
			p, err = nil, fmt.Errorf("panic: %v", r)
		}
	}()
	var cfs []types.ConfigFile
	for _, d := range docs {
		cf := types.ConfigFile{Filename: d.Name}
		if d.Content != "" || d.InMemory {
			cf.Content = []byte(d.Content)
		}
		if d.Config != nil { // an already parsed document, handed to the loader as is
			cf.Content, cf.Config = nil, d.Config
		}
		cfs = append(cfs, cf)
	}
	e := types.Mapping{}
	for k, v := range env {
		e[k] = v
	}
	all := append([]func(*loader.Options){func(o *loader.Options) { o.SetProjectName("proj", true) }}, opts...)
	return loader.LoadWithContext(context.Background(), types.ConfigDetails{WorkingDir: workdir, Environment: e, ConfigFiles: cfs}, all...)
}

type namedDoc struct {
	Name     string                 `json:"name"`
	Content  string                 `json:"content"`
	InMemory bool                   `json:"in_memory"`
	Config   map[string]interface{} `json:"-"`
}

// projDump is the canonical deep dump of a project with the fields that only record where it was loaded from cleared.
func projDump(p *types.Project) string {
	if p == nil {
		return "<nil>"
	}
	q := *p
	q.ComposeFiles = nil
	return proj.Dump(&q)
}

// firstDiff shows where two dumps start to differ.
func firstDiff(a, b string) string {
	i := 0
	for i < len(a) && i < len(b) && a[i] == b[i] {
		i++
	}
	lo := i - 120
	if lo < 0 {
		lo = 0
	}
	ha, hb := i+160, i+160
	if ha > len(a) {
		ha = len(a)
	}
	if hb > len(b) {
		hb = len(b)
	}
	return fmt.Sprintf("…%s ⟨%s⟩ vs ⟨%s⟩", a[lo:i], a[i:ha], b[i:hb])
}
