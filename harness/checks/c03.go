//go:build verif

package checks

import (
	"encoding/json"
	"fmt"
	"os"
	"path/filepath"
	"sort"
	"strings"
	"time"

	"github.com/compose-spec/compose-go/v2/types"

	"verif/harness/internal/core"
)

func init() { Register("C03", "model_checking", C03) }

// plainOf converts a tagged tree into plain Go values (tags are dropped).
func plainOf(v interface{}) interface{} {
	m := asMap(v)
	switch asStr(m["t"]) {
	case "n":
		return nil
	case "b":
		return asBool(m["v"])
	case "i":
		return asInt(m["v"])
	case "s", "f":
		return asStr(m["v"])
	case "l":
		out := []interface{}{}
		for _, x := range asList(m["v"]) {
			out = append(out, plainOf(x))
		}
		return out
	case "m":
		out := map[string]interface{}{}
		for k, x := range asMap(m["v"]) {
			out[k] = plainOf(x)
		}
		return out
	}
	return nil
}

func skeletonDoc() map[string]interface{} {
	img := func() map[string]interface{} { return map[string]interface{}{"image": "img"} }
	return map[string]interface{}{
		"services": map[string]interface{}{"a": img(), "db": img(), "cache": img()},
		"networks": map[string]interface{}{"n1": map[string]interface{}{}, "n2": map[string]interface{}{}},
		"volumes":  map[string]interface{}{"data": map[string]interface{}{}, "data.v1": map[string]interface{}{}, "other": map[string]interface{}{}},
		"secrets":  map[string]interface{}{"s1": map[string]interface{}{"file": "./sec"}, "s2": map[string]interface{}{"file": "./sec"}},
		"configs":  map[string]interface{}{"c1": map[string]interface{}{"file": "./cfg"}, "c2": map[string]interface{}{"file": "./cfg"}},
	}
}

func setPath(doc map[string]interface{}, path []string, val interface{}) {
	cur := doc
	for i, k := range path {
		if i == len(path)-1 {
			cur[k] = val
			return
		}
		next, ok := cur[k].(map[string]interface{})
		if !ok {
			next = map[string]interface{}{}
			cur[k] = next
		}
		cur = next
	}
}

func docWith(path []string, val interface{}) string {
	d := skeletonDoc()
	setPath(d, path, val)
	b, _ := json.Marshal(d)
	return string(b)
}

func strList(v interface{}) []string {
	var r []string
	for _, x := range asList(v) {
		r = append(r, asStr(x))
	}
	return r
}

func sortPorts(p *types.Project) {
	if p == nil {
		return
	}
	for name, s := range p.Services {
		sort.SliceStable(s.Ports, func(i, j int) bool { return fmt.Sprintf("%+v", s.Ports[i]) < fmt.Sprintf("%+v", s.Ports[j]) })
		for i := range s.Volumes { // `volume: {}` and no `volume` key are the same long form
			if v := s.Volumes[i].Volume; v != nil && !v.NoCopy && v.Subpath == "" && len(v.Extensions) == 0 {
				s.Volumes[i].Volume = nil
			}
		}
		p.Services[name] = s
	}
}

// the project environment of every C03 load: one variable set to the empty string, one to a value
var c03Env = map[string]string{"EMPTYVAR": "", "SETVAR": "set"}

func C03(c *core.Ctx) {
	c.Assumption("TLC 1.8.0; spec/tree/Canonical.tla written from the Compose short-syntax grammars; differential oracle: the document with the short spelling and the document with the spec's long form are both loaded by the real loader (port lists compared as multisets)")
	work := filepath.Join(c.Work, "wd")
	_ = os.MkdirAll(work, 0o755)
	for _, f := range []string{"a.env", "b.env", "a.label"} {
		_ = os.WriteFile(filepath.Join(work, f), []byte("FROMFILE=1\n"), 0o644)
	}
	cfg := "SPECIFICATION Spec\nCONSTANTS Wide = TRUE\n BigLists = FALSE\nINVARIANTS Laws\nCHECK_DEADLOCK FALSE\n"
	if !c.Quick() {
		cfg = "SPECIFICATION Spec\nCONSTANTS Wide = TRUE\n BigLists = TRUE\nINVARIANTS Laws\nCHECK_DEADLOCK FALSE\n"
	}
	dump := filepath.Join(c.Work, "cases")
	r, err := c.RunTLC(core.TLCOpts{Module: "MC_Canonical", CfgText: cfg, Dump: dump, Timeout: 60 * time.Minute, Name: "canonical"})
	if err != nil {
		c.Inconclusive("MC_Canonical failed: " + err.Error())
		return
	}
	c.AddTLC(r)
	if r.Violated != "" {
		c.Inconclusive("Canonical specification violates " + r.Violated)
		return
	}
	n := 0
	fam := map[string]int{}
	_, err = core.ReadDump(dump+".dump", func(vars map[string]interface{}) error {
		cs := asMap(vars["cs"])
		if _, seed := cs["seed"]; seed {
			return nil
		}
		name := asStr(cs["n"])
		if name == "include short" {
			return nil
		}
		n++
		family := asStr(cs["family"])
		fam[family]++
		path := strList(cs["path"])
		short := plainOf(cs["short"])
		shortDoc := docWith(path, short)
		shortTxt, _ := json.Marshal(short)
		valid := asBool(cs["valid"])
		c.Eval(name+"|"+string(shortTxt), true)
		ps, es := safeLoad(work, c03Env, []namedDoc{{Name: filepath.Join(work, "compose.yaml"), Content: shortDoc}})
		rep := map[string]interface{}{"attribute": name, "short": short, "long": plainOf(cs["long"]), "valid": valid}
		if n%41 == 1 {
			c.Sample(rep)
		}
		if es != nil && strings.HasPrefix(es.Error(), "panic") {
			c.Report(core.Finding{Sig: "panic:" + name, Detail: fmt.Sprintf("%s: short form %s panics the loader: %v", name, shortTxt, es), Replay: rep})
			return nil
		}
		if !valid {
			if in, ok := cs["indomain"]; ok && !asBool(in) && family == "volumes" {
				return nil // bind options on a non-path source: no long equivalent in the grammar, totality only
			}
			if es == nil {
				c.Report(core.Finding{Sig: "invalid-accepted:" + name, Detail: fmt.Sprintf("%s: short form %s is outside the grammar but loads (as %+v)", name, shortTxt, ps.Services["a"].Ports), Replay: rep})
			}
			// the same near-miss on a service of another file that `a` extends: rejected there as well
			if len(path) == 3 && path[0] == "services" && path[1] == "a" {
				bb, _ := json.Marshal(map[string]interface{}{"services": map[string]interface{}{"b": map[string]interface{}{"image": "img", path[2]: short}}})
				_ = os.MkdirAll(filepath.Join(work, "ext"), 0o755)
				_ = os.WriteFile(filepath.Join(work, "ext", "base.yaml"), bb, 0o644)
				d := skeletonDoc()
				d["services"].(map[string]interface{})["a"] = map[string]interface{}{"extends": map[string]interface{}{"file": "ext/base.yaml", "service": "b"}}
				mb, _ := json.Marshal(d)
				c.Eval(name+"|extended-file|"+string(shortTxt), true)
				if pe, ee := safeLoad(work, c03Env, []namedDoc{{Name: filepath.Join(work, "compose.yaml"), Content: string(mb)}}); ee == nil {
					c.Report(core.Finding{Sig: "invalid-accepted-in-extended-file:" + name, Detail: fmt.Sprintf("%s: short form %s is outside the grammar but loads when it sits on a service extended from another file (as %+v / %+v / %+v)", name, shortTxt, pe.Services["a"].Ports, pe.Services["a"].Volumes, pe.Services["a"].Devices), Replay: rep})
				}
			}
			return nil
		}
		longDoc := docWith(path, plainOf(cs["long"]))
		pl, el := safeLoad(work, c03Env, []namedDoc{{Name: filepath.Join(work, "compose.yaml"), Content: longDoc}})
		switch {
		case el != nil && es != nil:
			c.Report(core.Finding{Sig: "both-rejected:" + name, Detail: fmt.Sprintf("%s: neither the short form %s (%v) nor its long form loads (%v)", name, shortTxt, es, el), Replay: rep})
		case es != nil:
			c.Report(core.Finding{Sig: "short-rejected:" + name, Detail: fmt.Sprintf("%s: the short form %s fails to load (%v) although its long form loads", name, shortTxt, es), Replay: rep})
		case el != nil:
			c.Report(core.Finding{Sig: "long-rejected:" + name, Detail: fmt.Sprintf("%s: the long form of %s fails to load: %v", name, shortTxt, el), Replay: rep})
		default:
			sortPorts(ps)
			sortPorts(pl)
			ds, dl := projDump(ps), projDump(pl)
			if ds != dl {
				c.Report(core.Finding{Sig: "differs:" + name, Detail: fmt.Sprintf("%s: short form %s and its long form load to different models: %s", name, shortTxt, firstDiff(ds, dl)), Replay: rep})
			}
			// the two spellings as the later file over a richer base, and on a service extending a richer base
			if un, ok := cs["under"]; ok && asStr(asMap(un)["t"]) != "n" {
				underDoc := docWith(path, plainOf(un))
				c.Eval(name+"|under|"+string(shortTxt), true)
				psu, esu := safeLoad(work, c03Env, []namedDoc{{Name: filepath.Join(work, "compose.yaml"), Content: underDoc}, {Name: filepath.Join(work, "over.yaml"), Content: shortDoc}})
				plu, elu := safeLoad(work, c03Env, []namedDoc{{Name: filepath.Join(work, "compose.yaml"), Content: underDoc}, {Name: filepath.Join(work, "over.yaml"), Content: longDoc}})
				cmp := func(sig string, pa, pb *types.Project, ea, eb error) {
					switch {
					case (ea == nil) != (eb == nil):
						c.Report(core.Finding{Sig: sig + ":" + name, Detail: fmt.Sprintf("%s: over a richer base %v, the short form gives %v and the long form gives %v", name, plainOf(un), ea, eb), Replay: rep})
					case ea != nil:
						c.Logf("vacuous companion (%s, %s): neither spelling loads: %v", sig, name, ea)
						c.Inc("companions_not_loadable", 1)
					case ea == nil:
						sortPorts(pa)
						sortPorts(pb)
						if a, b := projDump(pa), projDump(pb); a != b {
							c.Report(core.Finding{Sig: sig + ":" + name, Detail: fmt.Sprintf("%s: short form %s and its long form over a richer base %v load to different models: %s", name, shortTxt, plainOf(un), firstDiff(a, b)), Replay: rep})
						}
					}
				}
				cmp("under-differs", psu, plu, esu, elu)
				if len(path) == 3 && path[0] == "services" && path[1] == "a" {
					ext := func(v interface{}) string {
						d := skeletonDoc()
						svcs := d["services"].(map[string]interface{})
						svcs["abase"] = map[string]interface{}{"image": "img", path[2]: plainOf(un)}
						svcs["a"] = map[string]interface{}{"extends": map[string]interface{}{"service": "abase"}, path[2]: v}
						b, _ := json.Marshal(d)
						return string(b)
					}
					pse, ese := safeLoad(work, c03Env, []namedDoc{{Name: filepath.Join(work, "compose.yaml"), Content: ext(short)}})
					ple, ele := safeLoad(work, c03Env, []namedDoc{{Name: filepath.Join(work, "compose.yaml"), Content: ext(plainOf(cs["long"]))}})
					cmp("under-extends-differs", pse, ple, ese, ele)
				}
			}
			// a later file refining one element in long syntax: the two spellings must still denote the same model
			if ov, ok := cs["over"]; ok && asStr(asMap(ov)["t"]) != "n" {
				overDoc := docWith(path, plainOf(ov))
				c.Eval(name+"|over|"+string(shortTxt), true)
				pso, eso := safeLoad(work, c03Env, []namedDoc{{Name: filepath.Join(work, "compose.yaml"), Content: shortDoc}, {Name: filepath.Join(work, "over.yaml"), Content: overDoc}})
				plo, elo := safeLoad(work, c03Env, []namedDoc{{Name: filepath.Join(work, "compose.yaml"), Content: longDoc}, {Name: filepath.Join(work, "over.yaml"), Content: overDoc}})
				rep["override"] = plainOf(ov)
				// and with the short / long form on a base service of the same file that `a` extends and refines
				if len(path) == 3 && path[0] == "services" && path[1] == "a" {
					ext := func(v interface{}) string {
						d := skeletonDoc()
						svcs := d["services"].(map[string]interface{})
						svcs["abase"] = map[string]interface{}{"image": "img", path[2]: v}
						svcs["a"] = map[string]interface{}{"extends": map[string]interface{}{"service": "abase"}, path[2]: plainOf(ov)}
						b, _ := json.Marshal(d)
						return string(b)
					}
					pse, ese := safeLoad(work, c03Env, []namedDoc{{Name: filepath.Join(work, "compose.yaml"), Content: ext(short)}})
					ple, ele := safeLoad(work, c03Env, []namedDoc{{Name: filepath.Join(work, "compose.yaml"), Content: ext(plainOf(cs["long"]))}})
					c.Eval(name+"|extends|"+string(shortTxt), true)
					switch {
					case (ese == nil) != (ele == nil):
						c.Report(core.Finding{Sig: "extends-differs:" + name, Detail: fmt.Sprintf("%s: on an extended base refined by the extending service, the short form gives %v and the long form gives %v", name, ese, ele), Replay: rep})
					case ese == nil:
						sortPorts(pse)
						sortPorts(ple)
						if a, b := projDump(pse), projDump(ple); a != b {
							c.Report(core.Finding{Sig: "extends-differs:" + name, Detail: fmt.Sprintf("%s: short form %s and its long form on an extended base load to different models once the extending service refines one element: %s", name, shortTxt, firstDiff(a, b)), Replay: rep})
						}
					}
				}
				switch {
				case (eso == nil) != (elo == nil):
					c.Report(core.Finding{Sig: "override-differs:" + name, Detail: fmt.Sprintf("%s: with a later file refining one element, the short form gives %v and the long form gives %v", name, eso, elo), Replay: rep})
				case eso == nil:
					sortPorts(pso)
					sortPorts(plo)
					if a, b := projDump(pso), projDump(plo); a != b {
						c.Report(core.Finding{Sig: "override-differs:" + name, Detail: fmt.Sprintf("%s: short form %s and its long form load to different models once a later file refines one element: %s", name, shortTxt, firstDiff(a, b)), Replay: rep})
					}
				}
			}
		}
		return nil
	})
	if err != nil {
		c.Inconclusive("replay: " + err.Error())
		return
	}
	c.AddTraces(int64(n))
	c.Set("cases", n)
	c.Set("cases_per_family", fam)
	c.Set("exhaustive", true)
	c.Logf("%d short/long cases replayed: %v", n, fam)
	c.Set("rule", "a case is one short form (every port string and volume string of the bounded grammars, and each row of the spelling table) with its long form or its invalidity; two real loads each; all non-trivial")
}
