//go:build verif

package checks

import (
	"context"
	"github.com/compose-spec/compose-go/v2/interpolation"
	"github.com/compose-spec/compose-go/v2/tree"
	"github.com/compose-spec/compose-go/v2/types"
	"gopkg.in/yaml.v3"

	"encoding/json"
	"fmt"
	"os"
	"path/filepath"
	"sort"
	"strconv"
	"strings"
	"time"

	"github.com/compose-spec/compose-go/v2/loader"

	"verif/harness/internal/core"
)

func init() { Register("C08", "model_checking", C08) }

type typedPath struct {
	Path []string
	Kind string // boolean | integer | number
}

// schemaTypedPaths walks /repo/schema/compose-spec.json for positions that admit a string next to a typed value.
func schemaTypedPaths() ([]typedPath, error) {
	b, err := os.ReadFile(core.RepoRoot + "/schema/compose-spec.json")
	if err != nil {
		return nil, err
	}
	var root map[string]interface{}
	if err := json.Unmarshal(b, &root); err != nil {
		return nil, err
	}
	defs, _ := root["definitions"].(map[string]interface{})
	seen := map[string]bool{}
	var out []typedPath
	typesOf := func(n map[string]interface{}) map[string]bool {
		ts := map[string]bool{}
		switch t := n["type"].(type) {
		case string:
			ts[t] = true
		case []interface{}:
			for _, x := range t {
				ts[fmt.Sprint(x)] = true
			}
		}
		return ts
	}
	add := func(path []string, ts map[string]bool) {
		if !ts["string"] || ts["object"] {
			return
		}
		kind := ""
		switch {
		case ts["boolean"] && !ts["number"] && !ts["integer"]:
			kind = "boolean"
		case ts["integer"]:
			kind = "integer"
		case ts["number"]:
			kind = "number"
		}
		if kind == "" || (ts["boolean"] && (ts["number"] || ts["integer"])) {
			return // free-form scalars (labels, environment, ...)
		}
		k := strings.Join(path, ".")
		if !seen[k] {
			seen[k] = true
			out = append(out, typedPath{append([]string{}, path...), kind})
		}
	}
	var walk func(n map[string]interface{}, path []string, depth int, refs string)
	walk = func(n map[string]interface{}, path []string, depth int, refs string) {
		if depth > 9 || n == nil {
			return
		}
		if r, ok := n["$ref"].(string); ok {
			name := r[strings.LastIndex(r, "/")+1:]
			if strings.Contains(refs, "|"+name+"|") {
				return
			}
			d, _ := defs[name].(map[string]interface{})
			walk(d, path, depth+1, refs+"|"+name+"|")
			return
		}
		for _, k := range []string{"oneOf", "anyOf", "allOf"} {
			if alts, ok := n[k].([]interface{}); ok {
				ts := map[string]bool{}
				for _, a := range alts {
					if am, ok := a.(map[string]interface{}); ok {
						for t := range typesOf(am) {
							ts[t] = true
						}
					}
				}
				add(path, ts)
				for _, a := range alts {
					if am, ok := a.(map[string]interface{}); ok {
						walk(am, path, depth+1, refs)
					}
				}
			}
		}
		add(path, typesOf(n))
		if props, ok := n["properties"].(map[string]interface{}); ok {
			for k, v := range props {
				if vm, ok := v.(map[string]interface{}); ok {
					walk(vm, append(append([]string{}, path...), k), depth+1, refs)
				}
			}
		}
		if pp, ok := n["patternProperties"].(map[string]interface{}); ok {
			for k, v := range pp {
				if strings.HasPrefix(k, "^x-") {
					continue
				}
				if vm, ok := v.(map[string]interface{}); ok {
					walk(vm, append(append([]string{}, path...), "*"), depth+1, refs)
				}
			}
		}
		if it, ok := n["items"].(map[string]interface{}); ok {
			walk(it, append(append([]string{}, path...), "[]"), depth+1, refs)
		}
	}
	walk(root, nil, 0, "")
	sort.Slice(out, func(i, j int) bool { return strings.Join(out[i].Path, ".") < strings.Join(out[j].Path, ".") })
	return out, nil
}

// c08Doc builds a document with val at the typed path, in a context that makes the document valid.
func c08Doc(tp typedPath, val interface{}) (string, bool) {
	p := strings.Join(tp.Path, ".")
	doc := map[string]interface{}{"services": map[string]interface{}{"a": map[string]interface{}{"image": "img"}, "b": map[string]interface{}{"image": "img"}}}
	svc := doc["services"].(map[string]interface{})["a"].(map[string]interface{})
	rest := tp.Path
	switch {
	case strings.HasPrefix(p, "services.*."):
		rest = tp.Path[2:]
	default:
		// top-level resource attribute: <kind>.*.<attr>
		if len(tp.Path) != 3 {
			return "", false
		}
		res := map[string]interface{}{tp.Path[2]: val}
		if tp.Path[2] != "external" && (tp.Path[0] == "secrets" || tp.Path[0] == "configs") {
			res["file"] = "./f"
		}
		doc[tp.Path[0]] = map[string]interface{}{"r1": res}
		b, _ := json.Marshal(doc)
		return string(b), true
	}
	leaf := rest[len(rest)-1]
	set := func(m map[string]interface{}, keys []string, v interface{}) {
		cur := m
		for i, k := range keys {
			if i == len(keys)-1 {
				cur[k] = v
				return
			}
			nx, ok := cur[k].(map[string]interface{})
			if !ok {
				nx = map[string]interface{}{}
				cur[k] = nx
			}
			cur = nx
		}
	}
	switch {
	case len(rest) >= 3 && rest[1] == "[]" && rest[0] == "ports":
		e := map[string]interface{}{"target": 80}
		e[leaf] = val
		svc["ports"] = []interface{}{e}
	case len(rest) >= 3 && rest[1] == "[]" && rest[0] == "volumes":
		e := map[string]interface{}{"target": "/t"}
		switch {
		case len(rest) == 4 && rest[2] == "tmpfs":
			e["type"] = "tmpfs"
			e["tmpfs"] = map[string]interface{}{leaf: val}
		case len(rest) == 4 && rest[2] == "bind":
			e["type"], e["source"] = "bind", "/host"
			e["bind"] = map[string]interface{}{leaf: val}
		case len(rest) == 4 && rest[2] == "volume":
			e["type"], e["source"] = "volume", "v1"
			e["volume"] = map[string]interface{}{leaf: val}
			doc["volumes"] = map[string]interface{}{"v1": map[string]interface{}{}}
		default:
			e["type"], e["source"] = "volume", "v1"
			e[leaf] = val
			doc["volumes"] = map[string]interface{}{"v1": map[string]interface{}{}}
		}
		svc["volumes"] = []interface{}{e}
	case len(rest) == 3 && rest[1] == "[]" && (rest[0] == "configs" || rest[0] == "secrets"):
		svc[rest[0]] = []interface{}{map[string]interface{}{"source": "r1", leaf: val}}
		doc[rest[0]] = map[string]interface{}{"r1": map[string]interface{}{"file": "./f"}}
	case rest[0] == "blkio_config" && len(rest) == 4:
		svc["blkio_config"] = map[string]interface{}{rest[1]: []interface{}{map[string]interface{}{"path": "/dev/sda", leaf: val}}}
	case rest[0] == "gpus":
		svc["gpus"] = []interface{}{map[string]interface{}{"driver": "nvidia", leaf: val}}
	case rest[0] == "depends_on" && len(rest) == 3:
		svc["depends_on"] = map[string]interface{}{"b": map[string]interface{}{"condition": "service_started", leaf: val}}
	case rest[0] == "healthcheck":
		svc["healthcheck"] = map[string]interface{}{"test": []interface{}{"CMD", "true"}, leaf: val}
	case rest[0] == "build":
		if len(rest) == 3 && rest[1] == "ulimits" {
			svc["build"] = map[string]interface{}{"context": ".", "ulimits": map[string]interface{}{"nofile": val}}
		} else {
			svc["build"] = map[string]interface{}{"context": ".", leaf: val}
		}
	case (rest[0] == "post_start" || rest[0] == "pre_stop") && len(rest) == 3:
		svc[rest[0]] = []interface{}{map[string]interface{}{"command": []interface{}{"x"}, leaf: val}}
	case rest[0] == "ulimits" && len(rest) == 2:
		svc["ulimits"] = map[string]interface{}{"nofile": val}
	case rest[0] == "ulimits" && len(rest) == 3:
		other := "hard"
		if leaf == "hard" {
			other = "soft"
		}
		svc["ulimits"] = map[string]interface{}{"nofile": map[string]interface{}{leaf: val, other: 3}}
	default:
		for _, k := range rest {
			if k == "*" || k == "[]" {
				return "", false
			}
		}
		set(svc, rest, val)
	}
	b, _ := json.Marshal(doc)
	return string(b), true
}

func literalOf(kind, text string) interface{} {
	switch kind {
	case "boolean":
		switch strings.ToLower(text) {
		case "true", "yes", "on", "y":
			return true
		}
		return false
	case "integer":
		n, _ := strconv.Atoi(text)
		return n
	default:
		f, _ := strconv.ParseFloat(text, 64)
		if f == float64(int(f)) {
			return int(f)
		}
		return f
	}
}

// paths whose typed model value is not an integer although the schema says number (floats), for the number texts
var c08FloatPaths = map[string]bool{"services.*.cpus": true, "services.*.cpu_percent": true, "services.*.deploy.update_config.max_failure_ratio": true,
	"services.*.deploy.rollback_config.max_failure_ratio": true, "services.*.deploy.resources.limits.cpus": true, "services.*.deploy.resources.reservations.cpus": true}

func C08(c *core.Ctx) {
	c.Assumption("TLC 1.8.0; spec/tree/Interp.tla over Template.tla; typed positions taken from the JSON schema of the pinned tree (positions admitting a string next to a boolean/integer/number); differential oracle: variable-bearing document vs literal document, both loaded by the real loader")
	dump := filepath.Join(c.Work, "cases")
	r, err := c.RunTLC(core.TLCOpts{Module: "MC_Interp", Dump: dump, Workers: 4, Timeout: 10 * time.Minute, Name: "interp"})
	if err != nil {
		c.Inconclusive("MC_Interp failed: " + err.Error())
		return
	}
	c.AddTLC(r)
	if r.Violated != "" {
		c.Inconclusive("Interp specification violates " + r.Violated)
		return
	}
	c08Shape(c)
	defer c08Shape(c) // again after all the loads of this check: what they needed is no business of a later caller
	tps, err := schemaTypedPaths()
	if err != nil || len(tps) < 20 {
		c.Inconclusive(fmt.Sprintf("cannot derive typed paths from the schema: %v (%d)", err, len(tps)))
		return
	}
	c.Set("typed_paths_from_schema", len(tps))
	wd := filepath.Join(c.Work, "wd")
	_ = os.MkdirAll(wd, 0o755)
	env := map[string]string{"A": "va", "E": ""}
	noInterp := func(o *loader.Options) { o.SkipInterpolation = true }
	trees, typedCases, skippedPaths := 0, 0, map[string]bool{}
	pathsCovered := map[string]bool{}
	_, err = core.ReadDump(dump+".dump", func(vars map[string]interface{}) error {
		cs := asMap(vars["cs"])
		if asStr(cs["kind"]) == "tree" {
			trees++
			rendered, expected, escaped := yamlOf(cs["rendered"]), yamlOf(cs["expected"]), yamlOf(cs["escaped"])
			c.Eval("tree|"+rendered, strings.Contains(rendered, "$"))
			rep := map[string]interface{}{"rendered": rendered, "expected": expected, "escaped": escaped, "env": env}
			if trees%101 == 1 {
				c.Sample(rep)
			}
			pr, er := safeLoad(wd, env, []namedDoc{{Name: filepath.Join(wd, "c.yaml"), Content: rendered}})
			pe, ee := safeLoad(wd, env, []namedDoc{{Name: filepath.Join(wd, "c.yaml"), Content: expected}}, noInterp)
			switch {
			case er != nil || ee != nil:
				if (er == nil) != (ee == nil) {
					c.Report(core.Finding{Sig: "tree-load", Detail: fmt.Sprintf("document with variables: %v; literal document: %v — %s", er, ee, rendered), Replay: rep})
				}
			case projDump(pr) != projDump(pe):
				c.Report(core.Finding{Sig: "tree-differs", Detail: fmt.Sprintf("interpolating %s does not give %s: %s", rendered, expected, firstDiff(projDump(pr), projDump(pe))), Replay: rep})
			}
			// every `$` written `$$`, interpolation on == the original, interpolation off
			po, eo := safeLoad(wd, env, []namedDoc{{Name: filepath.Join(wd, "c.yaml"), Content: rendered}}, noInterp)
			px, ex := safeLoad(wd, env, []namedDoc{{Name: filepath.Join(wd, "c.yaml"), Content: escaped}})
			if eo == nil {
				if ex != nil {
					c.Report(core.Finding{Sig: "escape-rejected", Detail: fmt.Sprintf("the escaped document %s fails to load: %v", escaped, ex), Replay: rep})
				} else if projDump(po) != projDump(px) {
					c.Report(core.Finding{Sig: "escape-differs", Detail: fmt.Sprintf("%s with every $ doubled and interpolation on differs from the original with interpolation off: %s", rendered, firstDiff(projDump(px), projDump(po))), Replay: rep})
				}
			}
			// the same parsed document handed to the loader twice (types.ConfigFile.Config): interpolation must not
			// have touched it the first time - the second load gives what the first gave
			if trees%2 == 0 && ex == nil {
				var parsed map[string]interface{}
				if yaml.Unmarshal([]byte(escaped), &parsed) == nil && parsed != nil {
					p1, e1 := safeLoad(wd, env, []namedDoc{{Name: filepath.Join(wd, "c.yaml"), Config: parsed}})
					p2, e2 := safeLoad(wd, env, []namedDoc{{Name: filepath.Join(wd, "c.yaml"), Config: parsed}})
					c.Eval("tree-parsed|"+escaped, true)
					switch {
					case e1 != nil:
						c.Report(core.Finding{Sig: "parsed-rejected", Detail: fmt.Sprintf("%s loads from text but not as a parsed document: %v", escaped, e1), Replay: rep})
					case e2 != nil || projDump(p1) != projDump(p2):
						c.Report(core.Finding{Sig: "parsed-reload-differs", Detail: fmt.Sprintf("the parsed document of %s loaded twice gives different results (interpolation changed the caller's document): second error %v, %s", escaped, e2, firstDiff(projDump(p1), projDump(p2))), Replay: rep})
					}
					// and the interpolation package itself: the same document interpolated twice gives the same document twice
					lookup := func(k string) (string, bool) { v, ok := env[k]; return v, ok }
					o1, ie1 := interpolation.Interpolate(parsed, interpolation.Options{LookupValue: lookup})
					j1, _ := json.Marshal(o1)
					o2, ie2 := interpolation.Interpolate(parsed, interpolation.Options{LookupValue: lookup})
					j2, _ := json.Marshal(o2)
					if (ie1 == nil) != (ie2 == nil) || string(j1) != string(j2) {
						c.Report(core.Finding{Sig: "interpolate-twice-differs", Detail: fmt.Sprintf("interpolation.Interpolate applied twice to the parsed document of %s gives %s (%v) then %s (%v)", escaped, j1, ie1, j2, ie2), Replay: rep})
					}
					switch {
					case e1 != nil || e2 != nil:
					case projDump(p1) != projDump(px):
						c.Report(core.Finding{Sig: "parsed-differs", Detail: fmt.Sprintf("%s loads differently from text and as a parsed document: %s", escaped, firstDiff(projDump(p1), projDump(px))), Replay: rep})
					}
				}
			}
			return nil
		}
		// typed positions
		kind, text, style, valid, invalid := asStr(cs["ty"]), asStr(cs["text"]), asStr(cs["style"]), asBool(cs["valid"]), asBool(cs["invalid"])
		if !valid && !invalid {
			return nil // neither a value of the kind nor clearly none: not enforced
		}
		for _, tp := range tps {
			if tp.Kind != kind {
				continue
			}
			pstr := strings.Join(tp.Path, ".")
			if pstr == "services.*.ports.[].published" {
				continue // a string in the typed model (it may hold a range)
			}
			if kind == "number" && strings.Contains(text, ".") && !c08FloatPaths[pstr] {
				continue // fractional texts only where the model holds a float
			}
			var tmpl string
			tenv := map[string]string{}
			switch style {
			case "quoted": // the same text as a string literal, no variable at all
				tmpl = text
			case "var":
				tmpl, tenv["TV"] = "${TV}", text
			case "default":
				tmpl = "${UNSET_TV:-" + text + "}"
			default:
				if len(text) < 2 {
					continue
				}
				tmpl, tenv["T1"], tenv["T2"] = "${T1}${T2}", text[:1], text[1:]
			}
			varDoc, ok := c08Doc(tp, tmpl)
			if !ok {
				skippedPaths[pstr] = true
				continue
			}
			typedCases++
			c.Eval("typed|"+pstr+"|"+text+"|"+style, true)
			rep := map[string]interface{}{"path": pstr, "kind": kind, "text": text, "style": style, "document": varDoc, "env": tenv}
			pv, ev := safeLoad(wd, tenv, []namedDoc{{Name: filepath.Join(wd, "c.yaml"), Content: varDoc}})
			if ev != nil && strings.HasPrefix(ev.Error(), "panic") {
				c.Report(core.Finding{Sig: "panic:" + pstr, Detail: fmt.Sprintf("%s = %q (%s): %v", pstr, text, style, ev), Replay: rep})
				continue
			}
			if !valid {
				leaf := tp.Path[len(tp.Path)-1]
				if ev == nil {
					c.Report(core.Finding{Sig: "invalid-accepted:" + pstr, Detail: fmt.Sprintf("%s takes %q through a variable (%s) and loads", pstr, text, style), Replay: rep})
				} else if !strings.Contains(strings.ToLower(ev.Error()), strings.ToLower(leaf)) && leaf != "*" && leaf != "[]" {
					c.Report(core.Finding{Sig: "error-without-path:" + pstr, Detail: fmt.Sprintf("%s = %q: the error does not name the attribute: %v", pstr, text, ev), Replay: rep})
				}
				continue
			}
			litDoc, _ := c08Doc(tp, literalOf(kind, text))
			pl, el := safeLoad(wd, tenv, []namedDoc{{Name: filepath.Join(wd, "c.yaml"), Content: litDoc}})
			if el != nil {
				skippedPaths[pstr] = true // the literal form itself is not a valid model in this context
				continue
			}
			pathsCovered[pstr] = true
			if ev != nil {
				c.Report(core.Finding{Sig: "variable-rejected:" + pstr, Detail: fmt.Sprintf("%s: the literal %v loads but the same value through a variable (%s, %q) fails: %v", pstr, literalOf(kind, text), style, text, ev), Replay: rep})
			} else if style == "var" && typedCases%3 == 0 {
				// the same document arriving through an include
				_ = os.WriteFile(filepath.Join(wd, "inc-var.yaml"), []byte(varDoc), 0o644)
				_ = os.WriteFile(filepath.Join(wd, "inc-lit.yaml"), []byte(litDoc), 0o644)
				mainOf := func(f string) string { return "include:\n  - " + f + "\nservices:\n  main: {image: img}\n" }
				piv, eiv := safeLoad(wd, tenv, []namedDoc{{Name: filepath.Join(wd, "main.yaml"), Content: mainOf("inc-var.yaml")}})
				pil, eil := safeLoad(wd, tenv, []namedDoc{{Name: filepath.Join(wd, "main.yaml"), Content: mainOf("inc-lit.yaml")}})
				if eil == nil && eiv != nil {
					c.Report(core.Finding{Sig: "variable-rejected-in-include:" + pstr, Detail: fmt.Sprintf("%s: in an included file the literal %v loads but the value through a variable (%q) fails: %v", pstr, literalOf(kind, text), text, eiv), Replay: rep})
				} else if eil == nil && projDump(piv) != projDump(pil) {
					c.Report(core.Finding{Sig: "variable-differs-in-include:" + pstr, Detail: fmt.Sprintf("%s: in an included file literal %v and variable %q load to different values", pstr, literalOf(kind, text), text), Replay: rep})
				}
			}
			// the dictionary form of the model (LoadModelWithContext): wherever both forms arrive there as numbers or as booleans,
			// they are the same number / boolean (an attribute the loader only converts when it binds the model stays text in one of them)
			if ev == nil {
				mv, e1 := c08Model(wd, tenv, varDoc)
				ml, e2 := c08Model(wd, tenv, litDoc)
				if e1 == nil && e2 == nil {
					if d := c08TypedDiff(mv, ml, ""); d != "" {
						c.Report(core.Finding{Sig: "variable-differs-in-model:" + pstr, Detail: fmt.Sprintf("%s: literal %v and variable %q (%s) give different typed values in the loaded model: %s", pstr, literalOf(kind, text), text, style, d), Replay: rep})
					}
				}
			}
			if ev == nil && projDump(pv) != projDump(pl) {
				c.Report(core.Finding{Sig: "variable-differs:" + pstr, Detail: fmt.Sprintf("%s: literal %v and variable %q (%s) load to different values: %s", pstr, literalOf(kind, text), text, style, firstDiff(projDump(pv), projDump(pl))), Replay: rep})
			}
		}
		return nil
	})
	if err != nil {
		c.Inconclusive("replay: " + err.Error())
		return
	}
	var sk []string
	for p := range skippedPaths {
		if !pathsCovered[p] {
			sk = append(sk, p)
		}
	}
	sort.Strings(sk)
	c.AddTraces(int64(trees + typedCases))
	c.Set("tree_cases", trees)
	c.Set("typed_cases", typedCases)
	c.Set("typed_paths_covered", len(pathsCovered))
	c.Set("typed_paths_without_context", sk)
	c.Logf("%d tree cases, %d typed cases over %d schema paths (%d without a usable context)", trees, typedCases, len(pathsCovered), len(sk))
	c.Set("rule", "a case is a document whose string leaves are templates (all triples of 8 templates at 3 positions), or a typed schema position x text x substitution style; 2-4 real loads each; non-trivial when the document contains a `$`")
}

// c08Shape: documents without any `$`, with every kind of empty and nested container, interpolated through the interpolation
// package itself: the result is the same document - same keys, same kinds, empty sequences still sequences (Interp.tla, ShapeLaw)
func c08Shape(c *core.Ctx) {
	docs := []string{
		`{"services":{"a":{"image":"i","command":[],"dns":[],"labels":{},"ports":[{"target":80,"published":"8080"}],"x-n":[[],{"k":[]},[[1,2.5,true,null]]]}},"volumes":{},"x-top":[]}`,
		`{"services":{"a":{"image":"i","entrypoint":["sh","-c",""],"environment":{"A":null,"B":"","C":"c"},"cpus":0.5,"scale":0,"init":false,"read_only":true}}}`,
	}
	// the casts applied are those the caller names, for the paths the caller names
	{
		in := map[string]interface{}{"services": map[string]interface{}{"a": map[string]interface{}{"privileged": "${P}", "scale": "${N}", "init": "${P}", "read_only": "no", "tty": "${P}", "oom_kill_disable": "${P}"}}}
		out, err := interpolation.Interpolate(in, interpolation.Options{
			LookupValue:     func(k string) (string, bool) { v, ok := map[string]string{"P": "yes", "N": "3"}[k]; return v, ok },
			TypeCastMapping: map[tree.Path]interpolation.Cast{tree.NewPath("services", tree.PathMatchAll, "scale"): func(v string) (interface{}, error) { return strconv.Atoi(v) }},
		})
		got, _ := json.Marshal(out)
		c.Eval("own-cast-mapping", true)
		if want := `{"services":{"a":{"init":"yes","oom_kill_disable":"yes","privileged":"yes","read_only":"no","scale":3,"tty":"yes"}}}`; err != nil || string(got) != want {
			c.Report(core.Finding{Sig: "cast-not-requested", Detail: fmt.Sprintf("interpolation.Interpolate with a cast for services.*.scale only gives %s (%v); expected %s", got, err, want), Replay: map[string]interface{}{"document": in}})
		}
	}
	for _, d := range docs {
		var in map[string]interface{}
		if err := json.Unmarshal([]byte(d), &in); err != nil {
			c.Inconclusive("shape document: " + err.Error())
			return
		}
		before, _ := json.Marshal(in)
		out, err := interpolation.Interpolate(in, interpolation.Options{LookupValue: func(string) (string, bool) { return "", false }})
		after, _ := json.Marshal(out)
		c.Eval("shape|"+d, true)
		if err != nil || string(after) != string(before) {
			c.Report(core.Finding{Sig: "shape-changed", Detail: fmt.Sprintf("interpolation.Interpolate on a document without any substitution gives %s (%v); the document is %s", after, err, before), Replay: map[string]interface{}{"document": d}})
		}
	}
}

func c08Model(wd string, env map[string]string, doc string) (m map[string]interface{}, err error) {
	defer func() {
		if r := recover(); r != nil {
			err = fmt.Errorf("panic: %v", r)
		}
	}()
	e := types.Mapping{}
	for k, v := range env {
		e[k] = v
	}
	return loader.LoadModelWithContext(context.Background(), types.ConfigDetails{WorkingDir: wd, Environment: e,
		ConfigFiles: []types.ConfigFile{{Filename: filepath.Join(wd, "c.yaml"), Content: []byte(doc)}}}, func(o *loader.Options) { o.SetProjectName("proj", true) })
}

// c08TypedDiff: the first place where two models hold different numbers or different booleans
func c08TypedDiff(a, b interface{}, path string) string {
	num := func(v interface{}) (float64, bool) {
		switch x := v.(type) {
		case int:
			return float64(x), true
		case int64:
			return float64(x), true
		case uint32:
			return float64(x), true
		case uint64:
			return float64(x), true
		case float32:
			return float64(x), true
		case float64:
			return x, true
		}
		return 0, false
	}
	switch x := a.(type) {
	case map[string]interface{}:
		y, ok := b.(map[string]interface{})
		if !ok {
			return ""
		}
		for k, v := range x {
			if w, has := y[k]; has {
				if d := c08TypedDiff(v, w, path+"."+k); d != "" {
					return d
				}
			}
		}
	case []interface{}:
		y, ok := b.([]interface{})
		if !ok || len(y) != len(x) {
			return ""
		}
		for i := range x {
			if d := c08TypedDiff(x[i], y[i], fmt.Sprintf("%s[%d]", path, i)); d != "" {
				return d
			}
		}
	case bool:
		if y, ok := b.(bool); ok && y != x {
			return fmt.Sprintf("%s: %v vs %v", path, x, y)
		}
	default:
		if na, ok := num(a); ok {
			if nb, ok := num(b); ok && na != nb {
				// a value the model holds in single precision on either side is compared in single precision
				_, fa := a.(float32)
				_, fb := b.(float32)
				if (fa || fb) && float32(na) == float32(nb) {
					return ""
				}
				return fmt.Sprintf("%s: %v (%T) vs %v (%T)", path, a, a, b, b)
			}
		}
	}
	return ""
}
