//go:build verif

package checks

import (
	"context"
	"encoding/base64"
	"encoding/json"
	"fmt"
	"os"
	"path/filepath"
	"strings"
	"sync"
	"time"

	"github.com/compose-spec/compose-go/v2/loader"
	"github.com/compose-spec/compose-go/v2/types"
	"gopkg.in/yaml.v3"

	"verif/harness/internal/core"
	"verif/harness/internal/proj"
)

func init() { Register("C20", "model_checking", C20) }

type c20Item struct {
	Kind string
	Ref  bool
}

// canary values contain YAML-significant characters; the two tokens are what the output is searched for
func c20Canary(prefix string, i int) (value string, tokens []string) {
	a, b := fmt.Sprintf("ZQ%s%dAAA", prefix, i), fmt.Sprintf("ZQ%s%dBBB", prefix, i)
	forms := []string{"%s: #%s", "%s'\"%s", "%s\n%s", "- %s ${X} %s", "%s%s"}
	return fmt.Sprintf(forms[i%len(forms)], a, b), []string{a, b}
}

func c20Doc(secrets, configs []c20Item) (string, types.Mapping) {
	env := types.Mapping{}
	var sb strings.Builder
	sb.WriteString("services:\n  app:\n    image: img\n    x-known: {a: 1, b: two}\n")
	var refs []string
	for i, s := range secrets {
		if s.Ref {
			refs = append(refs, fmt.Sprintf("      - s%d\n", i+1))
		}
	}
	if len(refs) > 0 {
		sb.WriteString("    secrets:\n" + strings.Join(refs, ""))
	}
	refs = nil
	for i, s := range configs {
		if s.Ref {
			refs = append(refs, fmt.Sprintf("      - c%d\n", i+1))
		}
	}
	if len(refs) > 0 {
		sb.WriteString("    configs:\n" + strings.Join(refs, ""))
	}
	sb.WriteString("  other:\n    image: img\n    profiles: [extra]\n")
	item := func(prefix string, i int, it c20Item) {
		name := fmt.Sprintf("%s%d", prefix, i+1)
		sb.WriteString("  " + name + ":\n")
		switch it.Kind {
		case "file":
			sb.WriteString("    file: ./" + name + ".txt\n")
		case "environment":
			v := strings.ToUpper(prefix) + fmt.Sprintf("VAR%d", i+1)
			sb.WriteString("    environment: " + v + "\n")
			val, _ := c20Canary(prefix, i+1)
			env[v] = val
		case "content":
			val, _ := c20Canary(prefix+"inline", i+1)
			q, _ := json.Marshal(strings.ReplaceAll(val, "$", "$$"))
			sb.WriteString("    content: " + string(q) + "\n")
		case "external":
			sb.WriteString("    external: true\n")
		}
	}
	if len(secrets) > 0 {
		sb.WriteString("secrets:\n")
		for i, s := range secrets {
			item("s", i, s)
		}
	}
	if len(configs) > 0 {
		sb.WriteString("configs:\n")
		for i, s := range configs {
			item("c", i, s)
		}
	}
	return sb.String(), env
}

func c20Items(v interface{}) []c20Item {
	var r []c20Item
	for _, x := range asList(v) {
		m := asMap(x)
		r = append(r, c20Item{asStr(m["kind"]), asBool(m["ref"])})
	}
	return r
}

func inSet(v interface{}, i int) bool {
	for _, x := range asList(v) {
		if asInt(x) == i {
			return true
		}
	}
	return false
}

func containsCanary(out string, value string, tokens []string) bool {
	for _, t := range tokens {
		if strings.Contains(out, t) {
			return true
		}
	}
	return strings.Contains(out, base64.StdEncoding.EncodeToString([]byte(value)))
}

// c20Known is a caller-registered type for the service extension x-known.
type c20Known struct {
	A int    `yaml:"a" json:"a"`
	B string `yaml:"b" json:"b"`
}

func C20(c *core.Ctx) {
	c.Assumption("TLC 1.8.0; spec/project/Secrets.tla; the whole rendered output is searched for two unique tokens of every canary and for its base64 form")
	cfg := "SPECIFICATION Spec\nCONSTANTS MaxItems = 2\n MaxConfigs = 1\n MaxOps = 1\nINVARIANTS Laws\nCHECK_DEADLOCK FALSE\n"
	step := 1
	if !c.Quick() {
		cfg = "SPECIFICATION Spec\nCONSTANTS MaxItems = 2\n MaxConfigs = 2\n MaxOps = 2\nINVARIANTS Laws\nCHECK_DEADLOCK FALSE\n"
		step = 1
	}
	dump := filepath.Join(c.Work, "scenarios")
	r, err := c.RunTLC(core.TLCOpts{Module: "MC_Secrets", CfgText: cfg, Dump: dump, Timeout: 60 * time.Minute, Name: "mc"})
	if err != nil {
		c.Inconclusive("MC_Secrets failed: " + err.Error())
		return
	}
	c.AddTLC(r)
	if r.Violated != "" {
		c.Inconclusive("Secrets specification violates " + r.Violated)
		return
	}
	total := 0
	var tmu sync.Mutex
	_, err = core.ReadDumpParallel(dump+".dump", 8, func(n int, vars map[string]interface{}) error {
		sc := asMap(vars["sc"])
		if _, seed := sc["seed"]; seed {
			return nil
		}
		tmu.Lock()
		total++
		tmu.Unlock()
		if (n+int(c.Seed))%step != 0 {
			return nil
		}
		secrets, configs := c20Items(sc["secrets"]), c20Items(sc["configs"])
		doc, env := c20Doc(secrets, configs)
		var ops []string
		for _, o := range asList(sc["ops"]) {
			ops = append(ops, asStr(o))
		}
		format, withContent := asStr(sc["format"]), asBool(sc["withContent"])
		key := fmt.Sprintf("%v|%v|%v|%s|%v", secrets, configs, ops, format, withContent)
		hasEnv := strings.Contains(doc, "environment:")
		c.Eval(key, hasEnv)
		fail := func(sig, detail string) {
			c.Report(core.Finding{Sig: sig, Detail: detail + " — scenario " + key, Replay: map[string]interface{}{"document": doc, "env": env, "ops": ops, "format": format, "withSecretContent": withContent}})
		}
		// where the model comes from: 0/1 a document in memory (1: the services' environment is not resolved - the secrets'
		// values still are); 2: an included project whose own .env defines the variables (the parent environment does not)
		variant := 0
		if hasEnv {
			variant = n % 3
		}
		cd := types.ConfigDetails{WorkingDir: "/work", Environment: env, ConfigFiles: []types.ConfigFile{{Filename: "/work/compose.yaml", Content: []byte(doc)}}}
		if variant == 2 {
			dir := filepath.Join(c.Work, fmt.Sprintf("inc%d", n))
			_ = os.MkdirAll(filepath.Join(dir, "sub"), 0o755)
			defer os.RemoveAll(dir)
			var dotenv strings.Builder
			for k, v := range env {
				esc := strings.NewReplacer("\\", "\\\\", "\"", "\\\"", "\n", "\\n", "$", "\\$").Replace(v)
				fmt.Fprintf(&dotenv, "%s=\"%s\"\n", k, esc)
			}
			{
				_ = os.WriteFile(filepath.Join(dir, "sub", ".env"), []byte(dotenv.String()), 0o644)
				_ = os.WriteFile(filepath.Join(dir, "sub", "compose.yaml"), []byte(doc), 0o644)
				cd = types.ConfigDetails{WorkingDir: dir, Environment: types.Mapping{}, ConfigFiles: []types.ConfigFile{{Filename: filepath.Join(dir, "compose.yaml"),
					Content: []byte("include:\n  - sub/compose.yaml\nservices:\n  parent: {image: img}\n")}}}
			}
		}
		key += fmt.Sprintf("|variant%d", variant)
		p, err := loader.LoadWithContext(context.Background(), cd, func(o *loader.Options) {
			o.SetProjectName("proj", true)
			o.SkipResolveEnvironment = variant == 1
			if n%2 == 0 { // every other scenario with a caller-registered extension type (extensions are then bound to Go types)
				o.KnownExtensions = map[string]any{"x-known": c20Known{}}
			}
		})
		if err != nil {
			fail("load-error", "scenario does not load: "+err.Error())
			return nil
		}
		// engine view
		for i := range secrets {
			name := fmt.Sprintf("s%d", i+1)
			if inSet(sc["engine"], i+1) {
				val, _ := c20Canary("s", i+1)
				if p.Secrets[name].Content != val {
					fail("engine-content", fmt.Sprintf("secret %s: content on the loaded project is %q, expected the variable's value %q", name, p.Secrets[name].Content, val))
				}
			}
			if _, has := p.Secrets[name].Extensions[types.SecretConfigXValue]; has {
				fail("carrier-kept", "secret "+name+" still carries the private x-#value extension")
			}
		}
		for i, cf := range configs {
			if cf.Kind == "environment" {
				val, _ := c20Canary("c", i+1)
				if got := p.Configs[fmt.Sprintf("c%d", i+1)].Content; got != val {
					fail("engine-content-config", fmt.Sprintf("config c%d: content on the loaded project is %q, expected the variable's value %q", i+1, got, val))
				}
			}
		}
		q := p
		for _, o := range ops {
			switch o {
			case "profiles":
				q, err = q.WithProfiles([]string{"extra"})
			case "prune":
				q = q.WithoutUnnecessaryResources()
			case "select":
				q, err = q.WithSelectedServices([]string{"app"})
			case "disable-enable":
				q = q.WithServicesDisabled("app")
				q, err = q.WithServicesEnabled("app")
			}
			if err != nil {
				fail("derivation-error", o+": "+err.Error())
				return nil
			}
		}
		before := proj.Dump(q)
		var out []byte
		if format == "yaml" {
			if withContent {
				out, err = q.MarshalYAML(types.WithSecretContent)
			} else {
				out, err = q.MarshalYAML()
			}
		} else {
			if withContent {
				out, err = q.MarshalJSON(types.WithSecretContent)
			} else {
				out, err = q.MarshalJSON()
			}
		}
		if err != nil {
			fail("render-error", err.Error())
			return nil
		}
		if proj.Dump(q) != before {
			fail("render-modifies-project", "rendering ("+format+") modified the project")
		}
		text := string(out)
		if strings.Contains(text, types.SecretConfigXValue) {
			fail("carrier-rendered", "the private x-#value key appears in the output")
		}
		for i := range secrets {
			val, toks := c20Canary("s", i+1)
			name := fmt.Sprintf("s%d", i+1)
			if inSet(sc["forbidSecrets"], i+1) && containsCanary(text, val, toks) {
				fail("secret-leak:"+format, fmt.Sprintf("the value of environment-sourced secret %s appears in the default %s rendering", name, format))
			}
			if inSet(sc["showSecrets"], i+1) {
				// exact reproduction: parse the rendering independently of the loader
				var tree map[string]interface{}
				if format == "yaml" {
					err = yaml.Unmarshal(out, &tree)
				} else {
					err = json.Unmarshal(out, &tree)
				}
				got := ""
				if err == nil {
					if ss, ok := tree["secrets"].(map[string]interface{}); ok {
						if s, ok := ss[name].(map[string]interface{}); ok {
							got, _ = s["content"].(string)
						}
					}
				}
				if got != val {
					fail("optin-inexact:"+format, fmt.Sprintf("with secret content requested, secret %s renders content %q, expected %q", name, got, val))
				}
			}
		}
		for i := range configs {
			val, toks := c20Canary("c", i+1)
			if inSet(sc["forbidConfigs"], i+1) {
				if containsCanary(text, val, toks) {
					fail("config-leak:"+format, fmt.Sprintf("the resolved content of environment-sourced config c%d appears in the %s rendering", i+1, format))
				}
				if inSet(sc["presentConfigs"], i+1) && !strings.Contains(text, fmt.Sprintf("CVAR%d", i+1)) {
					fail("config-source-lost:"+format, fmt.Sprintf("environment-sourced config c%d does not render its source variable", i+1))
				}
			}
		}
		if n%991 == 0 {
			c.Sample(map[string]interface{}{"document": doc, "ops": ops, "format": format, "with_secret_content": withContent, "output_bytes": len(out)})
		}
		return nil
	})
	if err != nil {
		c.Inconclusive("cannot read scenarios: " + err.Error())
		return
	}
	n := total
	c.AddTraces(int64(n / step))
	c.Set("scenarios_enumerated", n)
	c.Set("scenarios_replayed", n/step)
	c.Logf("%d scenarios enumerated, %d replayed", n, n/step)
	c.Set("rule", "a case is one scenario (1-2 secrets and 0-2 configs of each source kind, referenced or not, 0-1 (2) derivations, YAML/JSON, default / with secret content) loaded through the real loader with canary values; non-trivial when at least one item is environment-sourced")
}
