//go:build verif

package checks

import (
	"bufio"
	"context"
	"encoding/json"
	"fmt"
	"math/rand"
	"os"
	"os/exec"
	"path/filepath"
	"sort"
	"strings"
	"time"

	"github.com/compose-spec/compose-go/v2/loader"
	"github.com/compose-spec/compose-go/v2/types"

	"verif/harness/internal/core"
)

// The load pipeline as a stack machine (spec/loader/Pipeline.tla), bound to loader/loader.go in both directions of
// observation: the events the real loader emits through loader.verifPhase — for loads this harness performs (every
// option-switch set x fixture x fault) and for the loads of the repository's own test suite — are replayed through
// the specification's actions by TLC (Trace_Pipeline.tla); a line the specification does not allow is reported.
//
// What a rejection means: the pipeline took a step the specification does not have (a phase ran although it is
// switched off, ran out of order, was skipped, or a nested frame ran under other switches than the derived ones).
// None of the 20 properties states the phase order, so a rejection is reported as DRIFT (specification and code
// disagree), never as a violation; the outcome clause that C01 does state (a project xor an error) is checked on
// the same loads directly.

var pipeSwitches = []string{"SkipValidation", "SkipInterpolation", "SkipNormalization", "NoResolvePaths", "SkipConsistencyCheck",
	"SkipExtends", "SkipInclude", "SkipResolveEnvironment", "SkipDefaultValues"}

type pipeEvent struct {
	E  string   `json:"e"`
	Sw []string `json:"sw"`
}

type pipeLoad struct {
	Desc   string
	Events []pipeEvent
}

// fixtures: name -> files; every fixture is loaded from compose.yaml (+ over.yaml when present)
func pipeFixtures() map[string]map[string]string {
	base := map[string]string{
		"compose.yaml":   "include:\n  - sub/inc.yaml\nservices:\n  a:\n    image: img\n    env_file: [a.env]\n    label_file: [a.label]\n    networks: [default]\n  e:\n    image: img\n    extends: {file: ext/ext.yaml, service: b}\n---\nservices:\n  d2:\n    image: img\n    extends: {service: a}\n",
		"over.yaml":      "services:\n  a:\n    labels: {o: \"1\"}\n",
		"ext/ext.yaml":   "services:\n  b:\n    extends: {file: ext2.yaml, service: c}\n    build: ./ctx\n",
		"ext/ext2.yaml":  "services:\n  c:\n    image: img\n    volumes: ['./data:/data']\n",
		"sub/inc.yaml":   "include:\n  - path: ../sub2/inc2.yaml\nservices:\n  i:\n    image: img\n    extends: {file: ../ext/ext2.yaml, service: c}\n",
		"sub2/inc2.yaml": "services:\n  j:\n    image: ${IMG:-img}\n",
		"a.env":          "K=1\n",
		"a.label":        "l=1\n",
	}
	out := map[string]map[string]string{"full": base}
	with := func(name string, edit func(m map[string]string)) {
		m := map[string]string{}
		for k, v := range base {
			m[k] = v
		}
		edit(m)
		out[name] = m
	}
	with("plain", func(m map[string]string) {
		for k := range m {
			delete(m, k)
		}
		m["compose.yaml"] = "services:\n  a:\n    image: img\n"
	})
	// a referenced file absent
	for _, f := range []string{"over.yaml", "ext/ext.yaml", "ext/ext2.yaml", "sub/inc.yaml", "sub2/inc2.yaml", "a.env", "a.label"} {
		f := f
		with("absent:"+f, func(m map[string]string) { delete(m, f) })
	}
	// a construct that makes one phase fail
	with("fail:interpolate", func(m map[string]string) { m["over.yaml"] = "services:\n  a:\n    labels: {o: \"${UNSET_X?boom}\"}\n" })
	with("fail:interpolate-included", func(m map[string]string) { m["sub2/inc2.yaml"] = "services:\n  j:\n    image: ${UNSET_X?boom}\n" })
	with("fail:merge", func(m map[string]string) {
		m["over.yaml"] = "services:\n  a:\n    image: [not, a, string]\n    labels: 3\n"
	})
	with("fail:schema", func(m map[string]string) { m["over.yaml"] = "services:\n  a:\n    no_such_attribute: 1\n" })
	with("fail:schema-extended", func(m map[string]string) {
		m["ext/ext2.yaml"] = "services:\n  c:\n    image: img\n    no_such_attribute: 1\n"
	})
	with("fail:canonical", func(m map[string]string) { m["over.yaml"] = "services:\n  a:\n    ports: ['1:2:3:4:5']\n" })
	with("fail:validate", func(m map[string]string) {
		m["over.yaml"] = "services:\n  a:\n    volumes:\n      - {type: bind, source: /x, target: /y, volume: {nocopy: true}}\n"
	})
	with("fail:normalize", func(m map[string]string) { m["over.yaml"] = "services:\n  a:\n    network_mode: service:nowhere\n" })
	with("fail:consistency", func(m map[string]string) { m["over.yaml"] = "services:\n  a:\n    networks: [undefined_net]\n" })
	with("fail:cycle", func(m map[string]string) {
		m["over.yaml"] = "services:\n  a:\n    depends_on: [e]\n  e:\n    depends_on: [a]\n"
	})
	with("fail:include-conflict", func(m map[string]string) { m["sub/inc.yaml"] = "services:\n  a:\n    image: other\n" })
	with("fail:extends-missing-service", func(m map[string]string) { m["ext/ext.yaml"] = "services:\n  zz:\n    image: img\n" })
	return out
}

func pipeOpts(sw map[string]bool) func(*loader.Options) {
	return func(o *loader.Options) {
		o.SetProjectName("proj", true)
		o.SkipValidation = sw["SkipValidation"]
		o.SkipInterpolation = sw["SkipInterpolation"]
		o.SkipNormalization = sw["SkipNormalization"]
		o.ResolvePaths = !sw["NoResolvePaths"]
		o.SkipConsistencyCheck = sw["SkipConsistencyCheck"]
		o.SkipExtends = sw["SkipExtends"]
		o.SkipInclude = sw["SkipInclude"]
		o.SkipResolveEnvironment = sw["SkipResolveEnvironment"]
		o.SkipDefaultValues = sw["SkipDefaultValues"]
	}
}

// pipeRun performs one real load with the observer installed and returns its events, closed by ret:ok / ret:err.
func pipeRun(dir string, files map[string]string, sws []string, model bool) (evs []pipeEvent, outcome string) {
	_ = os.RemoveAll(dir)
	for name, content := range files {
		p := filepath.Join(dir, name)
		_ = os.MkdirAll(filepath.Dir(p), 0o755)
		_ = os.WriteFile(p, []byte(content), 0o644)
	}
	defer os.RemoveAll(dir)
	cfs := []types.ConfigFile{{Filename: filepath.Join(dir, "compose.yaml")}}
	if _, ok := files["over.yaml"]; ok || strings.HasPrefix(filepath.Base(dir), "absent:over") {
		cfs = append(cfs, types.ConfigFile{Filename: filepath.Join(dir, "over.yaml")})
	}
	sw := map[string]bool{}
	for _, s := range sws {
		sw[s] = true
	}
	loader.VerifSetPhaseHook(func(e loader.VerifPhaseEvent) {
		evs = append(evs, pipeEvent{E: e.Name, Sw: append([]string{}, e.Switches...)})
	})
	defer loader.VerifSetPhaseHook(nil)
	cd := types.ConfigDetails{WorkingDir: dir, ConfigFiles: cfs, Environment: types.Mapping{"VAR": "value"}}
	var err error
	var isNil bool
	func() {
		defer func() {
			if r := recover(); r != nil {
				err = fmt.Errorf("panic: %v", r)
				isNil = true
			}
		}()
		if model {
			var m map[string]any
			m, err = loader.LoadModelWithContext(context.Background(), cd, pipeOpts(sw))
			isNil = m == nil
		} else {
			var p *types.Project
			p, err = loader.LoadWithContext(context.Background(), cd, pipeOpts(sw))
			isNil = p == nil
		}
	}()
	switch {
	case err != nil && strings.HasPrefix(err.Error(), "panic: "):
		outcome = "panic"
	case err != nil && !isNil:
		outcome = "both"
	case err == nil && isNil:
		outcome = "neither"
	case err != nil:
		outcome = "error"
	default:
		outcome = "ok"
	}
	ret := "ret:ok"
	if outcome != "ok" {
		ret = "ret:err"
	}
	evs = append(evs, pipeEvent{E: ret, Sw: []string{}})
	return
}

// pipeJudge feeds the loads to TLC (Trace_Pipeline) and returns, per rejected line, the index of the load and of the event in it.
func pipeJudge(c *core.Ctx, name string, loads []pipeLoad) (rej [][2]int, judgedLoads int, ok bool) {
	var recs []interface{}
	type pos struct{ load, ev int }
	var where []pos
	for i, l := range loads {
		for j, e := range l.Events {
			if e.Sw == nil {
				e.Sw = []string{}
			}
			recs = append(recs, e)
			where = append(where, pos{i, j})
		}
	}
	if len(recs) == 0 {
		return nil, 0, true
	}
	const shard = 5000
	type res struct {
		rej    [][2]int
		nloads int
		ok     bool
	}
	n := (len(recs) + shard - 1) / shard
	// shards must start at a load boundary
	var cuts []int
	cuts = append(cuts, 0)
	for k := 1; k < n; k++ {
		i := k * shard
		for i < len(recs) && where[i].ev != 0 {
			i++
		}
		if i < len(recs) && i > cuts[len(cuts)-1] {
			cuts = append(cuts, i)
		}
	}
	cuts = append(cuts, len(recs))
	out := make([]res, len(cuts)-1)
	done := make(chan int, len(out))
	sem := make(chan struct{}, 8)
	for s := 0; s+1 < len(cuts); s++ {
		go func(s int) {
			sem <- struct{}{}
			defer func() { <-sem; done <- s }()
			lo, hi := cuts[s], cuts[s+1]
			path := filepath.Join(c.Work, fmt.Sprintf("pipe-%s-%d.ndjson", name, s))
			if err := core.WriteNDJSON(path, recs[lo:hi]); err != nil {
				return
			}
			r, err := c.RunTLC(core.TLCOpts{Module: "Trace_Pipeline", CfgText: "SPECIFICATION TraceSpec\nCONSTANTS MaxKids = 1000000\n MaxDepth = 1000000\nINVARIANTS Report WellNested ExtendedFileIsPlain IncludedResolves\nCHECK_DEADLOCK FALSE\n",
				Env: map[string]string{"TRACE": path}, Workers: 1, Timeout: 30 * time.Minute, Xss: "64m", Name: fmt.Sprintf("pipe-%s-%d", name, s)})
			if err != nil {
				c.Logf("pipeline judge: %v", err)
				return
			}
			c.AddTLC(r)
			if r.Violated != "" && r.Violated != "Report" {
				c.Drift(fmt.Sprintf("pipeline trace (%s) reaches a state that violates %s of Pipeline.tla", name, r.Violated))
			}
			v, found := core.FindPrinted(r.Output, "VERDICTS")
			if !found {
				c.Logf("pipeline judge printed no verdicts: %s", tailStr(r.Output, 400))
				return
			}
			l := asList(v)
			if asInt(l[1]) != hi-lo {
				c.Logf("pipeline judge consumed %d of %d lines", asInt(l[1]), hi-lo)
				return
			}
			for _, x := range asList(l[2]) {
				w := where[lo+asInt(x)-1]
				out[s].rej = append(out[s].rej, [2]int{w.load, w.ev})
			}
			out[s].nloads = asInt(l[3])
			out[s].ok = true
		}(s)
	}
	for range out {
		<-done
	}
	ok = true
	for _, r := range out {
		ok = ok && r.ok
		rej = append(rej, r.rej...)
		judgedLoads += r.nloads
	}
	return
}

func pipeDescribe(l pipeLoad, ev int) string {
	lo := ev - 4
	if lo < 0 {
		lo = 0
	}
	var ctx []string
	for _, e := range l.Events[lo:ev] {
		ctx = append(ctx, e.E)
	}
	e := l.Events[ev]
	return fmt.Sprintf("%s: after [%s] the loader logged %q under switches %v, a step Pipeline.tla does not allow there", l.Desc, strings.Join(ctx, " "), e.E, e.Sw)
}

// pipeSuiteTraces runs the repository's tests with the observer writing to files and returns the loads they performed.
func pipeSuiteTraces(c *core.Ctx, pkgs []string) ([]pipeLoad, error) {
	prefix := filepath.Join(c.Work, "suite-trace")
	args := append([]string{"test", "-tags", "verif", "-count=1", "-vet=off"}, pkgs...)
	cmd := exec.Command("go", args...)
	cmd.Dir = core.RepoRoot
	cmd.Env = append(os.Environ(), "VERIF_PHASE_TRACE="+prefix)
	out, err := cmd.CombinedOutput()
	files, _ := filepath.Glob(prefix + ".*")
	if len(files) == 0 {
		return nil, fmt.Errorf("the repository's tests produced no pipeline trace (go test: %v): %s", err, tailStr(string(out), 400))
	}
	sort.Strings(files)
	var loads []pipeLoad
	for _, fn := range files {
		f, err := os.Open(fn)
		if err != nil {
			return nil, err
		}
		byG := map[string][]pipeEvent{}
		var order []string
		sc := bufio.NewScanner(f)
		sc.Buffer(make([]byte, 1<<20), 1<<24)
		for sc.Scan() {
			var e struct {
				G  string   `json:"g"`
				E  string   `json:"e"`
				Sw []string `json:"sw"`
			}
			if json.Unmarshal(sc.Bytes(), &e) != nil {
				continue
			}
			if _, ok := byG[e.G]; !ok {
				order = append(order, e.G)
			}
			byG[e.G] = append(byG[e.G], pipeEvent{E: e.E, Sw: e.Sw})
		}
		f.Close()
		for _, g := range order {
			// split the goroutine's events into loads
			var cur *pipeLoad
			for _, e := range byG[g] {
				begin := strings.HasPrefix(e.E, "load{") || (e.E == "model{" && (cur == nil || pipeClosed(cur.Events)))
				if begin || cur == nil {
					loads = append(loads, pipeLoad{Desc: fmt.Sprintf("a load of the repository's test suite (process %s, goroutine %s, load %d)", filepath.Ext(fn)[1:], g, len(loads))})
					cur = &loads[len(loads)-1]
				}
				cur.Events = append(cur.Events, e)
			}
		}
		_ = os.Remove(fn)
	}
	return loads, nil
}

// pipeClosed: the frames opened by the events so far are all closed again
func pipeClosed(evs []pipeEvent) bool {
	depth := 0
	for _, e := range evs {
		switch {
		case strings.HasSuffix(e.E, "{") || strings.HasPrefix(e.E, "load{"):
			depth++
		case strings.HasPrefix(e.E, "}"):
			depth--
		case e.E == "done":
			depth = 0
		}
	}
	return depth <= 0 || (len(evs) > 0 && !strings.HasPrefix(evs[0].E, "load{") && depth <= 0)
}

func c01Pipeline(c *core.Ctx) {
	rng := rand.New(rand.NewSource(c.Seed + 77))
	// ---- the design: exhaustive within bounds
	depth := 7
	if !c.Quick() {
		depth = 10
	}
	r, err := c.RunTLC(core.TLCOpts{Module: "MC_Pipeline", CfgText: fmt.Sprintf("SPECIFICATION MCSpec\nCONSTANTS MaxKids = 2\n MaxDepth = %d\nINVARIANTS TypeOK WellNested ExtendedFileIsPlain IncludedResolves NeverStuck\nPROPERTIES ProjectMeansAllRan OffMeansOff\nCHECK_DEADLOCK TRUE\n", depth),
		Workers: 8, Timeout: 30 * time.Minute, Name: "mc-pipeline"})
	if err != nil {
		c.Inconclusive("Pipeline model failed: " + err.Error())
		return
	}
	c.AddTLC(r)
	if r.Violated != "" {
		c.Inconclusive("Pipeline.tla violates its own property " + r.Violated + ": " + tailStr(r.ErrorTrace(), 500))
		return
	}
	c.Logf("pipeline model checked: %d distinct states", r.Distinct)
	if !c.Quick() {
		if !c.CoverageGuard("mc_pipeline_action_coverage", core.TLCOpts{Module: "MC_Pipeline", CfgText: "SPECIFICATION MCSpec\nCONSTANTS MaxKids = 2\n MaxDepth = 7\nINVARIANTS TypeOK WellNested\nCHECK_DEADLOCK TRUE\n", Workers: 8, Timeout: 30 * time.Minute, Name: "mc-pipeline-cov"}) {
			return
		}
	}
	c.Set("mc_pipeline", map[string]interface{}{"distinct": r.Distinct, "generated": r.Generated, "max_depth": depth, "max_kids": 2})

	// ---- thorough: the nesting invariants as an inductive invariant, discharged by Apalache for stacks of any height
	// (up to 9 frames in the pre-state) and arbitrary switch sets: Init => IndInv, IndInv /\ Next => IndInv'
	if !c.Quick() {
		c.Set("apalache_inductive", pipeApalache(c))
	}
	// ---- own loads: fixtures x switch sets (+ model loads)
	fx := pipeFixtures()
	var names []string
	for n := range fx {
		names = append(names, n)
	}
	sort.Strings(names)
	var swsets [][]string
	if c.Quick() {
		swsets = append(swsets, nil)
		for _, s := range pipeSwitches {
			swsets = append(swsets, []string{s})
		}
		for i := 0; i < 22; i++ {
			var s []string
			for _, x := range pipeSwitches {
				if rng.Intn(3) == 0 {
					s = append(s, x)
				}
			}
			swsets = append(swsets, s)
		}
	} else {
		for m := 0; m < 1<<len(pipeSwitches); m++ {
			var s []string
			for i, x := range pipeSwitches {
				if m&(1<<i) != 0 {
					s = append(s, x)
				}
			}
			swsets = append(swsets, s)
		}
	}
	var loads []pipeLoad
	outcomes := map[string]int{}
	seenEvents := map[string]int{}
	for _, n := range names {
		for si, sws := range swsets {
			model := si%5 == 4
			dir := filepath.Join(c.Work, "pipe", strings.ReplaceAll(n, "/", "_"))
			evs, outcome := pipeRun(dir, fx[n], sws, model)
			outcomes[outcome]++
			desc := fmt.Sprintf("fixture %s, switches %v, %s", n, sws, map[bool]string{true: "LoadModelWithContext", false: "LoadWithContext"}[model])
			c.Eval("pipe|"+desc, true)
			for _, e := range evs {
				seenEvents[e.E]++
			}
			if outcome == "panic" || outcome == "both" || outcome == "neither" {
				c.Report(core.Finding{Sig: "pipeline-load:" + outcome + ":" + n, Detail: fmt.Sprintf("%s returns outcome %q (neither exactly a result nor exactly an error)", desc, outcome), Replay: map[string]interface{}{"fixture": fx[n], "switches": sws, "model": model}})
			}
			loads = append(loads, pipeLoad{Desc: desc, Events: evs})
		}
	}
	nev := 0
	for _, l := range loads {
		nev += len(l.Events)
	}
	c.Logf("pipeline: %d own loads performed", len(loads))
	rej, judged, ok := pipeJudge(c, "own", loads)
	if !ok {
		c.Inconclusive("the pipeline judge did not complete on the harness's loads")
		return
	}
	c.AddTraces(int64(len(loads)))
	for _, x := range rej {
		c.Drift(pipeDescribe(loads[x[0]], x[1]))
	}
	c.Set("pipeline_own", map[string]interface{}{"loads": len(loads), "events": nev, "judged_loads": judged, "rejected": len(rej), "outcomes": outcomes, "fixtures": len(names), "switch_sets": len(swsets), "events_by_name": seenEvents})
	c.Logf("pipeline: %d own loads (%d events) judged, %d rejected; outcomes %v", len(loads), nev, len(rej), outcomes)
	// every action of the specification must have been exercised by the recorded loads
	for _, must := range []string{"load{project", "load{model", "project-name", "model{", "}model", "file{", "}file", "doc{", "}doc", "rebase", "interpolate", "extends", "include", "merge", "schema", "canonical",
		"defaults", "validate", "resolve-paths", "normalize", "bind", "profiles", "consistency", "environment", "done", "ret:ok", "ret:err"} {
		if seenEvents[must] == 0 {
			c.Inconclusive("no recorded load ever emitted the pipeline event " + must + " (hook removed, or fixtures no longer reach it)")
			return
		}
	}

	// ---- the binding is not vacuous: corrupted copies of an accepted trace must be rejected
	var good *pipeLoad
	for i := range loads {
		l := &loads[i]
		if len(rej) == 0 && strings.HasPrefix(l.Desc, "fixture full, switches [],") && l.Events[len(l.Events)-1].E == "ret:ok" {
			good = l
			break
		}
	}
	if good != nil {
		clone := func() []pipeEvent { return append([]pipeEvent{}, good.Events...) }
		drop := func(name string) []pipeEvent {
			var o []pipeEvent
			dropped := false
			for _, e := range good.Events {
				if e.E == name && !dropped {
					dropped = true
					continue
				}
				o = append(o, e)
			}
			return o
		}
		swap := clone()
		for i := 0; i+1 < len(swap); i++ {
			if swap[i].E == "schema" && swap[i+1].E == "canonical" {
				swap[i], swap[i+1] = swap[i+1], swap[i]
				break
			}
		}
		wrongSw := clone()
		for i := range wrongSw {
			if wrongSw[i].E == "file{" && len(wrongSw[i].Sw) > 3 {
				wrongSw[i].Sw = wrongSw[i].Sw[1:]
				break
			}
		}
		okAfterFail := append(clone()[:len(good.Events)/2], pipeEvent{E: "ret:ok", Sw: []string{}})
		corrupted := []pipeLoad{{Desc: "consistency dropped", Events: drop("consistency")}, {Desc: "rebase dropped", Events: drop("rebase")}, {Desc: "schema and canonical swapped", Events: swap},
			{Desc: "extended file under the wrong switches", Events: wrongSw}, {Desc: "success reported half way", Events: okAfterFail}, {Desc: "interpolate dropped", Events: drop("interpolate")}}
		crej, _, cok := pipeJudge(c, "selftest", corrupted)
		hit := map[int]bool{}
		for _, x := range crej {
			hit[x[0]] = true
		}
		if !cok || len(hit) != len(corrupted) {
			var missed []string
			for i, l := range corrupted {
				if !hit[i] {
					missed = append(missed, l.Desc)
				}
			}
			c.Inconclusive(fmt.Sprintf("the pipeline judge accepts corrupted traces: %v", missed))
			return
		}
		c.Set("pipeline_selftest", fmt.Sprintf("%d corrupted copies of an accepted trace, all rejected", len(corrupted)))
	}

	// ---- the loads of the repository's own test suite
	pkgs := []string{"./loader/...", "./cli/..."}
	if !c.Quick() {
		pkgs = []string{"./..."}
	}
	sl, err := pipeSuiteTraces(c, pkgs)
	if err != nil {
		c.Inconclusive(err.Error())
		return
	}
	srej, sjudged, sok := pipeJudge(c, "suite", sl)
	if !sok {
		c.Inconclusive("the pipeline judge did not complete on the test suite's loads")
		return
	}
	sev := 0
	for _, l := range sl {
		sev += len(l.Events)
	}
	for _, x := range srej {
		c.Drift(pipeDescribe(sl[x[0]], x[1]))
	}
	c.AddTraces(int64(len(sl)))
	c.Set("pipeline_suite", map[string]interface{}{"packages": pkgs, "loads": len(sl), "events": sev, "judged_loads": sjudged, "rejected": len(srej)})
	c.Logf("pipeline: %d loads of the repository's tests (%d events) judged, %d rejected", len(sl), sev, len(srej))
}

// pipeApalache derives PipelineTyped.tla from Pipeline.tla (bin/mk-pipeline-typed.py) and runs the two inductive checks.
// A timeout or a tool failure is recorded, not reported: the bounded TLC run above already decides the invariants.
func pipeApalache(c *core.Ctx) map[string]interface{} {
	res := map[string]interface{}{}
	dir := filepath.Join(c.Work, "apalache")
	_ = os.MkdirAll(dir, 0o755)
	typed := filepath.Join(dir, "PipelineTyped.tla")
	if out, err := exec.Command("python3", filepath.Join(core.VerifRoot, "bin", "mk-pipeline-typed.py"), filepath.Join(core.VerifRoot, "spec", "loader", "Pipeline.tla"), typed).CombinedOutput(); err != nil {
		res["status"] = "typed module not derived: " + tailStr(string(out), 200)
		return res
	}
	run := func(name string, timeout time.Duration, args ...string) string {
		ctx, cancel := context.WithTimeout(context.Background(), timeout)
		defer cancel()
		cmd := exec.CommandContext(ctx, "apalache-mc", append(append([]string{"check", "--cinit=CInit"}, args...), "PipelineTyped.tla")...)
		cmd.Dir = dir
		start := time.Now()
		out, err := cmd.CombinedOutput()
		txt := string(out)
		switch {
		case ctx.Err() != nil:
			return fmt.Sprintf("timeout after %.0fs", time.Since(start).Seconds())
		case strings.Contains(txt, "EXITCODE: OK") && strings.Contains(txt, "The outcome is: NoError"):
			return fmt.Sprintf("holds (%.0fs)", time.Since(start).Seconds())
		case strings.Contains(txt, "The outcome is: Error") || strings.Contains(txt, "violat"):
			c.Drift("Apalache reports that the inductive invariant of Pipeline.tla fails (" + name + "): " + tailStr(txt, 300))
			return "fails"
		default:
			return fmt.Sprintf("tool error: %v %s", err, tailStr(txt, 200))
		}
	}
	res["init_implies_inv"] = run("initiation", 10*time.Minute, "--init=Init", "--inv=IndInv", "--length=0")
	res["inv_is_inductive"] = run("consecution", 40*time.Minute, "--init=IndInit", "--inv=IndInv", "--length=1")
	res["invariant"] = "TypeInv /\\ WellNested /\\ Derived (every frame's switches are the ones derived from its parent) /\\ ExtendedFileIsPlain /\\ IncludedResolves"
	c.Logf("apalache: initiation %v, consecution %v", res["init_implies_inv"], res["inv_is_inductive"])
	return res
}
