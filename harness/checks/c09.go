//go:build verif

package checks

import (
	"io"
	"regexp"

	"fmt"
	"github.com/compose-spec/compose-go/v2/dotenv"
	"os"
	"path/filepath"
	"reflect"
	"sort"
	"strings"
	"time"

	"github.com/compose-spec/compose-go/v2/loader"
	"github.com/compose-spec/compose-go/v2/types"

	"verif/harness/internal/core"
	"verif/harness/internal/proj"
)

// an env_file format of the application's own ("raw": KEY=VALUE lines taken literally), registered once at start-up
func init() {
	dotenv.RegisterFormat("raw", func(r io.Reader, _ string, _ func(string) (string, bool)) (map[string]string, error) {
		b, err := io.ReadAll(r)
		if err != nil {
			return nil, err
		}
		out := map[string]string{}
		for _, l := range strings.Split(string(b), "\n") {
			if k, v, ok := strings.Cut(l, "="); ok {
				out[k] = v
			}
		}
		return out, nil
	})
}

// integers beyond TLC's range are written "@int:<digits>" in the tables and as bare integers in the documents
var reBareInt = regexp.MustCompile(`"@int:(\d+)"`)

func init() { Register("C09", "model_checking", C09) }

type c09Event struct {
	Source    string   `json:"source"`
	Variant   string   `json:"variant"`
	Format    string   `json:"format"`
	RenderErr string   `json:"renderErr"`
	ReloadErr string   `json:"reloadErr"`
	Diff      []string `json:"diff"`
	Stable    bool     `json:"stable"`
	Precond   bool     `json:"precond"`
	doc       string
	rendered  string
	// countZero: the only difference after reload is a device request whose explicit `count: 0` came back as the default
	// (the known finding C09-device-count-zero, whichever table the model came from)
	countZero bool
}

// stripNestedExtensions clears every Extensions field below the top level (the JSON form omits them by design).
func stripNestedExtensions(p *types.Project) *types.Project {
	q := *p
	var walk func(v reflect.Value, depth int)
	walk = func(v reflect.Value, depth int) {
		switch v.Kind() {
		case reflect.Ptr, reflect.Interface:
			if !v.IsNil() {
				walk(v.Elem(), depth+1)
			}
		case reflect.Struct:
			for i := 0; i < v.NumField(); i++ {
				f := v.Field(i)
				if v.Type().Field(i).Name == "Extensions" && depth > 0 && f.CanSet() {
					f.Set(reflect.Zero(f.Type()))
					continue
				}
				walk(f, depth+1)
			}
		case reflect.Map:
			if v.IsNil() {
				return
			}
			for _, k := range v.MapKeys() {
				e := v.MapIndex(k)
				c := reflect.New(e.Type()).Elem()
				c.Set(e)
				walk(c, depth+1)
				v.SetMapIndex(k, c)
			}
		case reflect.Slice:
			for i := 0; i < v.Len(); i++ {
				walk(v.Index(i), depth+1)
			}
		}
	}
	// work on deep-independent copies of the maps we touch
	q.Services = types.Services{}
	for k, s := range p.Services {
		q.Services[k] = s
	}
	cp := func(m interface{}) interface{} {
		rv := reflect.ValueOf(m)
		if rv.IsNil() {
			return m
		}
		n := reflect.MakeMap(rv.Type())
		for _, k := range rv.MapKeys() {
			n.SetMapIndex(k, rv.MapIndex(k))
		}
		return n.Interface()
	}
	q.Networks = cp(p.Networks).(types.Networks)
	q.Volumes = cp(p.Volumes).(types.Volumes)
	q.Secrets = cp(p.Secrets).(types.Secrets)
	q.Configs = cp(p.Configs).(types.Configs)
	walk(reflect.ValueOf(&q).Elem(), 0)
	return &q
}

func partsDiff(a, b *types.Project) []string {
	fa, fb := proj.FieldDumpsLoose(a), proj.FieldDumpsLoose(b)
	out := []string{}
	for part, field := range map[string]string{"name": "Name", "services": "Services", "networks": "Networks", "volumes": "Volumes", "secrets": "Secrets", "configs": "Configs", "extensions": "Extensions"} {
		if fa[field] != fb[field] {
			out = append(out, part)
		}
	}
	sort.Strings(out)
	return out
}

// enabled services must not reference profile-disabled ones (precondition of the statement)
func c09Precond(p *types.Project) bool {
	for _, s := range p.Services {
		for d := range s.DependsOn {
			if _, off := p.DisabledServices[d]; off {
				return false
			}
		}
	}
	return true
}

func c09Sig(doc string, e c09Event, which string) string {
	return which + ":" + e.Format + ":" + e.Source
}

func C09(c *core.Ctx) {
	c.Assumption("TLC 1.8.0; spec/project/Render.tla (the round-trip law over a recorded behaviour Load -> Marshal -> Load -> Marshal); models come from the TLC-enumerated tables of MC_Merge, MC_Canonical, MC_Defaults, MC_RenderDocs and the repository's full example; parts are compared with the reflection dump of internal/proj")
	wd := filepath.Join(c.Work, "wd")
	_ = os.MkdirAll(wd, 0o755)
	for _, f := range []string{"a.env", "b.env", "a.label", "b.label"} {
		_ = os.WriteFile(filepath.Join(wd, f), []byte("FROMFILE=1\n"), 0o644)
	}
	env := map[string]string{"SECVAR": "secret-value", "HOME": "/home/verifuser"}
	type srcDoc struct{ name, doc string }
	var docs []srcDoc
	seen := map[string]bool{}
	addDoc := func(name, d string) {
		if !seen[d] {
			seen[d] = true
			docs = append(docs, srcDoc{name, d})
		}
	}
	// ---- corpus from the specification's tables
	collect := func(module, cfg, variable string, pick func(m map[string]interface{})) bool {
		dump := filepath.Join(c.Work, module)
		r, err := c.RunTLC(core.TLCOpts{Module: module, CfgText: cfg, Dump: dump, Workers: 4, Timeout: 30 * time.Minute, Name: module})
		if err != nil {
			c.Inconclusive(module + " failed: " + err.Error())
			return false
		}
		c.AddTLC(r)
		_, err = core.ReadDump(dump+".dump", func(vars map[string]interface{}) error {
			m := asMap(vars[variable])
			if _, seed := m["seed"]; !seed {
				pick(m)
			}
			return nil
		})
		if err != nil {
			c.Inconclusive(module + " dump: " + err.Error())
			return false
		}
		return true
	}
	if !collect("MC_RenderDocs", "SPECIFICATION RSpec\nCHECK_DEADLOCK FALSE\n", "doc", func(m map[string]interface{}) {
		addDoc("render:"+asStr(m["n"]), reBareInt.ReplaceAllString(yamlOf(m["d"]), "$1"))
	}) {
		return
	}
	if !collect("MC_Merge", "SPECIFICATION Spec\nCONSTANTS Triples = FALSE\n Cross = FALSE\nINVARIANTS Laws\nCHECK_DEADLOCK FALSE\n", "cs", func(m map[string]interface{}) {
		addDoc("merge:"+asStr(m["attr"]), yamlOf(m["base"]))
		addDoc("merge:"+asStr(m["attr"]), yamlOf(m["target"]))
	}) {
		return
	}
	if !collect("MC_Canonical", "SPECIFICATION Spec\nCONSTANTS Wide = FALSE\n BigLists = FALSE\nINVARIANTS Laws\nCHECK_DEADLOCK FALSE\n", "cs", func(m map[string]interface{}) {
		if asBool(m["valid"]) && asStr(m["n"]) != "include short" {
			addDoc("canonical:"+asStr(m["n"]), docWith(strList(m["path"]), plainOf(m["long"])))
		}
	}) {
		return
	}
	if !c.Quick() {
		if !collect("MC_Defaults", "SPECIFICATION Spec\nINVARIANTS Laws\nCHECK_DEADLOCK FALSE\n", "cs", func(m map[string]interface{}) { addDoc("defaults", yamlOf(m["explicit"])) }) {
			return
		}
	}
	if b, err := os.ReadFile(core.RepoRoot + "/loader/full-example.yml"); err == nil {
		addDoc("full-example", string(b))
	}
	variants := []struct {
		name string
		opt  func(*loader.Options)
	}{
		{"default", func(o *loader.Options) {}},
		{"no-normalize", func(o *loader.Options) { o.SkipNormalization = true }},
		{"no-path-resolution", func(o *loader.Options) { o.ResolvePaths = false }},
	}
	var events []c09Event
	fieldSeen := map[string]bool{}
	loaded := 0
	var unloadable []string // rows of the edge table that do not load under the default variant: they test nothing
	for _, sd := range docs {
		for _, vr := range variants {
			if c.Quick() && vr.name != "default" && !strings.HasPrefix(sd.name, "render:") && sd.name != "full-example" {
				continue
			}
			dir := wd
			if sd.name == "full-example" {
				dir = core.RepoRoot + "/loader"
			}
			vopt := vr.opt
			if sd.name == "full-example" { // the repository's example combines attributes the consistency rules exclude; its own tests load it without them
				inner := vr.opt
				vopt = func(o *loader.Options) { inner(o); o.SkipConsistencyCheck = true }
			}
			p0, err := safeLoad(dir, env, []namedDoc{{Name: filepath.Join(dir, "compose.yaml"), Content: sd.doc}}, vopt)
			if err != nil {
				if sd.name == "full-example" {
					c.Logf("full-example (%s) does not load here: %v", vr.name, err)
				}
				if strings.HasPrefix(sd.name, "render:") && vr.name == "default" {
					unloadable = append(unloadable, sd.name+": "+err.Error())
				}
				continue // not a loadable model under this variant: not a subject of the round trip
			}
			loaded++
			for _, s := range p0.Services { // field coverage accounting
				rv := reflect.ValueOf(s)
				for i := 0; i < rv.NumField(); i++ {
					if !rv.Field(i).IsZero() {
						fieldSeen["ServiceConfig."+rv.Type().Field(i).Name] = true
					}
				}
			}
			for _, format := range []string{"yaml", "json"} {
				ev := c09Event{Source: sd.name, Variant: vr.name, Format: format, Diff: []string{}, Precond: c09Precond(p0), doc: sd.doc}
				render := func(p *types.Project) ([]byte, error) {
					if format == "yaml" {
						return p.MarshalYAML()
					}
					return p.MarshalJSON()
				}
				y1, rerr := func() (b []byte, err error) {
					defer func() {
						if r := recover(); r != nil {
							err = fmt.Errorf("panic: %v", r)
						}
					}()
					return render(p0)
				}()
				if rerr != nil {
					ev.RenderErr = rerr.Error()
				} else {
					ev.rendered = string(y1)
					// rendering is a function of the project: the same project rendered again gives the same bytes, whatever
					// was rendered in between (here: both formats with the secret contents requested)
					_, _ = p0.MarshalYAML(types.WithSecretContent)
					_, _ = p0.MarshalJSON(types.WithSecretContent)
					if y1b, errb := render(p0); errb != nil || string(y1b) != string(y1) {
						c.Report(core.Finding{Sig: "rerender-differs:" + format, Detail: fmt.Sprintf("%s (%s, %s): rendering the same project again after a rendering with secret contents gives different bytes (%v): %s", sd.name, vr.name, format, errb, firstDiff(string(y1), string(y1b))),
							Replay: map[string]interface{}{"document": sd.doc, "variant": vr.name, "format": format}})
					}
					p1, err := safeLoad(dir, env, []namedDoc{{Name: filepath.Join(dir, "compose.yaml"), Content: string(y1)}}, vopt)
					if err != nil {
						ev.ReloadErr = err.Error()
					} else {
						a, b := p0, p1
						if format == "json" {
							a, b = stripNestedExtensions(p0), stripNestedExtensions(p1)
						}
						ev.Diff = partsDiff(a, b)
						if len(ev.Diff) > 0 && strings.Contains(sd.doc, `"count": 0`) && len(partsDiff(c09CountZeroAsDefault(a), b)) == 0 {
							ev.countZero = true
						}
						y2, err2 := render(p1)
						ev.Stable = err2 == nil && string(y2) == string(y1)
					}
				}
				events = append(events, ev)
				c.Eval(sd.doc+"|"+vr.name+"|"+format, true)
			}
		}
	}
	var recs []interface{}
	for _, e := range events {
		recs = append(recs, e)
	}
	path := filepath.Join(c.Work, "roundtrips.ndjson")
	if err := core.WriteNDJSON(path, recs); err != nil {
		c.Inconclusive(err.Error())
		return
	}
	rj, err := c.RunTLC(core.TLCOpts{Module: "Trace_Render", Env: map[string]string{"TRACE": path}, Workers: 1, Timeout: 20 * time.Minute, Name: "judge"})
	if err != nil {
		c.Inconclusive("Trace_Render failed: " + err.Error())
		return
	}
	c.AddTLC(rj)
	v, found := core.FindPrinted(rj.Output, "VERDICTS")
	if !found || asInt(asList(v)[1]) != len(events) {
		c.Inconclusive("Trace_Render did not judge every round trip: " + tailStr(rj.Output, 400))
		return
	}
	for _, b := range asList(asList(v)[2]) {
		t := asList(b)
		e := events[asInt(t[0])-1]
		which := asStr(t[1])
		detail := fmt.Sprintf("%s (%s, %s): %s", e.Source, e.Variant, e.Format, which)
		switch which {
		case "render-fails":
			detail += ": " + e.RenderErr
		case "reload-fails":
			detail += ": " + e.ReloadErr + " — rendering:\n" + tailStr(e.rendered, 600)
		case "differs":
			detail += fmt.Sprintf(": parts %v differ after reload", e.Diff)
		}
		if e.countZero && which == "differs" {
			e.Source = "render:device request count zero"
		}
		c.Report(core.Finding{Sig: which + ":" + e.Format + ":" + e.Source, Detail: detail, Replay: map[string]interface{}{"document": e.doc, "variant": e.Variant, "format": e.Format, "rendering": e.rendered}})
	}
	c.AddTraces(int64(len(events)))
	c.Set("models", len(docs))
	c.Set("loaded_model_variants", loaded)
	c.Set("round_trips_judged_by_tlc", len(events))
	c.Set("service_fields_non_zero_at_least_once", len(fieldSeen))
	c.Set("service_fields_total", reflect.TypeOf(types.ServiceConfig{}).NumField())
	if len(events) > 0 {
		c.Sample(events[0])
	}
	c.Set("edge_rows_not_loadable", unloadable)
	for _, u := range unloadable {
		c.Logf("edge row does not load: %s", u)
	}
	if len(unloadable) > 0 {
		c.Inconclusive(fmt.Sprintf("%d rows of the edge table do not load under the default variant, so their round trip is not exercised (first: %s)", len(unloadable), unloadable[0]))
	}
	c.Logf("%d models, %d loaded variants, %d round trips; %d/%d service fields non-zero at least once", len(docs), loaded, len(events), len(fieldSeen), reflect.TypeOf(types.ServiceConfig{}).NumField())
	c.Set("rule", "a case is one round trip Load -> Marshal -> Load -> Marshal of a model from the specification's tables (or the repository's full example), in YAML and in JSON, with default options (and without normalisation / path resolution for the custom-marshaller table); all non-trivial")
}

// c09CountZeroAsDefault: the project with every device request that asks for zero devices asking for all of them (-1), which is
// what its rendering reloads as.
func c09CountZeroAsDefault(p *types.Project) *types.Project {
	fix := func(ds []types.DeviceRequest) []types.DeviceRequest {
		out := append([]types.DeviceRequest{}, ds...)
		for i := range out {
			if out[i].Count == 0 && len(out[i].IDs) == 0 {
				out[i].Count = -1
			}
		}
		return out
	}
	q, err := p.WithServicesTransform(func(_ string, s types.ServiceConfig) (types.ServiceConfig, error) {
		if len(s.Gpus) > 0 {
			s.Gpus = fix(s.Gpus)
		}
		if s.Deploy != nil && s.Deploy.Resources.Reservations != nil && len(s.Deploy.Resources.Reservations.Devices) > 0 {
			d := *s.Deploy
			r := *d.Resources.Reservations
			r.Devices = fix(r.Devices)
			d.Resources.Reservations = &r
			s.Deploy = &d
		}
		return s, nil
	})
	if err != nil {
		return p
	}
	return q
}
