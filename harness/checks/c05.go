//go:build verif

package checks

import (
	"encoding/json"
	"fmt"
	"os"
	"path/filepath"
	"sort"
	"strings"
	"sync"
	"time"

	"github.com/compose-spec/compose-go/v2/types"

	"verif/harness/internal/core"
)

func init() { Register("C05", "model_checking", C05) }

// file ids of MC_Extends: 1 main (project dir), 2 other file of the project dir, 3 file in sub/, 4 file in sub/deep/
var c05Files = map[int]string{1: "compose.yaml", 2: "other.yaml", 3: "sub/base.yaml", 4: "sub/deep/deep.yaml"}

func relFile(from, to string) string {
	r, _ := filepath.Rel(filepath.Dir(from), to)
	return "./" + r
}

// ownFile[1]: the files other than the main one end with a second YAML document defining an unrelated service.
// ownFile: a base in the same file (other than the main file) is referenced with an explicit `file:` naming that very file.
func c05Materialize(wd string, nodes map[int]map[string]interface{}, files map[int]string, ownFile ...bool) (string, error) {
	byFile := map[int]map[string]interface{}{}
	for _, nd := range nodes {
		f := asInt(nd["file"])
		if byFile[f] == nil {
			byFile[f] = map[string]interface{}{}
		}
		svc, _ := plainOfTagged(nd["local"]).(map[string]interface{})
		if svc == nil {
			svc = map[string]interface{}{}
		}
		ext := asInt(nd["ext"])
		switch {
		case ext > 0:
			tgt := nodes[ext]
			e := map[string]interface{}{"service": asStr(tgt["name"])}
			own := len(ownFile) > 0 && ownFile[0]
			if tf := asInt(tgt["file"]); tf != f {
				e["file"] = relFile(files[f], files[tf])
			} else if own && f != 1 {
				e["file"] = relFile(files[f], files[f])
			}
			if fs, ok := e["file"].(string); ok && own { // written without the leading ./ (the same file is then named by the same text from everywhere)
				e["file"] = strings.TrimPrefix(fs, "./")
			}
			svc["extends"] = e
		case ext == -1:
			svc["extends"] = map[string]interface{}{"service": "nosuchservice"}
		case ext == -2:
			svc["extends"] = map[string]interface{}{"service": "x", "file": "./missing-file.yaml"}
		case ext == -3:
			// an empty file name (`file: ${UNSET}`) next to the name of a service this very file has: an error, not a same-file reference
			svc["extends"] = map[string]interface{}{"service": asStr(nd["name"]) + "-sibling", "file": ""}
			byFile[f][asStr(nd["name"])+"-sibling"] = map[string]interface{}{"image": "sibling"}
		}
		if asBool(nd["isnull"]) && len(svc) == 0 {
			byFile[f][asStr(nd["name"])] = nil // declared without any content
			continue
		}
		byFile[f][asStr(nd["name"])] = svc
	}
	// a service every chain member may depend on, whichever files the chain runs through
	if byFile[1] != nil {
		if _, taken := byFile[1]["zdep"]; !taken {
			byFile[1]["zdep"] = map[string]interface{}{"image": "base"}
		}
	}
	var mainDoc string
	for f, svcs := range byFile {
		doc := yamlTagged(map[string]interface{}{"services": svcs})
		if f != 1 && len(ownFile) > 1 && ownFile[1] {
			// the file has a second document that defines an unrelated service: everything the first says still holds
			doc += "\n---\nservices:\n  unrelated-extra: {image: base}\n"
		}
		p := filepath.Join(wd, files[f])
		if err := os.MkdirAll(filepath.Dir(p), 0o755); err != nil {
			return "", err
		}
		if err := os.WriteFile(p, []byte(doc), 0o644); err != nil {
			return "", err
		}
		if f == 1 {
			mainDoc = doc
		}
	}
	return mainDoc, nil
}

// taggedNode keeps a YAML tag through the plain conversion
type taggedNode struct {
	Tag string
	Val interface{}
}

func plainOfTagged(v interface{}) interface{} {
	m := asMap(v)
	var out interface{}
	switch asStr(m["t"]) {
	case "l":
		l := []interface{}{}
		for _, x := range asList(m["v"]) {
			l = append(l, plainOfTagged(x))
		}
		out = l
	case "m":
		mm := map[string]interface{}{}
		for k, x := range asMap(m["v"]) {
			mm[k] = plainOfTagged(x)
		}
		out = mm
	default:
		out = plainOf(v)
	}
	if t, ok := m["tag"]; ok {
		return taggedNode{asStr(t), out}
	}
	return out
}

func yamlTagged(v interface{}) string {
	switch x := v.(type) {
	case taggedNode:
		return "!" + x.Tag + " " + yamlTagged(x.Val)
	case map[string]interface{}:
		keys := make([]string, 0, len(x))
		for k := range x {
			keys = append(keys, k)
		}
		sort.Strings(keys)
		var parts []string
		for _, k := range keys {
			q, _ := json.Marshal(k)
			parts = append(parts, string(q)+": "+yamlTagged(x[k]))
		}
		return "{" + strings.Join(parts, ", ") + "}"
	case []interface{}:
		var parts []string
		for _, e := range x {
			parts = append(parts, yamlTagged(e))
		}
		return "[" + strings.Join(parts, ", ") + "]"
	default:
		b, _ := json.Marshal(x)
		return string(b)
	}
}

func nodesOf(v interface{}) map[int]map[string]interface{} {
	out := map[int]map[string]interface{}{}
	for i, x := range asList(v) { // a function over 1..n prints as a sequence
		out[i+1] = asMap(x)
	}
	return out
}

func C05(c *core.Ctx) {
	c.Assumption("TLC 1.8.0; spec/files/Extends.tla (resolution = base re-anchored, then Merge.tla's override of the local attributes); differential oracle: the real files with extends vs the flattened single document computed by the specification, both loaded by the real loader")
	depth, reps := 3, 2
	if !c.Quick() {
		reps = 5
	}
	root := filepath.Join(c.Work, "wd")
	mkdirs := func(wd string) {
		for _, d := range []string{"", "sub", "sub/deep"} {
			_ = os.MkdirAll(filepath.Join(wd, d), 0o755)
			for _, f := range []string{"a.env", "b.env"} {
				_ = os.WriteFile(filepath.Join(wd, d, f), []byte("FROM="+d+f+"\n"), 0o644)
			}
		}
	}
	// ---- (i) reference graphs
	gdump := filepath.Join(c.Work, "graphs")
	ng := 3
	if !c.Quick() {
		ng = 4
	}
	gfiles := map[int]string{1: "compose.yaml", 2: "sub/f2.yaml", 3: "SUB/f2.yaml"}
	g := 0
	// all graphs on ng services, then the chains on one service more
	for _, gc := range []struct {
		n     int
		chain string
	}{{ng, "FALSE"}, {ng + 1, "TRUE"}} {
		rg, err := c.RunTLC(core.TLCOpts{Module: "MC_ExtendsGraphs", CfgText: fmt.Sprintf("SPECIFICATION Spec\nCONSTANTS N = %d\n ChainOnly = %s\nINVARIANTS Exact\nCHECK_DEADLOCK FALSE\n", gc.n, gc.chain), Dump: gdump, Timeout: 30 * time.Minute, Name: "graphs" + gc.chain})
		if err != nil {
			c.Inconclusive("MC_ExtendsGraphs failed: " + err.Error())
			return
		}
		c.AddTLC(rg)
		if rg.Violated != "" {
			c.Inconclusive("Extends specification violates " + rg.Violated)
			return
		}
		_, err = core.ReadDump(gdump+".dump", func(vars map[string]interface{}) error {
			g++
			wd := filepath.Join(root, fmt.Sprintf("g%d", g))
			mkdirs(wd)
			defer os.RemoveAll(wd)
			nodes := nodesOf(vars["g"])
			doc, err := c05Materialize(wd, nodes, gfiles)
			if err != nil {
				return err
			}
			var shape []string
			for i := 1; i <= len(nodes); i++ {
				shape = append(shape, fmt.Sprintf("%s@%d->%d", asStr(nodes[i]["name"]), asInt(nodes[i]["file"]), asInt(nodes[i]["ext"])))
			}
			key := strings.Join(shape, " ")
			expectErr := asBool(vars["expectError"])
			c.Eval("graph|"+key, true)
			// the order in which the services are resolved follows map iteration: three loads, the first that deviates is reported
			var lerr error
			for rep := 0; rep < 3; rep++ {
				_, lerr = safeLoad(wd, nil, []namedDoc{{Name: filepath.Join(wd, "compose.yaml")}})
				if (lerr != nil) != expectErr {
					break
				}
			}
			rep := map[string]interface{}{"graph": key, "main": doc}
			switch {
			case lerr != nil && strings.HasPrefix(lerr.Error(), "panic"):
				c.Report(core.Finding{Sig: "graph-panic", Detail: fmt.Sprintf("reference graph %s: %v", key, lerr), Replay: rep})
			case expectErr && lerr == nil:
				c.Report(core.Finding{Sig: "graph-accepted", Detail: fmt.Sprintf("reference graph %s has a cyclic or dangling extends chain but loads", key), Replay: rep})
			case !expectErr && lerr != nil:
				c.Report(core.Finding{Sig: "graph-rejected", Detail: fmt.Sprintf("reference graph %s is sound but fails to load: %v", key, lerr), Replay: rep})
			}
			return nil
		})
		if err != nil {
			c.Inconclusive("graph replay: " + err.Error())
			return
		}
	}
	c.Set("reference_graphs", g)
	c.AddTraces(int64(g))
	c.Logf("%d reference graphs replayed", g)

	// ---- (ii) chains
	dump := filepath.Join(c.Work, "chains")
	r, err := c.RunTLC(core.TLCOpts{Module: "MC_Extends", CfgText: fmt.Sprintf("SPECIFICATION Spec\nCONSTANTS Depth = %d\nINVARIANTS ChainLaws\nCHECK_DEADLOCK FALSE\n", depth), Dump: dump, Timeout: 60 * time.Minute, Name: "chains"})
	if err != nil {
		c.Inconclusive("MC_Extends failed: " + err.Error())
		return
	}
	c.AddTLC(r)
	if r.Violated != "" {
		c.Inconclusive("Extends specification violates " + r.Violated)
		return
	}
	n := 0
	var nmu sync.Mutex
	invalidBy := map[string]int{}
	_, err = core.ReadDumpParallel(dump+".dump", 8, func(idx int, vars map[string]interface{}) error {
		cs := asMap(vars["cs"])
		if _, seed := cs["seed"]; seed {
			return nil
		}
		nmu.Lock()
		n++
		nmu.Unlock()
		wd := filepath.Join(root, fmt.Sprintf("c%d", idx))
		mkdirs(wd)
		defer os.RemoveAll(wd)
		nodes := nodesOf(cs["nodes"])
		mainDoc, err := c05Materialize(wd, nodes, c05Files, idx%2 == 0, idx%3 == 1)
		if err != nil {
			return err
		}
		// the flattened target: every service of the main file, fully resolved
		tsvcs := map[string]interface{}{}
		tm := asMap(cs["target"])
		if tm == nil { // a function over 1..k prints as a sequence
			for i, x := range asList(cs["target"]) {
				tsvcs[asStr(nodes[i+1]["name"])] = plainOfTagged(x)
			}
		} else {
			for k, x := range tm {
				var id int
				fmt.Sscanf(k, "%d", &id)
				tsvcs[asStr(nodes[id]["name"])] = plainOfTagged(x)
			}
		}
		tsvcs["zdep"] = map[string]interface{}{"image": "base"}
		target := yamlTagged(map[string]interface{}{"services": tsvcs})
		attr := asStr(cs["attr"])
		key := fmt.Sprintf("%s %s depth=%d place=%v %s", asStr(cs["kind"]), attr, asInt(cs["depth"]), cs["place"], mainDoc)
		c.Eval("chain|"+key, true)
		rep := map[string]interface{}{"attribute": attr, "files": nodes, "main": mainDoc, "target": target}
		if idx%53 == 1 {
			c.Sample(map[string]interface{}{"attribute": attr, "main_file": mainDoc, "flattened_by_spec": target, "placement": cs["place"]})
		}
		pt, et := safeLoad(wd, nil, []namedDoc{{Name: filepath.Join(wd, "target.yaml"), Content: target}})
		var dumps []string
		var lastErr error
		var p0 *types.Project
		for round := 0; round < reps; round++ { // fresh map orders: the result must not depend on visit order
			p, e := safeLoad(wd, nil, []namedDoc{{Name: filepath.Join(wd, "compose.yaml")}})
			if e != nil {
				lastErr = e
				break
			}
			if p0 == nil {
				p0 = p
			}
			for name, s := range p.Services {
				if s.Extends != nil {
					c.Report(core.Finding{Sig: "extends-kept:" + attr, Detail: fmt.Sprintf("service %s still carries extends after loading", name), Replay: rep})
				}
			}
			dedupEnvFiles(p)
			dumps = append(dumps, projDump(p))
		}
		switch {
		case lastErr != nil && et != nil:
			nmu.Lock()
			invalidBy[attr+": "+firstLine(et.Error())]++
			nmu.Unlock()
			return nil // not a valid model in either form
		case lastErr != nil:
			c.Report(core.Finding{Sig: "chain-rejected:" + attr, Detail: fmt.Sprintf("%s: the files with extends fail to load (%v) although the flattened document loads — main %s", attr, lastErr, mainDoc), Replay: rep})
		case et != nil:
			c.Report(core.Finding{Sig: "target-invalid:" + attr, Detail: fmt.Sprintf("%s: the flattened document %s does not load: %v", attr, target, et), Replay: rep})
		default:
			dedupEnvFiles(pt)
			dt := projDump(pt)
			for _, d := range dumps {
				if d != dumps[0] {
					c.Report(core.Finding{Sig: "order-dependent:" + attr, Detail: fmt.Sprintf("%s: two loads of the same files differ: %s", attr, firstDiff(d, dumps[0])), Replay: rep})
					break
				}
			}
			if dumps[0] != dt && attr == "depends_on" && c05OnlyDependencyDefaults(p0, pt, nodes) {
				// one known class (known-findings.json): the only difference is `required` / `condition` of dependency entries, and a
				// service of a file other than the main one writes such an entry without them
				c.Report(core.Finding{Sig: "extended-file-depends-on-defaults", Detail: fmt.Sprintf("a depends_on entry written without `required` / `condition` on a service of another file that extends a base setting them: the defaults are written out when that file is loaded and override the base's values, whereas the same chain inside one file keeps them (main %s, placement %v, flattened %s)", mainDoc, cs["place"], target), Replay: rep})
			} else if dumps[0] != dt {
				c.Report(core.Finding{Sig: "extends-differs:" + attr, Detail: fmt.Sprintf("%s: files with extends (main %s, placement %v) differ from the flattened %s: %s", attr, mainDoc, cs["place"], target, firstDiff(dumps[0], dt)), Replay: rep})
			}
		}
		return nil
	})
	if err != nil {
		c.Inconclusive("chain replay: " + err.Error())
		return
	}
	c.AddTraces(int64(n))
	c.Set("chain_cases", n)
	c.Set("chain_cases_invalid_in_both_forms", invalidBy)
	for k, v := range invalidBy {
		c.Logf("loads in neither form (%d cases): %s", v, k)
	}
	c.Set("exhaustive", true)
	c.Logf("%d chain cases replayed", n)
	c.Set("rule", "a case is a reference graph on 3 services over 2 files (error iff cyclic or dangling), or a chain of 2 (3) services over files in 1-3 directories with one attribute placed along the chain in every way; 5 real loads each; all non-trivial")
}

// dedupEnvFiles removes repeated env_file entries with the same resolved path (a base from another file is
// absolutised before the merge, so the same file can appear once relative and once absolute: the file is then
// read twice, which does not change the model - observed, not enforced).
func dedupEnvFiles(p *types.Project) {
	for name, s := range p.Services {
		seen := map[string]bool{}
		var out []types.EnvFile
		for _, e := range s.EnvFiles {
			if !seen[e.Path] {
				seen[e.Path] = true
				out = append(out, e)
			}
		}
		s.EnvFiles = out
		p.Services[name] = s
	}
}

// c05OnlyDependencyDefaults: the two projects are equal once `required` and `condition` of every dependency are masked, and some
// service of a file other than the main one declares a depends_on entry in long form without one of them.
func c05OnlyDependencyDefaults(a, b *types.Project, nodes map[int]map[string]interface{}) bool {
	omits := false
	for _, nd := range nodes {
		if asInt(nd["file"]) == 1 {
			continue
		}
		svc, _ := plainOfTagged(nd["local"]).(map[string]interface{})
		deps, _ := svc["depends_on"].(map[string]interface{})
		for _, e := range deps {
			em, _ := e.(map[string]interface{})
			if em == nil {
				continue
			}
			if _, ok := em["required"]; !ok {
				omits = true
			}
			if _, ok := em["condition"]; !ok {
				omits = true
			}
		}
	}
	if !omits || a == nil || b == nil {
		return false
	}
	mask := func(p *types.Project) string {
		q, err := p.WithServicesTransform(func(_ string, s types.ServiceConfig) (types.ServiceConfig, error) {
			d := types.DependsOnConfig{}
			for k, v := range s.DependsOn {
				v.Required, v.Condition = true, ""
				d[k] = v
			}
			s.DependsOn = d
			return s, nil
		})
		if err != nil {
			return err.Error()
		}
		return projDump(q)
	}
	return mask(a) == mask(b)
}
