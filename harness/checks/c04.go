//go:build verif

package checks

import (
	"encoding/json"
	"fmt"
	"os"
	"path/filepath"
	"regexp"
	"sort"
	"strings"
	"sync"
	"time"

	"github.com/compose-spec/compose-go/v2/types"

	"verif/harness/internal/core"
)

func init() { Register("C04", "model_checking", C04) }

func C04(c *core.Ctx) {
	c.Assumption("TLC 1.8.0; spec/tree/Merge.tla written from the Compose merge rules; differential oracle: the real loader loads [base, overrides] as files, as `---` documents and the specification's target alone")
	cfg := "SPECIFICATION Spec\nCONSTANTS Triples = TRUE\n Cross = FALSE\nINVARIANTS Laws\nCHECK_DEADLOCK FALSE\n"
	if !c.Quick() {
		cfg = "SPECIFICATION Spec\nCONSTANTS Triples = TRUE\n Cross = TRUE\nINVARIANTS Laws\nCHECK_DEADLOCK FALSE\n"
	}
	dump := filepath.Join(c.Work, "cases")
	r, err := c.RunTLC(core.TLCOpts{Module: "MC_Merge", CfgText: cfg, Dump: dump, Timeout: 60 * time.Minute, Name: "merge"})
	if err != nil {
		c.Inconclusive("MC_Merge failed: " + err.Error())
		return
	}
	c.AddTLC(r)
	if r.Violated != "" {
		c.Inconclusive("Merge specification violates " + r.Violated + ": " + tailStr(r.ErrorTrace(), 500))
		return
	}
	wd := filepath.Join(c.Work, "wd")
	_ = os.MkdirAll(wd, 0o755)
	for _, f := range []string{"a.env", "b.env", "a.label", "b.label"} {
		_ = os.WriteFile(filepath.Join(wd, f), []byte("FROM_"+strings.ReplaceAll(f, ".", "_")+"=1\n"), 0o644)
	}
	n, invalid := 0, 0
	shared, sharedInvalid := 0, 0
	invalidBy := map[string]int{} // attribute and reason of the cases that load in no form (they test nothing)
	attrs := map[string]int{}
	var mu sync.Mutex
	_, err = core.ReadDumpParallel(dump+".dump", 8, func(idx int, vars map[string]interface{}) error {
		cs := asMap(vars["cs"])
		if _, seed := cs["seed"]; seed {
			return nil
		}
		mu.Lock()
		n++
		mu.Unlock()
		attr := asStr(cs["attr"])
		base, target := yamlOf(cs["base"]), yamlOf(cs["target"])
		var overs []string
		for _, o := range asList(cs["overs"]) {
			overs = append(overs, yamlOf(o))
		}
		docs := []namedDoc{{Name: wd + "/base.yaml", Content: base}}
		for i, o := range overs {
			docs = append(docs, namedDoc{Name: fmt.Sprintf(wd+"/over%d.yaml", i+1), Content: o})
		}
		multi := base + "\n---\n" + strings.Join(overs, "\n---\n") + "\n"
		pa, ea := safeLoad(wd, nil, docs)
		pb, eb := safeLoad(wd, nil, []namedDoc{{Name: wd + "/multi.yaml", Content: multi}})
		pc, ec := safeLoad(wd, nil, []namedDoc{{Name: wd + "/target.yaml", Content: target}})
		nontrivial := target != base
		c.Eval(attr+"|"+base+"|"+strings.Join(overs, "|"), nontrivial)
		mu.Lock()
		attrs[attr]++
		mu.Unlock()
		if idx%97 == 1 {
			c.Sample(map[string]interface{}{"attribute": attr, "base": base, "overrides": overs, "target_by_spec": target})
		}
		rep := map[string]interface{}{"attribute": attr, "base": base, "overrides": overs, "target": target}
		switch {
		case ea != nil && eb != nil && ec != nil:
			mu.Lock()
			invalid++ // the generated case is not a valid model in any form
			invalidBy[attr+": "+firstLine(ec.Error())]++
			mu.Unlock()
			return nil
		case ec != nil:
			c.Report(core.Finding{Sig: "target-invalid:" + attr, Detail: fmt.Sprintf("%s: files load but the specification's target does not: %v", attr, ec), Replay: rep})
		case ea != nil:
			c.Report(core.Finding{Sig: "files-rejected:" + attr, Detail: fmt.Sprintf("%s: loading base+overrides as files fails (%v) although the equivalent single document loads", attr, ea), Replay: rep})
		case eb != nil:
			c.Report(core.Finding{Sig: "documents-rejected:" + attr, Detail: fmt.Sprintf("%s: loading base+overrides as `---` documents fails (%v)", attr, eb), Replay: rep})
		default:
			da, db, dc := projDump(pa), projDump(pb), projDump(pc)
			if da != dc {
				c.Report(core.Finding{Sig: "merge-files:" + attr, Detail: fmt.Sprintf("%s: base %s + overrides %v loaded as files differ from the target %s: %s", attr, base, overs, target, firstDiff(da, dc)), Replay: rep})
			}
			if db != dc {
				c.Report(core.Finding{Sig: "merge-documents:" + attr, Detail: fmt.Sprintf("%s: base + overrides loaded as `---` documents differ from the target: %s", attr, firstDiff(db, dc)), Replay: rep})
			}
			// the tagged override written once and shared by three services through a YAML anchor: each of the three is
			// the service of the specification's target
			if da == dc && len(overs) == 1 {
				if sb, so, st, ok := c04Shared(cs["base"], asList(cs["overs"])[0], cs["target"], idx); ok {
					var ps *types.Project
					var es error
					if idx%2 == 0 {
						ps, es = safeLoad(wd, nil, []namedDoc{{Name: wd + "/base.yaml", Content: sb}, {Name: wd + "/over1.yaml", Content: so}})
					} else {
						ps, es = safeLoad(wd, nil, []namedDoc{{Name: wd + "/multi.yaml", Content: sb + "\n---\n" + so + "\n"}})
					}
					pt, et := safeLoad(wd, nil, []namedDoc{{Name: wd + "/target.yaml", Content: st}})
					mu.Lock()
					shared++
					if et != nil {
						sharedInvalid++
					}
					mu.Unlock()
					rep2 := map[string]interface{}{"attribute": attr, "base": sb, "overrides": []string{so}, "target": st}
					switch {
					case et != nil:
					case es != nil:
						c.Report(core.Finding{Sig: "shared-rejected:" + attr, Detail: fmt.Sprintf("%s: an override shared by three services through an anchor is rejected (%v) although the target loads", attr, es), Replay: rep2})
					default:
						if ps.Extensions != nil {
							delete(ps.Extensions, "x-shared")
							if len(ps.Extensions) == 0 {
								ps.Extensions = pt.Extensions
							}
						}
						if ds, dt := projDump(ps), projDump(pt); ds != dt {
							c.Report(core.Finding{Sig: "merge-shared:" + attr, Detail: fmt.Sprintf("%s: base %s + override %s (one tagged value shared by three services through an anchor) differ from the target: %s", attr, sb, so, firstDiff(ds, dt)), Replay: rep2})
						}
					}
				}
			}
		}
		return nil
	})
	if err != nil {
		c.Inconclusive("replay: " + err.Error())
		return
	}
	c.AddTraces(int64(n))
	c.Set("cases", n)
	c.Set("cases_invalid_in_every_form", invalid)
	c.Set("cases_invalid_in_every_form_by_attribute", invalidBy)
	for k, v := range invalidBy {
		c.Logf("loads in no form (%d cases): %s", v, k)
	}
	c.Set("cases_per_attribute", attrs)
	c.Set("shared_anchor_cases", shared)
	c.Set("shared_anchor_cases_target_invalid", sharedInvalid)
	c.Logf("%d cases also with the tagged override shared by three services through an anchor (%d of them with a target that does not load)", shared, sharedInvalid)
	c.Set("exhaustive", true)
	c.Logf("%d merge cases replayed (%d invalid in every form)", n, invalid)
	if invalid*5 > n {
		c.Drift(fmt.Sprintf("%d of %d generated cases do not load in any form: the generator has drifted from the schema", invalid, n))
	}
	c.Set("rule", "a case is (attribute, base value, override values) over the attribute table of MC_Merge.tla (all ordered pairs of alternative values, with !override and !reset, triples in thorough); three real loads each; non-trivial when the target differs from the base")
}

// c04HasTag: whether a model value carries a !override / !reset tag anywhere
func c04HasTag(v interface{}) bool {
	m := asMap(v)
	if _, ok := m["tag"]; ok {
		return true
	}
	switch asStr(m["t"]) {
	case "l":
		for _, x := range asList(m["v"]) {
			if c04HasTag(x) {
				return true
			}
		}
	case "m":
		for _, x := range asMap(m["v"]) {
			if c04HasTag(x) {
				return true
			}
		}
	}
	return false
}

// c04Shared rewrites a case whose override tags something inside one service S: base and target get two more copies of S, and
// the override defines the content once under x-shared and gives it to the three services - through the merge key (`<<: *sh`),
// or, when the tag sits on an attribute of S itself, by anchoring that attribute's tagged value and aliasing it.
func c04Shared(base, over, target interface{}, idx int) (sb, so, st string, ok bool) {
	osvcs := asMap(asMap(asMap(asMap(over)["v"])["services"])["v"])
	if len(osvcs) != 1 {
		return
	}
	var name string
	for k := range osvcs {
		name = k
	}
	body := osvcs[name]
	if asStr(asMap(body)["t"]) != "m" || !c04HasTag(body) {
		return
	}
	if _, tagged := asMap(body)["tag"]; tagged {
		return
	}
	clone := func(doc interface{}) (string, bool) {
		d := asMap(doc)
		top := map[string]interface{}{}
		for k, v := range asMap(d["v"]) {
			top[k] = v
		}
		svcs := asMap(asMap(top["services"])["v"])
		sv, has := svcs[name]
		if !has {
			return "", false
		}
		ns := map[string]interface{}{}
		for k, v := range svcs {
			ns[k] = v
		}
		ns[name+"-2"], ns[name+"-3"] = sv, sv
		top["services"] = map[string]interface{}{"t": "m", "v": ns}
		return yamlOf(map[string]interface{}{"t": "m", "v": top}), true
	}
	var okb, okt bool
	if sb, okb = clone(base); !okb {
		return
	}
	if st, okt = clone(target); !okt {
		return
	}
	var rest []string
	for k, v := range asMap(asMap(over)["v"]) {
		if k != "services" {
			q, _ := json.Marshal(k)
			rest = append(rest, string(q)+": "+yamlOf(v))
		}
	}
	sort.Strings(rest)
	names := []string{name, name + "-2", name + "-3"}
	var shared string
	var uses []string
	direct := ""
	for k, v := range asMap(asMap(body)["v"]) {
		if _, tagged := asMap(v)["tag"]; tagged && (direct == "" || k < direct) {
			direct = k
		}
	}
	if direct != "" && idx%4 >= 2 {
		// x-shared: &sh !override V ; services: {S: {attr: *sh, ...}, ...}
		shared = "&sh " + yamlOf(asMap(asMap(body)["v"])[direct])
		var others []string
		for k, v := range asMap(asMap(body)["v"]) {
			if k != direct {
				q, _ := json.Marshal(k)
				others = append(others, string(q)+": "+yamlOf(v))
			}
		}
		sort.Strings(others)
		q, _ := json.Marshal(direct)
		one := "{" + strings.Join(append([]string{string(q) + ": *sh "}, others...), ", ") + "}"
		for _, n := range names {
			qn, _ := json.Marshal(n)
			uses = append(uses, string(qn)+": "+one)
		}
	} else {
		shared = "&sh " + yamlOf(body)
		for _, n := range names {
			qn, _ := json.Marshal(n)
			uses = append(uses, string(qn)+": {<<: *sh }")
		}
	}
	parts := append([]string{"\"x-shared\": " + shared}, rest...)
	parts = append(parts, "\"services\": {"+strings.Join(uses, ", ")+"}")
	return sb, "{" + strings.Join(parts, ", ") + "}", st, true
}

var reCasePath = regexp.MustCompile(`validating \S+: |\[[0-9,]+\]`)

// firstLine: the first line of an error, without the scratch path and the item indexes (so that equal reasons group)
func firstLine(s string) string {
	if i := strings.IndexByte(s, '\n'); i >= 0 {
		s = s[:i]
	}
	s = reCasePath.ReplaceAllString(s, "")
	if len(s) > 160 {
		s = s[:160]
	}
	return s
}
