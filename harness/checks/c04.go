//go:build verif

package checks

import (
	"fmt"
	"os"
	"path/filepath"
	"regexp"
	"strings"
	"sync"
	"time"

	"verif/harness/internal/core"
)

func init() { Register("C04", "model_checking", C04) }

func C04(c *core.Ctx) {
	c.Assumption("TLC 1.8.0; spec/tree/Merge.tla written from the Compose merge rules; differential oracle: the real loader loads [base, overrides] as files, as `---` documents and the specification's target alone")
	cfg := "SPECIFICATION Spec\nCONSTANTS Triples = TRUE\n Cross = FALSE\nINVARIANTS Laws\nCHECK_DEADLOCK FALSE\n"
	if !c.Quick() {
		cfg = "SPECIFICATION Spec\nCONSTANTS Triples = TRUE\n Cross = TRUE\nINVARIANTS Laws\nCHECK_DEADLOCK FALSE\n"
	}
	dump := filepath.Join(c.Work, "cases")
	r, err := c.RunTLC(core.TLCOpts{Module: "MC_Merge", CfgText: cfg, Dump: dump, Timeout: 60 * time.Minute, Name: "merge"})
	if err != nil {
		c.Inconclusive("MC_Merge failed: " + err.Error())
		return
	}
	c.AddTLC(r)
	if r.Violated != "" {
		c.Inconclusive("Merge specification violates " + r.Violated + ": " + tailStr(r.ErrorTrace(), 500))
		return
	}
	wd := filepath.Join(c.Work, "wd")
	_ = os.MkdirAll(wd, 0o755)
	for _, f := range []string{"a.env", "b.env", "a.label", "b.label"} {
		_ = os.WriteFile(filepath.Join(wd, f), []byte("FROM_"+strings.ReplaceAll(f, ".", "_")+"=1\n"), 0o644)
	}
	n, invalid := 0, 0
	invalidBy := map[string]int{} // attribute and reason of the cases that load in no form (they test nothing)
	attrs := map[string]int{}
	var mu sync.Mutex
	_, err = core.ReadDumpParallel(dump+".dump", 8, func(idx int, vars map[string]interface{}) error {
		cs := asMap(vars["cs"])
		if _, seed := cs["seed"]; seed {
			return nil
		}
		mu.Lock()
		n++
		mu.Unlock()
		attr := asStr(cs["attr"])
		base, target := yamlOf(cs["base"]), yamlOf(cs["target"])
		var overs []string
		for _, o := range asList(cs["overs"]) {
			overs = append(overs, yamlOf(o))
		}
		docs := []namedDoc{{Name: wd + "/base.yaml", Content: base}}
		for i, o := range overs {
			docs = append(docs, namedDoc{Name: fmt.Sprintf(wd+"/over%d.yaml", i+1), Content: o})
		}
		multi := base + "\n---\n" + strings.Join(overs, "\n---\n") + "\n"
		pa, ea := safeLoad(wd, nil, docs)
		pb, eb := safeLoad(wd, nil, []namedDoc{{Name: wd + "/multi.yaml", Content: multi}})
		pc, ec := safeLoad(wd, nil, []namedDoc{{Name: wd + "/target.yaml", Content: target}})
		nontrivial := target != base
		c.Eval(attr+"|"+base+"|"+strings.Join(overs, "|"), nontrivial)
		mu.Lock()
		attrs[attr]++
		mu.Unlock()
		if idx%97 == 1 {
			c.Sample(map[string]interface{}{"attribute": attr, "base": base, "overrides": overs, "target_by_spec": target})
		}
		rep := map[string]interface{}{"attribute": attr, "base": base, "overrides": overs, "target": target}
		switch {
		case ea != nil && eb != nil && ec != nil:
			mu.Lock()
			invalid++ // the generated case is not a valid model in any form
			invalidBy[attr+": "+firstLine(ec.Error())]++
			mu.Unlock()
			return nil
		case ec != nil:
			c.Report(core.Finding{Sig: "target-invalid:" + attr, Detail: fmt.Sprintf("%s: files load but the specification's target does not: %v", attr, ec), Replay: rep})
		case ea != nil:
			c.Report(core.Finding{Sig: "files-rejected:" + attr, Detail: fmt.Sprintf("%s: loading base+overrides as files fails (%v) although the equivalent single document loads", attr, ea), Replay: rep})
		case eb != nil:
			c.Report(core.Finding{Sig: "documents-rejected:" + attr, Detail: fmt.Sprintf("%s: loading base+overrides as `---` documents fails (%v)", attr, eb), Replay: rep})
		default:
			da, db, dc := projDump(pa), projDump(pb), projDump(pc)
			if da != dc {
				c.Report(core.Finding{Sig: "merge-files:" + attr, Detail: fmt.Sprintf("%s: base %s + overrides %v loaded as files differ from the target %s: %s", attr, base, overs, target, firstDiff(da, dc)), Replay: rep})
			}
			if db != dc {
				c.Report(core.Finding{Sig: "merge-documents:" + attr, Detail: fmt.Sprintf("%s: base + overrides loaded as `---` documents differ from the target: %s", attr, firstDiff(db, dc)), Replay: rep})
			}
		}
		return nil
	})
	if err != nil {
		c.Inconclusive("replay: " + err.Error())
		return
	}
	c.AddTraces(int64(n))
	c.Set("cases", n)
	c.Set("cases_invalid_in_every_form", invalid)
	c.Set("cases_invalid_in_every_form_by_attribute", invalidBy)
	for k, v := range invalidBy {
		c.Logf("loads in no form (%d cases): %s", v, k)
	}
	c.Set("cases_per_attribute", attrs)
	c.Set("exhaustive", true)
	c.Logf("%d merge cases replayed (%d invalid in every form)", n, invalid)
	if invalid*5 > n {
		c.Drift(fmt.Sprintf("%d of %d generated cases do not load in any form: the generator has drifted from the schema", invalid, n))
	}
	c.Set("rule", "a case is (attribute, base value, override values) over the attribute table of MC_Merge.tla (all ordered pairs of alternative values, with !override and !reset, triples in thorough); three real loads each; non-trivial when the target differs from the base")
}

var reCasePath = regexp.MustCompile(`validating \S+: |\[[0-9,]+\]`)

// firstLine: the first line of an error, without the scratch path and the item indexes (so that equal reasons group)
func firstLine(s string) string {
	if i := strings.IndexByte(s, '\n'); i >= 0 {
		s = s[:i]
	}
	s = reCasePath.ReplaceAllString(s, "")
	if len(s) > 160 {
		s = s[:160]
	}
	return s
}
