// Package checks holds one check per property; each is a function of the run context.
package checks

import "verif/harness/internal/core"

type Check struct {
	ID    string
	Level string
	Fn    func(*core.Ctx)
}

var All = map[string]Check{}

func Register(id, level string, fn func(*core.Ctx)) { All[id] = Check{id, level, fn} }

// Sub holds worker sub-commands run as child processes by checks.
var Sub = map[string]func(args []string) int{}
