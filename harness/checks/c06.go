//go:build verif

package checks

import (
	"fmt"
	"os"
	"path/filepath"
	"sort"
	"strings"
	"time"

	"verif/harness/internal/core"
)

func init() { Register("C06", "model_checking", C06) }

func c06Write(wd, rel, content string) {
	p := filepath.Join(wd, rel)
	_ = os.MkdirAll(filepath.Dir(p), 0o755)
	_ = os.WriteFile(p, []byte(content), 0o644)
}

const c06Svc = `{image: "img-${V:-none}-${W:-none}", build: ./ctx, volumes: [{type: bind, source: ./data, target: /data}], env_file: [{path: ./svc.env, required: false}], healthcheck: {test: [CMD, "true"], retries: "${RETRIES:-3}"}, read_only: "${RO:-true}"}`

func c06Materialize(wd string, f map[string]interface{}, n int) string {
	b := func(k string) bool { return asBool(f[k]) }
	redef, cycle := asStr(f["redef"]), asStr(f["cycle"])
	// ---- main
	var inc []string
	e1 := "  - inc1/compose.yaml\n"
	if b("pd1") || b("ef1") || n%2 == 0 {
		e1 = "  - path: inc1/compose.yaml\n"
		if b("pd1") {
			e1 += "    project_directory: .\n"
		}
		if b("ef1") {
			e1 += "    env_file: custom.env\n"
		}
	}
	e2 := "  - inc2/compose.yaml\n"
	if n%3 == 0 {
		e2 = "  - path: [inc2/compose.yaml]\n"
	}
	switch {
	case b("i1") && b("i2") && b("order12"):
		inc = []string{e2, e1}
	case b("i1") && b("i2"):
		inc = []string{e1, e2}
	case b("i1"):
		inc = []string{e1}
	default:
		inc = []string{e2}
	}
	main := "include:\n" + strings.Join(inc, "") + "services:\n  smain: " + c06Svc + "\nvolumes:\n  vmain: {labels: {v: \"${V:-none}\"}}\n"
	switch redef {
	case "main-different":
		main += "networks:\n  shared: {driver: overlay}\n"
	case "main-same":
		main += "networks:\n  shared: {driver: bridge}\n"
	case "main-bare-different":
		main += "networks:\n  bare:\n"
	}
	c06Write(wd, "compose.yaml", main)
	// a second compose file of the main project: interpolated after the includes of the first have been loaded, with the main
	// project's environment all the same; and a second document in it
	c06Write(wd, "over.yaml", "services:\n  sover: "+c06Svc+"\n---\nservices:\n  sover:\n    labels:\n      v: \"${V:-none}\"\n      w: \"${W:-none}\"\n")
	c06Write(wd, "custom.env", "V=custom\n")
	// ---- i1
	i1 := ""
	var i1inc []string
	if b("n1from1") {
		e := "  - nested/compose.yaml\n"
		if b("efn") || b("pdn") {
			e = "  - path: nested/compose.yaml\n"
			if b("pdn") {
				e += "    project_directory: nested\n"
			}
			if b("efn") {
				e += "    env_file: nested.env\n"
			}
		}
		i1inc = append(i1inc, e)
	}
	if cycle == "i1-i1" {
		i1inc = append(i1inc, "  - compose.yaml\n")
	}
	if b("csib") {
		i1inc = append(i1inc, "  - ../INC1/compose.yaml\n")
		c06Write(wd, "INC1/compose.yaml", "services:\n  sup: "+c06Svc+"\n")
	}
	if len(i1inc) > 0 {
		i1 += "include:\n" + strings.Join(i1inc, "")
	}
	secExtra, cfgExtra := "", ""
	if b("cenv") {
		// secw / cfgw: from a variable that only the included project's own .env may define
		secExtra, cfgExtra = "  secenv: {environment: SECVAR}\n  secw: {environment: W}\n", "  cfgenv: {environment: CFGVAR}\n  cfgw: {environment: W}\n"
	}
	bare1 := map[string]string{"bare-same": "  bare:\n", "bare-different": "  bare:\n", "main-bare-different": "  bare: {driver: overlay}\n"}[redef]
	i1 += "services:\n  s1: " + c06Svc + "\n  s1x: {extends: {service: s1}}\nnetworks:\n  shared: {driver: bridge}\n" + bare1 + "secrets:\n  sec1: {file: ./sec.txt}\n" + secExtra + "configs:\n  cfg1: {file: ./cfg.txt}\n" + cfgExtra
	if n%4 == 1 {
		// the included file ends with a second document that adds nothing
		i1 += "\n---\nservices: {}\n"
	}
	c06Write(wd, "inc1/compose.yaml", i1)
	if b("dotenv1") {
		c06Write(wd, "inc1/.env", "V=inc1env\nW=w1\n")
	}
	// ---- i2
	i2 := ""
	if b("n1from2") {
		i2 += "include:\n  - ../inc1/nested/compose.yaml\n"
	}
	i2 += "services:\n  s2: " + c06Svc + "\n"
	switch redef {
	case "same":
		i2 += "networks:\n  shared: {driver: bridge}\n"
	case "different":
		i2 += "networks:\n  shared: {driver: overlay}\n"
	case "bare-same":
		i2 += "networks:\n  bare:\n"
	case "bare-different":
		i2 += "networks:\n  bare: {driver: overlay}\n"
	}
	if n%4 == 1 {
		// the included file ends with a second document that adds nothing
		i2 += "\n---\nservices: {}\n"
	}
	c06Write(wd, "inc2/compose.yaml", i2)
	// ---- n1
	n1 := ""
	switch cycle {
	case "n1-main":
		n1 += "include:\n  - ../../compose.yaml\n"
	case "n1-i1":
		n1 += "include:\n  - ../compose.yaml\n"
	}
	n1 += "services:\n  sn: " + c06Svc + "\nvolumes:\n  vn: {labels: {v: \"${V:-none}\"}}\n"
	if n%4 == 1 {
		// the included file ends with a second document that adds nothing
		n1 += "\n---\nservices: {}\n"
	}
	c06Write(wd, "inc1/nested/compose.yaml", n1)
	c06Write(wd, "inc1/nested.env", "V=nestedcustom\n")
	if b("dotenvn") {
		c06Write(wd, "inc1/nested/.env", "V=nestedenv\n")
	}
	return main
}

func c06Pasted(res []interface{}) string {
	kinds := map[string][]string{}
	for _, x := range res {
		r := asMap(x)
		var segs []string
		for _, s := range asList(r["anchor"]) {
			segs = append(segs, asStr(s))
		}
		dir := "./"
		if len(segs) > 0 && segs[0] != "-" {
			dir = "./" + strings.Join(segs, "/") + "/"
		}
		name, kind := asStr(r["name"]), asStr(r["kind"])
		var def string
		switch kind {
		case "services":
			def = fmt.Sprintf(`{image: "img-%s-%s", build: "%sctx", volumes: [{type: bind, source: "%sdata", target: /data}], env_file: [{path: "%ssvc.env", required: false}], healthcheck: {test: [CMD, "true"], retries: 3}, read_only: true}`, asStr(r["v"]), asStr(r["w"]), dir, dir, dir)
			if name == "sover" {
				def = strings.TrimSuffix(def, "}") + fmt.Sprintf(`, labels: {v: "%s", w: "%s"}}`, asStr(r["v"]), asStr(r["w"]))
			}
		case "volumes":
			def = fmt.Sprintf(`{labels: {v: "%s"}}`, asStr(r["v"]))
		case "networks":
			def = map[int]string{1: "{driver: bridge}", 2: "{driver: overlay}", 4: ""}[asInt(r["variant"])]
		case "secrets":
			def = fmt.Sprintf(`{file: "%ssec.txt"}`, dir)
			if asInt(r["variant"]) == 3 {
				def = "{environment: SECVAR}"
			}
			if asInt(r["variant"]) == 5 {
				def = "{environment: W}"
			}
		case "configs":
			def = fmt.Sprintf(`{file: "%scfg.txt"}`, dir)
			if asInt(r["variant"]) == 3 {
				def = "{environment: CFGVAR}"
			}
			if asInt(r["variant"]) == 5 {
				def = "{environment: W}"
			}
		}
		kinds[kind] = append(kinds[kind], "  "+name+": "+def+"\n")
	}
	var sb strings.Builder
	for _, k := range []string{"services", "networks", "volumes", "secrets", "configs"} {
		if len(kinds[k]) > 0 {
			sort.Strings(kinds[k])
			sb.WriteString(k + ":\n" + strings.Join(kinds[k], ""))
		}
	}
	return sb.String()
}

func C06(c *core.Ctx) {
	c.Assumption("TLC 1.8.0; spec/files/Include.tla; differential oracle: the real file tree with include vs the single pasted document computed from the specification's loaded resources, both loaded by the real loader")
	cfg := "SPECIFICATION Spec\nCONSTANTS Full = FALSE\nINVARIANTS Laws\nCHECK_DEADLOCK FALSE\n"
	if !c.Quick() {
		cfg = "SPECIFICATION Spec\nCONSTANTS Full = TRUE\nINVARIANTS Laws\nCHECK_DEADLOCK FALSE\n"
	}
	dump := filepath.Join(c.Work, "scenarios")
	r, err := c.RunTLC(core.TLCOpts{Module: "MC_Include", CfgText: cfg, Dump: dump, Timeout: 30 * time.Minute, Name: "include"})
	if err != nil {
		c.Inconclusive("MC_Include failed: " + err.Error())
		return
	}
	c.AddTLC(r)
	if r.Violated != "" {
		c.Inconclusive("Include specification violates " + r.Violated)
		return
	}
	root := filepath.Join(c.Work, "wd")
	n := 0
	_, err = core.ReadDump(dump+".dump", func(vars map[string]interface{}) error {
		sc := asMap(vars["sc"])
		flags := asMap(sc["flags"])
		exp := asMap(sc["exp"])
		n++
		wd := filepath.Join(root, fmt.Sprint(n))
		defer os.RemoveAll(wd)
		main := c06Materialize(wd, flags, n)
		env := map[string]string{"SECVAR": "secret-value", "CFGVAR": "config-value"}
		if asBool(flags["parentV"]) {
			env["V"] = "parent"
		}
		if asBool(flags["parentEmpty"]) {
			env["V"] = ""
		}
		var fl []string
		for k, v := range flags {
			if b, ok := v.(bool); ok && b {
				fl = append(fl, k)
			} else if s, ok := v.(string); ok && s != "none" {
				fl = append(fl, k+"="+s)
			}
		}
		sort.Strings(fl)
		key := strings.Join(fl, ",")
		c.Eval(key+fmt.Sprint(n%6), true)
		p, lerr := safeLoad(wd, env, []namedDoc{{Name: filepath.Join(wd, "compose.yaml")}, {Name: filepath.Join(wd, "over.yaml")}})
		rep := map[string]interface{}{"scenario": key, "main": main, "expected": exp}
		if n%61 == 1 {
			c.Sample(map[string]interface{}{"scenario": key, "main_file": main, "spec_result": exp})
		}
		if _, isErr := exp["error"]; isErr {
			if lerr == nil {
				c.Report(core.Finding{Sig: "accepted:" + asStr(exp["error"]), Detail: fmt.Sprintf("scenario [%s] has an include %s but loads", key, asStr(exp["error"])), Replay: rep})
			} else if strings.HasPrefix(lerr.Error(), "panic") {
				c.Report(core.Finding{Sig: "panic", Detail: fmt.Sprintf("scenario [%s]: %v", key, lerr), Replay: rep})
			}
			return nil
		}
		pasted := c06Pasted(asList(exp["res"]))
		// the pasted document is loaded with the value the declaring file's environment gives W (services carry theirs as literals)
		penv := map[string]string{}
		for k, v := range env {
			penv[k] = v
		}
		for _, r := range asList(exp["res"]) {
			rm := asMap(r)
			if asInt(rm["variant"]) == 5 && asStr(rm["w"]) != "none" {
				penv["W"] = asStr(rm["w"])
			}
		}
		q, perr := safeLoad(wd, penv, []namedDoc{{Name: filepath.Join(wd, "pasted.yaml"), Content: pasted}})
		switch {
		case perr != nil:
			c.Report(core.Finding{Sig: "pasted-invalid", Detail: fmt.Sprintf("scenario [%s]: the pasted document does not load: %v\n%s", key, perr, pasted), Replay: rep})
		case lerr != nil:
			c.Report(core.Finding{Sig: "include-rejected", Detail: fmt.Sprintf("scenario [%s]: loading with include fails (%v) although the pasted document loads:\n%s", key, lerr, pasted), Replay: rep})
		default:
			delete(q.Environment, "W") // only there to give the pasted W-sourced secret / config its value
			dp, dq := projDump(p), projDump(q)
			if dp != dq {
				c.Report(core.Finding{Sig: "include-differs", Detail: fmt.Sprintf("scenario [%s]: the project loaded through include differs from the pasted document: %s", key, firstDiff(dp, dq)), Replay: rep})
			}
		}
		return nil
	})
	if err != nil {
		c.Inconclusive("replay: " + err.Error())
		return
	}
	c.AddTraces(int64(n))
	c.Set("scenarios", n)
	c.Set("exhaustive", true)
	c.Logf("%d include scenarios replayed", n)
	c.Set("rule", "a case is one scenario over the layout main / inc1 / inc2 / inc1/nested: which file includes which (short and long syntax, project_directory, env_file), nesting, the same resource through two routes, redefinitions, cycles, and where V is defined (parent environment, included .env, declared env_file); all non-trivial")
}
