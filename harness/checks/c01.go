//go:build verif

package checks

import (
	"bufio"
	"context"
	"encoding/json"
	"fmt"
	"math/rand"
	"os"
	"os/exec"
	"path/filepath"
	"regexp"
	"runtime/debug"
	"sort"
	"strings"
	"sync"
	"time"

	"github.com/compose-spec/compose-go/v2/cli"
	"github.com/compose-spec/compose-go/v2/loader"
	"github.com/compose-spec/compose-go/v2/types"
	"gopkg.in/yaml.v3"

	"verif/harness/internal/core"
)

func init() {
	Register("C01", "fault_enumeration", C01)
	Sub["C01-worker"] = c01Worker
}

type schemaPath struct {
	Path   []string `json:"path"`
	Admits []string `json:"admits"`
}

// schemaPaths lists every attribute path of the JSON schema with the JSON types the schema admits there.
func schemaPaths() ([]schemaPath, error) {
	b, err := os.ReadFile(core.RepoRoot + "/schema/compose-spec.json")
	if err != nil {
		return nil, err
	}
	var root map[string]interface{}
	if err := json.Unmarshal(b, &root); err != nil {
		return nil, err
	}
	defs, _ := root["definitions"].(map[string]interface{})
	acc := map[string]map[string]bool{}
	var order []string
	note := func(path []string, ts []string) {
		k := strings.Join(path, "\x00")
		if acc[k] == nil {
			acc[k] = map[string]bool{}
			order = append(order, k)
		}
		for _, t := range ts {
			acc[k][t] = true
		}
	}
	var typesOf func(n map[string]interface{}, depth int, refs string) []string
	typesOf = func(n map[string]interface{}, depth int, refs string) []string {
		if n == nil || depth > 6 {
			return []string{"any"}
		}
		if r, ok := n["$ref"].(string); ok {
			name := r[strings.LastIndex(r, "/")+1:]
			if strings.Contains(refs, "|"+name+"|") {
				return []string{"any"}
			}
			d, _ := defs[name].(map[string]interface{})
			return typesOf(d, depth+1, refs+"|"+name+"|")
		}
		var out []string
		switch t := n["type"].(type) {
		case string:
			out = append(out, t)
		case []interface{}:
			for _, x := range t {
				out = append(out, fmt.Sprint(x))
			}
		}
		for _, k := range []string{"oneOf", "anyOf"} {
			if alts, ok := n[k].([]interface{}); ok {
				for _, a := range alts {
					if am, ok := a.(map[string]interface{}); ok {
						out = append(out, typesOf(am, depth+1, refs)...)
					}
				}
			}
		}
		if len(out) == 0 {
			if _, ok := n["properties"]; ok {
				return []string{"object"}
			}
			if _, ok := n["patternProperties"]; ok {
				return []string{"object"}
			}
			if _, ok := n["enum"]; ok {
				return []string{"string"}
			}
			return []string{"any"}
		}
		return out
	}
	var walk func(n map[string]interface{}, path []string, depth int, refs string)
	walk = func(n map[string]interface{}, path []string, depth int, refs string) {
		if depth > 9 || n == nil {
			return
		}
		if r, ok := n["$ref"].(string); ok {
			name := r[strings.LastIndex(r, "/")+1:]
			if strings.Contains(refs, "|"+name+"|") {
				return
			}
			d, _ := defs[name].(map[string]interface{})
			walk(d, path, depth+1, refs+"|"+name+"|")
			return
		}
		for _, k := range []string{"oneOf", "anyOf", "allOf"} {
			if alts, ok := n[k].([]interface{}); ok {
				for _, a := range alts {
					if am, ok := a.(map[string]interface{}); ok {
						walk(am, path, depth+1, refs)
					}
				}
			}
		}
		if props, ok := n["properties"].(map[string]interface{}); ok {
			for k, v := range props {
				if vm, ok := v.(map[string]interface{}); ok {
					p := append(append([]string{}, path...), k)
					note(p, typesOf(vm, 0, refs))
					walk(vm, p, depth+1, refs)
				}
			}
		}
		if pp, ok := n["patternProperties"].(map[string]interface{}); ok {
			for k, v := range pp {
				if strings.HasPrefix(k, "^x-") {
					continue
				}
				if vm, ok := v.(map[string]interface{}); ok {
					p := append(append([]string{}, path...), "*")
					note(p, typesOf(vm, 0, refs))
					walk(vm, p, depth+1, refs)
				}
			}
		}
		if it, ok := n["items"].(map[string]interface{}); ok {
			p := append(append([]string{}, path...), "[]")
			note(p, typesOf(it, 0, refs))
			walk(it, p, depth+1, refs)
		}
	}
	walk(root, nil, 0, "")
	sort.Strings(order)
	var out []schemaPath
	for _, k := range order {
		var ts []string
		for t := range acc[k] {
			ts = append(ts, t)
		}
		sort.Strings(ts)
		out = append(out, schemaPath{strings.Split(k, "\x00"), ts})
	}
	return out, nil
}

// rawYAML is emitted verbatim (used for shapes JSON cannot express).
type rawYAML string

func kindValue(kind string) interface{} {
	switch kind {
	case "null":
		return nil
	case "bool":
		return true
	case "int":
		return 42
	case "float":
		return 1.5
	case "string":
		return "str"
	case "empty-list":
		return []interface{}{}
	case "list-of-strings":
		return []interface{}{"a", "b"}
	case "list-of-maps":
		return []interface{}{map[string]interface{}{"k": "v"}}
	case "empty-map":
		return map[string]interface{}{}
	case "map":
		return map[string]interface{}{"k": "v"}
	case "int-keyed-map":
		return rawYAML("{1: x, 2: y}")
	case "nested-list":
		return []interface{}{[]interface{}{"a"}}
	case "odd-strings":
		return []interface{}{"", "host=", "a:", "=b", "x${UNSET_VAR_Q}", " "}
	case "odd-string":
		return "${UNSET_VAR_Q}"
	case "unc-prefix": // a Windows UNC prefix that ends right after the server name
		return `\\srv\`
	case "drive-prefix":
		return "C:"
	case "odd-map":
		return map[string]interface{}{"k": "", "": "v", "e": nil, "n": 3}
	case "repeated-strings": // repeated entries in several positions (keyed lists collapse them)
		return []interface{}{"A=0", "A=1", "B=x", "B=y", "A=2", "80:80", "80:80", "81:81", "81:81"}
	case "repeated-maps":
		return []interface{}{map[string]interface{}{"target": "/t", "source": "s1", "type": "volume"}, map[string]interface{}{"target": "/t", "source": "s2", "type": "volume"},
			map[string]interface{}{"target": "/u", "source": "s1", "type": "volume"}, map[string]interface{}{"target": "/u", "source": "s2", "type": "volume"}}
	case "list-of-ints":
		return []interface{}{1}
	case "yes-string": // a YAML 1.1 boolean spelling: a string for the parser, a boolean after interpolation's type cast
		return "yes"
	case "reset-tag":
		return rawYAML("!reset null")
	case "override-tag":
		return rawYAML("!override {k: v}")
	}
	return nil
}

func flowYAML(v interface{}) string {
	switch x := v.(type) {
	case rawYAML:
		return string(x)
	case map[string]interface{}:
		keys := make([]string, 0, len(x))
		for k := range x {
			keys = append(keys, k)
		}
		sort.Strings(keys)
		var parts []string
		for _, k := range keys {
			q, _ := json.Marshal(k)
			parts = append(parts, string(q)+": "+flowYAML(x[k]))
		}
		return "{" + strings.Join(parts, ", ") + "}"
	case []interface{}:
		var parts []string
		for _, e := range x {
			parts = append(parts, flowYAML(e))
		}
		return "[" + strings.Join(parts, ", ") + "]"
	default:
		b, _ := json.Marshal(x)
		return string(b)
	}
}

// graft builds the nested structure for a schema path with val at the leaf; returns the top-level document.
func graft(path []string, val interface{}) map[string]interface{} {
	var build func(i int) interface{}
	build = func(i int) interface{} {
		if i == len(path) {
			return val
		}
		seg := path[i]
		switch seg {
		case "[]":
			return []interface{}{build(i + 1)}
		case "*":
			return map[string]interface{}{"a": build(i + 1)}
		}
		return map[string]interface{}{seg: build(i + 1)}
	}
	d, _ := build(0).(map[string]interface{})
	if d == nil {
		d = map[string]interface{}{}
	}
	if svcs, ok := d["services"].(map[string]interface{}); ok {
		if a, ok := svcs["a"].(map[string]interface{}); ok {
			if _, has := a["image"]; !has {
				a["image"] = "img"
			}
		}
	}
	return d
}

type c01Case struct {
	ID       int               `json:"id"`
	Family   string            `json:"family"` // kind | fault | mutant | alias
	Desc     string            `json:"desc"`
	Expect   string            `json:"expect"` // error | either
	Files    map[string]string `json:"files"`  // relative name -> content
	Dirs     []string          `json:"dirs"`   // directories to create (also used to make a path unreadable as a file)
	Main     []string          `json:"main"`   // compose files in load order
	Switches []string          `json:"switches"`
	MustName string            `json:"must_name"`
	Entry    string            `json:"entry"`  // "" loader.LoadWithContext | cli-project | cli-model | parse-yaml
	Linked   bool              `json:"linked"` // the project directory is a symbolic link to the directory that holds the files
}

type c01Result struct {
	ID      int    `json:"id"`
	Outcome string `json:"outcome"` // project | error | both | neither | panic
	Err     string `json:"err,omitempty"`
	Site    string `json:"site,omitempty"`
}

var reFrame = regexp.MustCompile(`github\.com/compose-spec/compose-go/v2/([^\s(]+(?:\([^)]*\))?[^\s(]*)\(`)

func c01Run(wd string, cs c01Case) (res c01Result) {
	res.ID = cs.ID
	dir := filepath.Join(wd, fmt.Sprint(cs.ID))
	if cs.Linked {
		real := filepath.Join(wd, fmt.Sprint(cs.ID)+".real", "v1")
		_ = os.MkdirAll(real, 0o755)
		defer os.RemoveAll(filepath.Dir(real))
		if err := os.Symlink(real, dir); err != nil {
			_ = os.MkdirAll(dir, 0o755)
		}
	} else {
		_ = os.MkdirAll(dir, 0o755)
	}
	defer os.RemoveAll(dir)
	for _, d := range cs.Dirs {
		_ = os.MkdirAll(filepath.Join(dir, d), 0o755)
	}
	for name, content := range cs.Files {
		p := filepath.Join(dir, name)
		_ = os.MkdirAll(filepath.Dir(p), 0o755)
		_ = os.WriteFile(p, []byte(strings.ReplaceAll(content, "__DIR__", dir)), 0o644)
	}
	var cfs []types.ConfigFile
	for _, m := range cs.Main {
		cfs = append(cfs, types.ConfigFile{Filename: filepath.Join(dir, m)})
	}
	sw := map[string]bool{}
	for _, s := range cs.Switches {
		sw[s] = true
	}
	defer func() {
		if r := recover(); r != nil {
			res.Outcome = "panic"
			res.Err = fmt.Sprint(r)
			st := string(debug.Stack())
			if i := strings.Index(st, "panic("); i >= 0 {
				st = st[i:]
			}
			for _, m := range reFrame.FindAllStringSubmatch(st, -1) {
				if !strings.Contains(m[1], "harness") {
					res.Site = m[1]
					break
				}
			}
		}
	}()
	setSwitches := func(o *loader.Options) {
		o.SkipValidation = sw["SkipValidation"]
		o.SkipInterpolation = sw["SkipInterpolation"]
		o.SkipNormalization = sw["SkipNormalization"]
		o.ResolvePaths = !sw["NoResolvePaths"]
		o.SkipConsistencyCheck = sw["SkipConsistencyCheck"]
		o.SkipExtends = sw["SkipExtends"]
		o.SkipInclude = sw["SkipInclude"]
		o.SkipResolveEnvironment = sw["SkipResolveEnvironment"]
		o.SkipDefaultValues = sw["SkipDefaultValues"]
	}
	switch cs.Entry {
	case "parse-yaml":
		b, _ := os.ReadFile(filepath.Join(dir, cs.Main[0]))
		m, err := loader.ParseYAML(b)
		switch {
		case m != nil && err != nil:
			res.Outcome, res.Err = "both", err.Error()
		case m == nil && err == nil:
			res.Outcome = "neither"
		case err != nil:
			res.Outcome, res.Err = "error", err.Error()
		default:
			res.Outcome = "project"
		}
		return
	case "cli-project", "cli-model":
		var paths []string
		for _, m := range cs.Main {
			paths = append(paths, filepath.Join(dir, m))
		}
		po, err := cli.NewProjectOptions(paths, cli.WithWorkingDirectory(dir), cli.WithName("proj"), cli.WithEnv([]string{"VAR=value"}), cli.WithLoadOptions(setSwitches))
		if err != nil {
			res.Outcome, res.Err = "error", err.Error()
			return
		}
		var got interface{}
		if cs.Entry == "cli-project" {
			p, e := po.LoadProject(context.Background())
			if p != nil {
				got = p
			}
			err = e
		} else {
			m, e := po.LoadModel(context.Background())
			if m != nil {
				got = m
			}
			err = e
		}
		switch {
		case got != nil && err != nil:
			res.Outcome, res.Err = "both", err.Error()
		case got == nil && err == nil:
			res.Outcome = "neither"
		case err != nil:
			res.Outcome, res.Err = "error", err.Error()
		default:
			res.Outcome = "project"
		}
		return
	}
	p, err := loader.LoadWithContext(context.Background(), types.ConfigDetails{WorkingDir: dir, ConfigFiles: cfs, Environment: types.Mapping{"VAR": "value"}}, func(o *loader.Options) {
		o.SetProjectName("proj", true)
		o.SkipValidation = sw["SkipValidation"]
		o.SkipInterpolation = sw["SkipInterpolation"]
		o.SkipNormalization = sw["SkipNormalization"]
		o.ResolvePaths = !sw["NoResolvePaths"]
		o.SkipConsistencyCheck = sw["SkipConsistencyCheck"]
		o.SkipExtends = sw["SkipExtends"]
		o.SkipInclude = sw["SkipInclude"]
		o.SkipResolveEnvironment = sw["SkipResolveEnvironment"]
		o.SkipDefaultValues = sw["SkipDefaultValues"]
	})
	switch {
	case p != nil && err != nil:
		res.Outcome, res.Err = "both", err.Error()
	case p == nil && err == nil:
		res.Outcome = "neither"
	case err != nil:
		res.Outcome, res.Err = "error", err.Error()
	default:
		res.Outcome = "project"
	}
	return
}

func c01Worker(args []string) int {
	b, err := os.ReadFile(args[0])
	if err != nil {
		return 2
	}
	var cases []c01Case
	if json.Unmarshal(b, &cases) != nil {
		return 2
	}
	out, err := os.Create(args[1])
	if err != nil {
		return 2
	}
	defer out.Close()
	wd := args[2]
	start := 0
	if len(args) > 3 {
		fmt.Sscanf(args[3], "%d", &start)
	}
	for i := start; i < len(cases); i++ {
		fmt.Fprintf(out, "S %d\n", i)
		done := make(chan c01Result, 1)
		go func(cs c01Case) { done <- c01Run(wd, cs) }(cases[i])
		select {
		case r := <-done:
			rb, _ := json.Marshal(r)
			fmt.Fprintf(out, "R %s\n", rb)
		case <-time.After(20 * time.Second):
			fmt.Fprintf(out, "T %d\n", i)
			out.Sync()
			return 3
		}
	}
	fmt.Fprintln(out, "END")
	return 0
}

// c01Execute runs the cases in child processes (a crash or hang of a child is attributed to the case in flight).
func c01Execute(c *core.Ctx, cases []c01Case, shards int) map[int]c01Result {
	results := map[int]c01Result{}
	var mu sync.Mutex
	var wg sync.WaitGroup
	exe, _ := os.Executable()
	for s := 0; s < shards; s++ {
		var part []c01Case
		for i := s; i < len(cases); i += shards {
			part = append(part, cases[i])
		}
		if len(part) == 0 {
			continue
		}
		wg.Add(1)
		go func(s int, part []c01Case) {
			defer wg.Done()
			cp := filepath.Join(c.Work, fmt.Sprintf("cases-%d.json", s))
			b, _ := json.Marshal(part)
			_ = os.WriteFile(cp, b, 0o644)
			wd := filepath.Join(c.Work, fmt.Sprintf("child-%d", s))
			start := 0
			for attempt := 0; attempt < 50 && start < len(part); attempt++ {
				op := filepath.Join(c.Work, fmt.Sprintf("out-%d-%d.txt", s, attempt))
				cmd := exec.Command(exe, "C01-worker", cp, op, wd, fmt.Sprint(start))
				cmd.Env = append(os.Environ(), "GOTRACEBACK=single")
				var stderr strings.Builder
				cmd.Stderr = &stderr
				_ = cmd.Run()
				f, err := os.Open(op)
				if err != nil {
					break
				}
				sc := bufio.NewScanner(f)
				sc.Buffer(make([]byte, 1<<20), 1<<22)
				inflight, ended := -1, false
				for sc.Scan() {
					line := sc.Text()
					switch {
					case strings.HasPrefix(line, "S "):
						fmt.Sscanf(line[2:], "%d", &inflight)
					case strings.HasPrefix(line, "R "):
						var r c01Result
						if json.Unmarshal([]byte(line[2:]), &r) == nil {
							mu.Lock()
							results[r.ID] = r
							mu.Unlock()
						}
						inflight = -1
					case strings.HasPrefix(line, "T "):
						mu.Lock()
						results[part[inflight].ID] = c01Result{ID: part[inflight].ID, Outcome: "hang"}
						mu.Unlock()
						start = inflight + 1
						inflight = -2
					case line == "END":
						ended = true
					}
				}
				f.Close()
				if ended {
					break
				}
				if inflight >= 0 { // the child died while this case was running
					mu.Lock()
					results[part[inflight].ID] = c01Result{ID: part[inflight].ID, Outcome: "crash", Err: tailStr(stderr.String(), 600)}
					mu.Unlock()
					start = inflight + 1
				} else if inflight == -1 {
					break
				}
			}
		}(s, part)
	}
	wg.Wait()
	return results
}

func C01(c *core.Ctx) {
	rng := rand.New(rand.NewSource(c.Seed))
	c.Assumption("TLC cannot observe a Go panic: spec/loader/Loader.tla gives the pipeline model (checked: exclusive outcomes, termination, failure iff an enabled phase reads a missing file) and MC_Totality the structured case space with the expected outcome class; every case is executed by the real loader in child processes with recover and a time limit")
	// ---- the pipeline model
	rl, err := c.RunTLC(core.TLCOpts{Module: "Loader", Timeout: 20 * time.Minute, Name: "loader"})
	if err != nil {
		c.Inconclusive("Loader model failed: " + err.Error())
		return
	}
	c.AddTLC(rl)
	if rl.Violated != "" {
		c.Inconclusive("Loader model violates " + rl.Violated)
		return
	}
	c.Set("mc_loader", map[string]interface{}{"distinct": rl.Distinct, "fault_sets_x_option_sets": 65536})
	// ---- case space
	sps, err := schemaPaths()
	if err != nil || len(sps) < 200 {
		c.Inconclusive(fmt.Sprintf("cannot derive the path inventory from the schema: %v (%d paths)", err, len(sps)))
		return
	}
	var precs []interface{}
	for _, sp := range sps {
		precs = append(precs, sp)
	}
	pp := filepath.Join(c.Work, "paths.ndjson")
	_ = core.WriteNDJSON(pp, precs)
	dump := filepath.Join(c.Work, "space")
	rs, err := c.RunTLC(core.TLCOpts{Module: "MC_Totality", Env: map[string]string{"PATHS": pp, "ROT": fmt.Sprint(c.Seed % 13)}, Dump: dump, Timeout: 30 * time.Minute, Name: "space"})
	if err != nil {
		c.Inconclusive("MC_Totality failed: " + err.Error())
		return
	}
	c.AddTLC(rs)
	kindEvery, faultEvery := 2, 10
	if !c.Quick() {
		kindEvery, faultEvery = 1, 4
	}
	var cases []c01Case
	nKind, nFault := 0, 0
	valid := "services:\n  a:\n    image: img\n"
	_, err = core.ReadDump(dump+".dump", func(vars map[string]interface{}) error {
		cs := asMap(vars["cs"])
		id := len(cases)
		switch asStr(cs["family"]) {
		case "kind":
			nKind++
			if (nKind+int(c.Seed))%kindEvery != 0 {
				return nil
			}
			sp := sps[asInt(cs["path"])-1]
			kind, pos := asStr(cs["kind"]), asStr(cs["position"])
			doc := flowYAML(graft(sp.Path, kindValue(kind)))
			cc := c01Case{ID: id, Family: "kind", Desc: fmt.Sprintf("%s = %s [%s]", strings.Join(sp.Path, "."), kind, pos), Expect: asStr(cs["expect"]), Files: map[string]string{}}
			for _, o := range asList(cs["opts"]) {
				cc.Switches = append(cc.Switches, asStr(o))
			}
			if len(cc.Switches) > 0 {
				sort.Strings(cc.Switches)
				cc.Desc += " " + strings.Join(cc.Switches, "+")
			}
			underSvc := len(sp.Path) > 2 && sp.Path[0] == "services"
			switch pos {
			case "single":
				cc.Files["compose.yaml"], cc.Main = doc, []string{"compose.yaml"}
			case "override-top":
				cc.Files["base.yaml"], cc.Files["over.yaml"], cc.Main = valid, doc, []string{"base.yaml", "over.yaml"}
			case "override-base":
				cc.Files["base.yaml"], cc.Files["over.yaml"], cc.Main = doc, "services:\n  a:\n    labels: {x: y}\n", []string{"base.yaml", "over.yaml"}
			case "included":
				cc.Files["inc.yaml"], cc.Files["compose.yaml"], cc.Main = doc, "include:\n  - inc.yaml\nservices:\n  main: {image: img}\n", []string{"compose.yaml"}
			case "pair-map", "pair-list", "pair-string":
				bk := map[string]string{"pair-map": "map", "pair-list": "list-of-strings", "pair-string": "string"}[pos]
				cc.Files["base.yaml"], cc.Files["over.yaml"], cc.Main = flowYAML(graft(sp.Path, kindValue(bk))), doc, []string{"base.yaml", "over.yaml"}
				cc.Expect = "either"
			case "extends-pair-map", "extends-pair-list", "extends-pair-string":
				// the attribute on both sides of an extends hop: the base holds the case kind, the extending service a map / list / string
				if !underSvc {
					return nil
				}
				bk := map[string]string{"extends-pair-map": "map", "extends-pair-list": "list-of-strings", "extends-pair-string": "string"}[pos]
				base0 := graft(sp.Path, kindValue(kind))["services"].(map[string]interface{})["a"]
				am, _ := graft(sp.Path, kindValue(bk))["services"].(map[string]interface{})["a"].(map[string]interface{})
				if am == nil {
					return nil
				}
				am["extends"] = map[string]interface{}{"service": "base0"}
				cc.Files["compose.yaml"] = flowYAML(map[string]interface{}{"services": map[string]interface{}{"base0": base0, "a": am}})
				cc.Main = []string{"compose.yaml"}
				cc.Expect = "either"
			case "include-pair":
				// the including file holds the case kind at the path, the included file a valid model with the same top-level sections
				gi := graft(sp.Path, kindValue(kind))
				gi["include"] = []interface{}{"inc.yaml"}
				cc.Files["compose.yaml"] = flowYAML(gi)
				cc.Files["inc.yaml"] = "services:\n  i: {image: img}\nnetworks:\n  ni: {}\nvolumes:\n  vi: {}\nsecrets:\n  si: {file: ./s}\nconfigs:\n  ci: {file: ./c}\n"
				cc.Main = []string{"compose.yaml"}
				cc.Expect = "either"
			case "extended-file-base":
				g := graft(sp.Path, kindValue(kind))
				svcs, _ := g["services"].(map[string]interface{})
				if svcs == nil {
					if _, has := g["services"]; has {
						return nil // the case value is the services section itself
					}
					svcs = map[string]interface{}{}
					g["services"] = svcs
				}
				svcs["base0"] = map[string]interface{}{"image": "img"}
				ref := "base0"
				if underSvc {
					ref = "a"
				}
				cc.Files["other.yaml"] = flowYAML(g)
				cc.Files["compose.yaml"] = flowYAML(map[string]interface{}{"services": map[string]interface{}{"m": map[string]interface{}{"extends": map[string]interface{}{"file": "other.yaml", "service": ref}, "image": "img"}}})
				cc.Main = []string{"compose.yaml"}
				cc.Expect = "either"
			case "extended-base", "extending":
				if !underSvc {
					return nil
				}
				g := graft(sp.Path, kindValue(kind))
				a := g["services"].(map[string]interface{})["a"]
				if pos == "extended-base" {
					cc.Files["compose.yaml"] = flowYAML(map[string]interface{}{"services": map[string]interface{}{"base0": a, "a": map[string]interface{}{"extends": map[string]interface{}{"service": "base0"}, "image": "img"}}})
				} else {
					am, _ := a.(map[string]interface{})
					if am == nil {
						return nil
					}
					am["extends"] = map[string]interface{}{"service": "base0"}
					cc.Files["compose.yaml"] = flowYAML(map[string]interface{}{"services": map[string]interface{}{"base0": map[string]interface{}{"image": "img"}, "a": am}})
				}
				cc.Main = []string{"compose.yaml"}
				cc.Expect = "either" // the odd value may be replaced or merged away by the other side
				if pos == "extended-base" && asStr(cs["expect"]) == "error" {
					cc.Expect = "error"
				}
			}
			cases = append(cases, cc)
		case "root":
			doc := flowYAML(kindValue(asStr(cs["kind"])))
			cc := c01Case{ID: id, Family: "root", Desc: fmt.Sprintf("document root = %s [%s]", asStr(cs["kind"]), asStr(cs["entry"])), Expect: asStr(cs["expect"]), Files: map[string]string{"compose.yaml": doc}, Main: []string{"compose.yaml"}}
			if asStr(cs["entry"]) == "parse-yaml" {
				cc.Entry = "parse-yaml"
			}
			cases = append(cases, cc)
		case "fault":
			nFault++
			if (nFault+int(c.Seed))%faultEvery != 0 {
				return nil
			}
			absent := map[string]bool{}
			for _, x := range asList(cs["absent"]) {
				absent[asStr(x)] = true
			}
			var sw []string
			for _, x := range asList(cs["opts"]) {
				sw = append(sw, asStr(x))
			}
			sort.Strings(sw)
			cc := c01Case{ID: id, Family: "fault", Expect: asStr(cs["expect"]), Switches: sw, Files: map[string]string{}, Main: []string{"compose.yaml", "over.yaml"}}
			cc.Files["compose.yaml"] = "include:\n  - path: inc.yaml\n    env_file: __DIR__/inc.env\nservices:\n  a:\n    image: img\n    env_file:\n      - path: __DIR__/a.env\n      - {path: __DIR__/opt.env, required: false}\n    label_file: [__DIR__/a.label]\n  e:\n    image: img\n    extends: {file: ext.yaml, service: b}\n"
			all := map[string][2]string{"override": {"over.yaml", "services:\n  a:\n    labels: {o: 1}\n"}, "extends": {"ext.yaml", "services:\n  b:\n    image: img\n"},
				"include": {"inc.yaml", "services:\n  i:\n    image: img\n"}, "include_env_file": {"inc.env", "IV=1\n"}, "env_file": {"a.env", "K=1\n"}, "env_file_optional": {"opt.env", "O=1\n"}, "label_file": {"a.label", "l=1\n"}}
			var ab []string
			for ref, f := range all {
				if absent[ref] {
					ab = append(ab, ref)
					if id%3 == 0 { // a directory where a file is expected: present but unreadable as a file
						cc.Dirs = append(cc.Dirs, f[0])
					}
				} else {
					cc.Files[f[0]] = f[1]
				}
			}
			sort.Strings(ab)
			// every other fault case goes through the command-line layer (LoadProject, LoadModel), which reads the files itself
			cc.Entry = []string{"", "cli-project", "", "cli-model"}[id%4]
			if cc.Entry == "cli-model" {
				// the model is the merged dictionary: env files and label files are only read when it is bound to a project
				swOn := map[string]bool{}
				for _, x := range sw {
					swOn[x] = true
				}
				if !(absent["override"] || (absent["extends"] && !swOn["SkipExtends"]) || ((absent["include"] || absent["include_env_file"]) && !swOn["SkipInclude"])) {
					cc.Expect = "either"
				}
			}
			cc.Desc = fmt.Sprintf("absent=%v switches=%v dirs=%v entry=%s", ab, sw, cc.Dirs, cc.Entry)
			if len(ab) == 1 && cc.Expect == "error" {
				cc.MustName = all[ab[0]][0]
			}
			cases = append(cases, cc)
		}
		return nil
	})
	if err != nil {
		c.Inconclusive("case space: " + err.Error())
		return
	}
	// ---- YAML alias / anchor shapes and reference cycles that no schema path expresses
	for _, d := range []string{
		"x-a: &a\n  k: *a\nservices:\n  a: {image: img}\n",
		"services:\n  a: &s\n    image: img\n    labels:\n      l: *s\n",
		"services:\n  a: &s {image: img}\n  b: *s\n  c:\n    <<: *s\n    labels: {k: v}\n",
		"x-l: &l [a, b]\nservices:\n  a: {image: img, command: *l, entrypoint: *l}\n",
		"services:\n  a:\n    image: img\n    extends: {service: a}\n",
		"services:\n  a:\n    image: img\n    extends:\n      file: compose.yaml\n",
		"services:\n  a:\n    image: img\n    extends: {file: compose.yaml, service: a}\n",
		"include:\n  - compose.yaml\nservices:\n  a: {image: img}\n",
		"services:\n  a: {image: img, depends_on: [a]}\n",
		"services:\n  a:\n    image: img\n    pid:\n",
		"services:\n  a:\n    image: img\n    network_mode:\n",
		"- a\n- b\n", "\"just a string\"\n", "42\n", "services: [a, b]\n", "services:\n  a: null\n", "services:\n  1: {image: img}\n", "? [a, b]\n: c\n", "services:\n  a: !!binary aGVsbG8=\n",
		"services:\n  a:\n    image: img\n    ports: ['99999999999999999999:80']\n", "services:\n  a:\n    image: img\n    ports: ['80-70:80']\n", "services:\n  a:\n    image: img\n    volumes: [':::']\n",
		strings.Repeat("a: {", 200) + strings.Repeat("}", 200) + "\n",
	} {
		cases = append(cases, c01Case{ID: len(cases), Family: "alias", Desc: d, Expect: "either", Files: map[string]string{"compose.yaml": d}, Main: []string{"compose.yaml"}})
	}
	// reference cycles: each must be reported as an error (the statement says so; a project here is a finding)
	for _, files := range []map[string]string{
		{"compose.yaml": "x-a: &a\n  k: *a\nservices:\n  a: {image: img}\n"},
		{"compose.yaml": "services:\n  a: &s\n    image: img\n    labels:\n      l: *s\n"},
		{"compose.yaml": "services:\n  a:\n    image: img\n    extends: {service: a}\n"},
		{"compose.yaml": "services:\n  a:\n    image: img\n    extends: {file: compose.yaml, service: a}\n"},
		{"compose.yaml": "services:\n  a:\n    image: img\n    extends: {service: b}\n  b:\n    image: img\n    extends: {service: a}\n"},
		{"compose.yaml": "services:\n  entry: {extends: {service: a}}\n  a: {image: img, extends: {service: b}}\n  b: {extends: {service: c}}\n  c: {extends: {service: a}}\n"},
		{"compose.yaml": "services:\n  a:\n    extends: {file: other.yaml, service: x}\n", "other.yaml": "services:\n  x: {image: img, extends: {service: y}}\n  y: {extends: {service: x}}\n"},
		{"compose.yaml": "services:\n  a:\n    extends: {file: other.yaml, service: x}\n", "other.yaml": "services:\n  x:\n    image: img\n    extends: {file: compose.yaml, service: a}\n"},
		{"compose.yaml": "include:\n  - compose.yaml\nservices:\n  a: {image: img}\n"},
		{"compose.yaml": "include:\n  - b.yaml\nservices:\n  a: {image: img}\n", "b.yaml": "include:\n  - compose.yaml\nservices:\n  b: {image: img}\n"},
		{"compose.yaml": "include:\n  - b.yaml\nservices:\n  a: {image: img}\n", "b.yaml": "include:\n  - c.yaml\nservices:\n  b: {image: img}\n", "c.yaml": "include:\n  - b.yaml\nservices:\n  c: {image: img}\n"},
		{"compose.yaml": "services:\n  a: {image: img, depends_on: [a]}\n"},
		{"compose.yaml": "services:\n  a: {image: img, depends_on: [b]}\n  b: {image: img, depends_on: [a]}\n"},
		{"compose.yaml": "services:\n  a: {image: img, depends_on: [b]}\n  b: {image: img, links: [c]}\n  c: {image: img, volumes_from: [a]}\n"},
		{"compose.yaml": "services:\n  a: {image: img, depends_on: {b: {condition: service_started, required: false}}}\n  b: {image: img, network_mode: \"service:a\"}\n"},
	} {
		var names []string
		for k := range files {
			names = append(names, k)
		}
		sort.Strings(names)
		d := "reference cycle: "
		for _, k := range names {
			d += k + "=" + files[k] + " "
		}
		cases = append(cases, c01Case{ID: len(cases), Family: "cycle", Desc: d, Expect: "error", Files: files, Main: []string{"compose.yaml"}})
		// the same project reached through a symbolic link to its directory
		cases = append(cases, c01Case{ID: len(cases), Family: "cycle", Desc: "(project directory is a symbolic link) " + d, Expect: "error", Files: files, Main: []string{"compose.yaml"}, Linked: true})
	}
	// shapes that need more than one file
	multi := []map[string]string{
		{"compose.yaml": "include:\n  - path: [b.yaml, compose.yaml]\nservices:\n  a: {image: img}\n", "b.yaml": "services:\n  b: {image: img}\n"},
		{"compose.yaml": "include:\n  - path: [b.yaml]\nservices:\n  a: {image: img}\n", "b.yaml": "include:\n  - path: [c.yaml, compose.yaml]\nservices:\n  b: {image: img}\n", "c.yaml": "services:\n  c: {image: img}\n"},
		{"compose.yaml": "services:\n  a:\n    image: img\n    extends: {service: y, file: 1}\n"},
		{"compose.yaml": "services:\n  a:\n    image: img\n    extends: {service: y, file: [x]}\n"},
		{"compose.yaml": "!reset\nservices:\n  a: {image: img}\n"},
		{"compose.yaml": "!override\nservices:\n  a: {image: img}\n"},
		{"compose.yaml": "x-a: &a {\"<<foo\": *a}\nservices:\n  a: {image: img}\n"},
		{"compose.yaml": "x-a: &a\n  <<: *a\nservices:\n  a: {image: img}\n"},
		{"compose.yaml": "services:\n  a: &a\n    image: img\n    <<: [*a]\n"},
	}
	for _, m := range multi {
		cases = append(cases, c01Case{ID: len(cases), Family: "alias", Desc: m["compose.yaml"], Expect: "either", Files: m, Main: []string{"compose.yaml"}})
	}
	// two-file overrides of one attribute with a value of another kind on the second side (mergers see both)
	for _, pr := range [][2]string{{"logging: {driver: json-file}", "logging: foo"}, {"logging: {driver: json-file}", "logging: [a]"}, {"build: {context: .}", "build: null"}, {"build: ./x", "build: [a]"},
		{"depends_on: [b]", "depends_on: x"}, {"depends_on: {b: {condition: service_started}}", "depends_on: 3"}, {"networks: [n]", "networks: x"}, {"ulimits: {nofile: 3}", "ulimits: {nofile: x}"},
		{"extra_hosts: [\"a=1.1.1.1\"]", "extra_hosts: 3"}, {"environment: [A=1]", "environment: x"}, {"labels: {a: b}", "labels: 3"}, {"dns: 1.1.1.1", "dns: {a: b}"}, {"tmpfs: /run", "tmpfs: {a: b}"},
		{"env_file: a.env", "env_file: {path: x}"}, {"ports: [\"80\"]", "ports: x"}, {"volumes: [\"/a\"]", "volumes: {a: b}"}, {"command: x", "command: {a: b}"}, {"healthcheck: {test: [CMD, x]}", "healthcheck: x"}} {
		cases = append(cases, c01Case{ID: len(cases), Family: "alias", Desc: pr[0] + " <- " + pr[1], Expect: "either",
			Files: map[string]string{"base.yaml": "services:\n  a:\n    image: img\n    " + pr[0] + "\n  b: {image: img}\nnetworks: {n: {}}\n", "over.yaml": "services:\n  a:\n    " + pr[1] + "\n"}, Main: []string{"base.yaml", "over.yaml"}})
	}
	for _, pr := range [][2]string{{"networks: {n: {ipam: {config: [{subnet: 10.0.0.0/24}]}}}", "networks: {n: {ipam: {config: [x]}}}"}, {"networks: {n: {ipam: {config: [{subnet: 10.0.0.0/24}]}}}", "networks: {n: {ipam: {config: x}}}"},
		{"networks: {n: {labels: [a=b]}}", "networks: {n: {labels: 3}}"}, {"volumes: {v: {labels: {a: b}}}", "volumes: {v: x}"}, {"secrets: {s: {file: ./s}}", "secrets: {s: [a]}"}, {"configs: {c: {file: ./c}}", "configs: [a]"}} {
		cases = append(cases, c01Case{ID: len(cases), Family: "alias", Desc: pr[0] + " <- " + pr[1], Expect: "either",
			Files: map[string]string{"base.yaml": "services:\n  a: {image: img}\n" + pr[0] + "\n", "over.yaml": pr[1] + "\n"}, Main: []string{"base.yaml", "over.yaml"}})
	}
	// every digraph of depends_on edges on up to 3 services: a cycle must be an error (Cycle.tla)
	cyc := filepath.Join(c.Work, "cycle-out.ndjson")
	if rc, err := c.RunTLC(core.TLCOpts{Module: "Cycle", CfgText: "SPECIFICATION Spec\nCONSTANTS MinN = 1\n MaxN = 3\nINVARIANTS SearchIsExact\nCHECK_DEADLOCK FALSE\n", Env: map[string]string{"OUT": cyc}, Workers: 1, Timeout: 10 * time.Minute, Name: "cycle"}); err == nil && rc.Violated == "" {
		c.AddTLC(rc)
		_, _ = core.ReadVectors(cyc, func(raw json.RawMessage) error {
			var v struct {
				N      int     `json:"n"`
				Edges  [][]int `json:"edges"`
				Cyclic bool    `json:"cyclic"`
			}
			if json.Unmarshal(raw, &v) != nil {
				return nil
			}
			names := []string{"", "app", "db", "cache"} // sorted so that the first service need not be on the cycle
			sort.Strings(names[1:])
			deps := map[int][]string{}
			for _, e := range v.Edges {
				deps[e[0]] = append(deps[e[0]], names[e[1]])
			}
			var sb strings.Builder
			sb.WriteString("services:\n")
			for i := 1; i <= v.N; i++ {
				fmt.Fprintf(&sb, "  %s:\n    image: img\n", names[i])
				if len(deps[i]) > 0 {
					fmt.Fprintf(&sb, "    depends_on: [%s]\n", strings.Join(deps[i], ", "))
				}
			}
			exp := "either"
			if v.Cyclic {
				exp = "error"
			}
			cases = append(cases, c01Case{ID: len(cases), Family: "cycle", Desc: fmt.Sprintf("depends_on %v cyclic=%v", v.Edges, v.Cyclic), Expect: exp, Files: map[string]string{"compose.yaml": sb.String()}, Main: []string{"compose.yaml"}})
			return nil
		})
	}
	// every node of the repository's full example replaced by values of other kinds (siblings stay valid)
	if fb, err := os.ReadFile(core.RepoRoot + "/loader/full-example.yml"); err == nil {
		var tree interface{}
		if yaml.Unmarshal(fb, &tree) == nil {
			type step struct {
				key string
				idx int
			}
			var paths [][]step
			var walk func(n interface{}, p []step)
			walk = func(n interface{}, p []step) {
				if len(p) > 0 {
					paths = append(paths, append([]step{}, p...))
				}
				switch x := n.(type) {
				case map[string]interface{}:
					for k, v := range x {
						walk(v, append(p, step{key: k, idx: -1}))
					}
				case []interface{}:
					for i, v := range x {
						if i < 2 {
							walk(v, append(p, step{idx: i}))
						}
					}
				}
			}
			walk(tree, nil)
			sort.Slice(paths, func(i, j int) bool { return fmt.Sprint(paths[i]) < fmt.Sprint(paths[j]) })
			var replace func(n interface{}, p []step, val interface{}) interface{}
			replace = func(n interface{}, p []step, val interface{}) interface{} {
				if len(p) == 0 {
					return val
				}
				switch x := n.(type) {
				case map[string]interface{}:
					m := map[string]interface{}{}
					for k, v := range x {
						m[k] = v
					}
					m[p[0].key] = replace(x[p[0].key], p[1:], val)
					return m
				case []interface{}:
					l := append([]interface{}{}, x...)
					l[p[0].idx] = replace(x[p[0].idx], p[1:], val)
					return l
				}
				return val
			}
			kinds := []string{"null", "int", "string", "empty-list", "map", "odd-strings", "odd-map", "list-of-maps", "bool", "nested-list"}
			every := 4
			if !c.Quick() {
				every = 1
			}
			for pi, p := range paths {
				for ki, k := range kinds {
					if (pi+ki+int(c.Seed))%every != 0 {
						continue
					}
					doc := flowYAML(replace(tree, p, kindValue(k)))
					cases = append(cases, c01Case{ID: len(cases), Family: "example", Desc: fmt.Sprintf("full-example%v = %s", p, k), Expect: "either", Files: map[string]string{"compose.yaml": doc},
						Main: []string{"compose.yaml"}, Switches: []string{"SkipConsistencyCheck", "SkipResolveEnvironment"}})
				}
			}
			c.Set("full_example_nodes", len(paths))
		}
	}
	// ---- the documents of the other properties' tables (valid models and minimal violations of each consistency rule,
	// every custom marshaller's model): combinations of attributes the single-path sweep does not reach; totality only
	for _, tb := range []struct{ module, cfg, variable, field string }{
		{"MC_Consistency", "SPECIFICATION Spec\nINVARIANTS Exactly\nCHECK_DEADLOCK FALSE\n", "cs", "doc"},
		{"MC_RenderDocs", "SPECIFICATION RSpec\nCHECK_DEADLOCK FALSE\n", "doc", "d"},
	} {
		tdump := filepath.Join(c.Work, "tb-"+tb.module)
		rt, err := c.RunTLC(core.TLCOpts{Module: tb.module, CfgText: tb.cfg, Dump: tdump, Workers: 4, Timeout: 20 * time.Minute, Name: "tb-" + tb.module})
		if err != nil {
			c.Inconclusive(tb.module + " failed: " + err.Error())
			return
		}
		c.AddTLC(rt)
		_, err = core.ReadDump(tdump+".dump", func(vars map[string]interface{}) error {
			m := asMap(vars[tb.variable])
			if _, seed := m["seed"]; seed {
				return nil
			}
			doc := yamlOf(m[tb.field])
			cases = append(cases, c01Case{ID: len(cases), Family: "tables", Desc: tb.module + ": " + doc, Expect: "either", Files: map[string]string{"compose.yaml": doc, "sec": "s", "cfg": "c", "s": "s", "c": "c"}, Main: []string{"compose.yaml"}})
			return nil
		})
		if err != nil {
			c.Inconclusive(tb.module + " dump: " + err.Error())
			return
		}
	}
	// ---- seeded byte mutations of the generated documents (totality only)
	nm := 10000
	if !c.Quick() {
		nm = 200000
	}
	var corpus []string
	for _, cs := range cases {
		if cs.Family == "kind" && len(corpus) < 3000 {
			for _, f := range cs.Files {
				corpus = append(corpus, f)
			}
		}
	}
	if b, err := os.ReadFile(core.RepoRoot + "/loader/full-example.yml"); err == nil {
		corpus = append(corpus, string(b))
	}
	alphabet := []byte("{}[]:,-&*!|>'\"#%@`? \n\t$~0aA\\.")
	for i := 0; i < nm && len(corpus) > 0; i++ {
		b := []byte(corpus[rng.Intn(len(corpus))])
		if len(b) == 0 {
			continue
		}
		for k := 0; k < 1+rng.Intn(4); k++ {
			switch rng.Intn(4) {
			case 0:
				b[rng.Intn(len(b))] = alphabet[rng.Intn(len(alphabet))]
			case 1:
				p := rng.Intn(len(b))
				b = append(b[:p], b[p+1:]...)
			case 2:
				p := rng.Intn(len(b) + 1)
				b = append(b[:p], append([]byte{alphabet[rng.Intn(len(alphabet))]}, b[p:]...)...)
			default:
				p := rng.Intn(len(b))
				b = b[:p] // truncation
			}
			if len(b) == 0 {
				break
			}
		}
		cases = append(cases, c01Case{ID: len(cases), Family: "mutant", Desc: "byte mutation", Expect: "either", Files: map[string]string{"compose.yaml": string(b)}, Main: []string{"compose.yaml"}})
	}
	c.Logf("%d cases (%d kind, %d fault of the enumerated space; mutants %d)", len(cases), nKind, nFault, nm)
	results := c01Execute(c, cases, 12)
	fam := map[string]int{}
	outcomes := map[string]int{}
	inadmissible := 0
	for _, cs := range cases {
		r, ok := results[cs.ID]
		fam[cs.Family]++
		if !ok {
			c.Inconclusive(fmt.Sprintf("no result for case %d (%s)", cs.ID, cs.Desc))
			return
		}
		outcomes[r.Outcome]++
		c.Eval(cs.Family+"|"+cs.Desc+"|"+fmt.Sprint(cs.ID), cs.Family != "mutant" || true)
		rep := map[string]interface{}{"case": cs, "result": r}
		if cs.ID%977 == 3 {
			c.Sample(map[string]interface{}{"family": cs.Family, "desc": cs.Desc, "expect": cs.Expect, "outcome": r.Outcome})
		}
		switch r.Outcome {
		case "panic":
			c.Report(core.Finding{Sig: "panic@" + r.Site, Detail: fmt.Sprintf("loading panics (%s) at %s — %s: %s", r.Err, r.Site, cs.Family, cs.Desc), Replay: rep})
		case "crash":
			c.Report(core.Finding{Sig: "crash:" + cs.Family, Detail: fmt.Sprintf("the process died while loading — %s: %s — %s", cs.Family, cs.Desc, r.Err), Replay: rep})
		case "hang":
			c.Report(core.Finding{Sig: "hang:" + cs.Family, Detail: fmt.Sprintf("loading did not return within 20s — %s: %s", cs.Family, cs.Desc), Replay: rep})
		case "both", "neither":
			c.Report(core.Finding{Sig: r.Outcome, Detail: fmt.Sprintf("load returned %s a project and an error — %s: %s", r.Outcome, cs.Family, cs.Desc), Replay: rep})
		case "project":
			if cs.Expect == "error" && cs.Family == "cycle" {
				c.Report(core.Finding{Sig: "cycle-accepted", Detail: "a reference cycle loads instead of being reported as an error — " + cs.Desc, Replay: rep})
			} else if cs.Expect == "error" && cs.Family == "fault" {
				c.Report(core.Finding{Sig: "accepted:fault:" + cs.Desc, Detail: "a referenced file is missing (and its phase is enabled) but the load succeeds — " + cs.Desc, Replay: rep})
			} else if cs.Expect == "error" {
				inadmissible++ // the schema does not admit the kind there, yet the load succeeds: not a claim of C01, recorded as an observation
			}
		case "error":
			if cs.MustName != "" && !strings.Contains(r.Err, cs.MustName) {
				c.Report(core.Finding{Sig: "unnamed-file:" + cs.MustName, Detail: fmt.Sprintf("the error does not name the missing file %s: %s — %s", cs.MustName, r.Err, cs.Desc), Replay: rep})
			}
		}
	}
	c.AddTraces(int64(len(cases)))
	c.Set("cases_per_family", fam)
	c.Set("outcomes", outcomes)
	c.Set("schema_inadmissible_kind_accepted_observed", inadmissible)
	c.Set("schema_paths", len(sps))
	c.Set("enumerated_space", map[string]int{"kind_cases": nKind, "fault_cases": nFault})
	c.Set("rule", "a case is (schema path, YAML node kind, position of the document in the load), a (missing-file set, option set) pair, a YAML alias/cycle shape, or a seeded byte mutation; every case runs in a child process; distinct by description")
	// ---- the pipeline as a stack machine: recorded phase events of real loads replayed through Pipeline.tla
	c01Pipeline(c)
}

func sigTail(cs c01Case) string {
	if cs.Family == "fault" {
		return cs.Desc
	}
	if i := strings.Index(cs.Desc, " ["); i > 0 {
		return cs.Desc[:i]
	}
	return cs.Desc
}
