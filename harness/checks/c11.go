//go:build verif

package checks

import (
	"encoding/json"
	"fmt"
	"os"
	"path/filepath"
	"sort"
	"strings"
	"sync"
	"time"

	"github.com/compose-spec/compose-go/v2/types"

	"verif/harness/internal/core"
)

func init() { Register("C11", "model_checking", C11) }

func C11(c *core.Ctx) {
	c.Assumption("TLC 1.8.0; spec/tree/Defaults.tla; differential oracle: the document that leaves defaults implicit and the specification's explicit document are both loaded by the real loader")
	dump := filepath.Join(c.Work, "cases")
	r, err := c.RunTLC(core.TLCOpts{Module: "MC_Defaults", Dump: dump, Timeout: 30 * time.Minute, Name: "defaults"})
	if err != nil {
		c.Inconclusive("MC_Defaults failed: " + err.Error())
		return
	}
	c.AddTLC(r)
	if r.Violated != "" {
		c.Inconclusive("Defaults specification violates " + r.Violated)
		return
	}
	wd := filepath.Join(c.Work, "wd")
	_ = os.MkdirAll(wd, 0o755)
	_ = os.WriteFile(filepath.Join(wd, "a.env"), []byte("FROMFILE=1\n"), 0o644)
	n, invalid := 0, 0
	var mu sync.Mutex
	root := wd
	_, err = core.ReadDumpParallel(dump+".dump", 8, func(idx int, vars map[string]interface{}) error {
		cs := asMap(vars["cs"])
		if _, seed := cs["seed"]; seed {
			return nil
		}
		mu.Lock()
		n++
		mu.Unlock()
		n := idx
		wd := filepath.Join(root, fmt.Sprint(idx)) // a directory of its own: the placements write files
		_ = os.MkdirAll(wd, 0o755)
		_ = os.WriteFile(filepath.Join(wd, "a.env"), []byte("FROMFILE=1\n"), 0o644)
		defer os.RemoveAll(wd)
		implicit, explicit := yamlOf(cs["implicit"]), yamlOf(cs["explicit"])
		dims := strList(cs["dims"])
		key := strings.Join(dims, "+")
		c.Eval(implicit, implicit != explicit)
		rep := map[string]interface{}{"dimensions": dims, "implicit": implicit, "explicit": explicit}
		if n%131 == 1 {
			c.Sample(rep)
		}
		pi, ei := safeLoad(wd, nil, []namedDoc{{Name: filepath.Join(wd, "compose.yaml"), Content: implicit}})
		pe, ee := safeLoad(wd, nil, []namedDoc{{Name: filepath.Join(wd, "compose.yaml"), Content: explicit}})
		switch {
		case ei != nil && ee != nil:
			mu.Lock()
			invalid++
			mu.Unlock()
		case ei != nil && strings.HasPrefix(ei.Error(), "panic"):
			c.Report(core.Finding{Sig: "panic:" + key, Detail: fmt.Sprintf("%s: %v — %s", key, ei, implicit), Replay: rep})
		case ei != nil:
			c.Report(core.Finding{Sig: "implicit-rejected:" + key, Detail: fmt.Sprintf("%s: the implicit document fails to load (%v) although the explicit one loads — %s", key, ei, implicit), Replay: rep})
		case ee != nil:
			c.Report(core.Finding{Sig: "explicit-rejected:" + key, Detail: fmt.Sprintf("%s: the explicit document fails to load (%v) — %s", key, ee, explicit), Replay: rep})
		default:
			// direct comparison with the specification's explicit document (a defect that hits both loads alike would
			// cancel in the differential): depends_on of service a, network membership, resource names
			if d := c11Direct(pi, asMap(cs["explicit"])); d != "" {
				c.Report(core.Finding{Sig: "defaults-direct:" + key, Detail: fmt.Sprintf("%s: %s — implicit %s", key, d, implicit), Replay: rep})
			}
			di, de := projDump(pi), projDump(pe)
			// a caller that edits the dictionary of one load (LoadModelWithContext) changes nothing for the next load: the defaults
			// filled in are values of that model alone.  Every dependency of the returned model is rewritten in place, then the
			// implicit document is loaded again.
			if n%3 == 0 {
				if m, err := c08Model(wd, nil, implicit); err == nil {
					svcs, _ := m["services"].(map[string]interface{})
					for _, sv := range svcs {
						deps, _ := sv.(map[string]interface{})["depends_on"].(map[string]interface{})
						for _, dv := range deps {
							if dm, ok := dv.(map[string]interface{}); ok {
								dm["condition"], dm["required"], dm["restart"] = "service_healthy", false, false
							}
						}
					}
					if p2, e2 := safeLoad(wd, nil, []namedDoc{{Name: filepath.Join(wd, "compose.yaml"), Content: implicit}}); e2 != nil {
						c.Report(core.Finding{Sig: "defaults-after-edit:" + key, Detail: fmt.Sprintf("%s: after the dictionary of an earlier load was edited, the same document no longer loads: %v", key, e2), Replay: rep})
					} else if d2 := projDump(p2); d2 != di {
						c.Report(core.Finding{Sig: "defaults-after-edit:" + key, Detail: fmt.Sprintf("%s: after the dependencies in the dictionary of an earlier load were edited in place, loading the same document again gives a different project: %s — %s", key, firstDiff(d2, di), implicit), Replay: rep})
					}
				}
			}
			if di != de {
				c.Report(core.Finding{Sig: "defaults-differ:" + key, Detail: fmt.Sprintf("%s: implicit %s and explicit %s load to different projects: %s", key, implicit, explicit, firstDiff(di, de)), Replay: rep})
			}
			// the same pair with the attributes arriving from an override file, an extended base (with and without a local
			// refinement), an included file, and under a `name:` that differs from the requested project name
			if !c.Quick() || n%2 == 0 {
				pim, _ := plainOf(cs["implicit"]).(map[string]interface{})
				pex, _ := plainOf(cs["explicit"]).(map[string]interface{})
				for _, pl := range []string{"named", "override", "extends", "extends-refined", "extends-other-dir", "included", "override-onto-rich", "extends-onto-rich", "override-onto-explicit"} {
					if strings.HasSuffix(pl, "-onto-rich") {
						// only the short list leaves its defaults implicit when it lands on an earlier definition: a mapping entry
						// that omits a key does not mention it, and what a later side does not mention is kept (C04)
						ia, _ := pim["services"].(map[string]interface{})["a"].(map[string]interface{})
						if _, short := ia["depends_on"].([]interface{}); !short {
							continue
						}
					}
					li := c11Place(wd, "i", pl, pim)
					le := c11Place(wd, "e", pl, pex)
					if pl == "override-onto-explicit" {
						// the main file is the explicit document in both forms; the override repeats service a's attributes, implicit or explicit
						li, le = c11Onto(wd, "i", pex, pim), c11Onto(wd, "e", pex, pex)
					}
					if li == nil || le == nil {
						continue
					}
					c.Eval(pl+"|"+implicit, implicit != explicit)
					qi, e1 := safeLoad(wd, nil, li)
					qe, e2 := safeLoad(wd, nil, le)
					switch {
					case e1 != nil && e2 != nil:
					case e1 != nil || e2 != nil:
						c.Report(core.Finding{Sig: "defaults-differ-" + pl + ":" + key, Detail: fmt.Sprintf("%s (%s): the implicit form gives %v, the explicit form gives %v — %s", key, pl, e1, e2, implicit), Replay: rep})
					default:
						if a, b := projDump(qi), projDump(qe); a != b {
							// one known class: the only difference is the build context left implicit on a base of another directory
							if pl == "extends-other-dir" && strings.ReplaceAll(b, filepath.Join(wd, "xsub")+`"`, wd+`"`) == a {
								c.Report(core.Finding{Sig: "extended-base-implicit-build-context", Detail: fmt.Sprintf("%s (%s): a build section without `context` on a base service of a file in another directory builds from the project directory, with `context: .` written out from the base file's directory — implicit %s", key, pl, implicit), Replay: rep})
								continue
							}
							c.Report(core.Finding{Sig: "defaults-differ-" + pl + ":" + key, Detail: fmt.Sprintf("%s (%s): implicit %s and explicit %s load to different projects: %s", key, pl, implicit, explicit, firstDiff(a, b)), Replay: rep})
						}
					}
				}
			}
		}
		return nil
	})
	if err != nil {
		c.Inconclusive("replay: " + err.Error())
		return
	}
	c.AddTraces(int64(n))
	c.Set("cases", n)
	c.Set("cases_invalid_in_both_forms", invalid)
	c.Set("exhaustive", true)
	c.Logf("%d default cases replayed (%d invalid in both forms)", n, invalid)
	if invalid*4 > n {
		c.Drift(fmt.Sprintf("%d of %d generated cases load in neither form", invalid, n))
	}
	c.Set("rule", "a case is a document varying one or two default-able dimensions (implicit / explicit default / explicit different value) of service a and of the top-level resources; two real loads; non-trivial when the explicit document differs from the implicit one")
}

// c11Direct compares the loaded project with the explicit document computed by the specification, field by field.
func c11Direct(p *types.Project, explicit map[string]interface{}) string {
	doc := asMap(explicit["v"])
	svc := asMap(asMap(asMap(asMap(doc["services"])["v"])["a"])["v"])
	a := p.Services["a"]
	// depends_on
	want := map[string]string{}
	if d, ok := svc["depends_on"]; ok {
		for name, e := range asMap(asMap(d)["v"]) {
			em := asMap(asMap(e)["v"])
			get := func(k string, dflt string) string {
				if x, ok := em[k]; ok {
					return fmt.Sprint(asMap(x)["v"])
				}
				return dflt
			}
			want[name] = get("condition", "service_started") + "/restart=" + get("restart", "false") + "/required=" + get("required", "true")
		}
	}
	got := map[string]string{}
	for name, d := range a.DependsOn {
		got[name] = fmt.Sprintf("%s/restart=%v/required=%v", d.Condition, d.Restart, d.Required)
	}
	if fmt.Sprint(got) != fmt.Sprint(want) {
		return fmt.Sprintf("depends_on of service a is %v; the defaults rules define %v", got, want)
	}
	// network membership
	if n, ok := svc["networks"]; ok {
		var wn, gn []string
		for k := range asMap(asMap(n)["v"]) {
			wn = append(wn, k)
		}
		for k := range a.Networks {
			gn = append(gn, k)
		}
		sort.Strings(wn)
		sort.Strings(gn)
		if fmt.Sprint(wn) != fmt.Sprint(gn) {
			return fmt.Sprintf("service a is attached to %v; the rules define %v", gn, wn)
		}
	}
	// resource names
	for kind, names := range map[string]map[string]string{"networks": netNames(p), "volumes": volNames(p), "secrets": secNames(p)} {
		if sec, ok := doc[kind]; ok {
			for k, r := range asMap(asMap(sec)["v"]) {
				if nm, ok := asMap(asMap(r)["v"])["name"]; ok {
					if names[k] != asStr(asMap(nm)["v"]) {
						return fmt.Sprintf("%s.%s is named %q; the rules define %q", kind, k, names[k], asStr(asMap(nm)["v"]))
					}
				}
			}
		}
	}
	if b, ok := svc["build"]; ok && a.Build != nil {
		bm := asMap(asMap(b)["v"])
		if x, ok := bm["context"]; ok && !strings.HasSuffix(a.Build.Context, strings.TrimPrefix(asStr(asMap(x)["v"]), ".")) {
			return fmt.Sprintf("build context is %q; the rules define %q", a.Build.Context, asStr(asMap(x)["v"]))
		}
		if x, ok := bm["dockerfile"]; ok && a.Build.Dockerfile != asStr(asMap(x)["v"]) {
			return fmt.Sprintf("dockerfile is %q; the rules define %q", a.Build.Dockerfile, asStr(asMap(x)["v"]))
		}
	}
	// device reservations: the count written (or the default `all` = -1), never another one
	if g, ok := svc["gpus"]; ok {
		for i, e := range asList(asMap(g)["v"]) {
			em := asMap(asMap(e)["v"])
			if i >= len(a.Gpus) {
				return fmt.Sprintf("gpus has %d entries; the rules define %d", len(a.Gpus), len(asList(asMap(g)["v"])))
			}
			if cnt, ok := em["count"]; ok {
				want := int64(-1)
				if asStr(asMap(cnt)["t"]) == "i" {
					want = int64(asInt(asMap(cnt)["v"]))
				}
				if int64(a.Gpus[i].Count) != want {
					return fmt.Sprintf("gpus[%d].count is %d; the rules define %d (-1 = all)", i, a.Gpus[i].Count, want)
				}
			}
		}
	}
	if pp, ok := svc["pull_policy"]; ok && a.PullPolicy != asStr(asMap(pp)["v"]) {
		return fmt.Sprintf("pull_policy is %q; the rules define %q", a.PullPolicy, asStr(asMap(pp)["v"]))
	}
	return ""
}

func netNames(p *types.Project) map[string]string {
	m := map[string]string{}
	for k, v := range p.Networks {
		m[k] = v.Name
	}
	return m
}
func volNames(p *types.Project) map[string]string {
	m := map[string]string{}
	for k, v := range p.Volumes {
		m[k] = v.Name
	}
	return m
}
func secNames(p *types.Project) map[string]string {
	m := map[string]string{}
	for k, v := range p.Secrets {
		m[k] = v.Name
	}
	return m
}

func c11Clone(v interface{}) interface{} {
	b, _ := json.Marshal(v)
	var out interface{}
	_ = json.Unmarshal(b, &out)
	return out
}

// c11Onto: the explicit document as the main file, and service a's attributes of doc (all but the image) again in an override file.
func c11Onto(wd, tag string, explicit, doc map[string]interface{}) []namedDoc {
	if doc == nil || explicit == nil {
		return nil
	}
	svcs, _ := doc["services"].(map[string]interface{})
	a, _ := svcs["a"].(map[string]interface{})
	rest := map[string]interface{}{}
	for k, v := range a {
		if k != "image" {
			rest[k] = v
		}
	}
	if len(rest) == 0 {
		return nil
	}
	js := func(v interface{}) string { b, _ := json.Marshal(v); return string(b) }
	over := map[string]interface{}{"services": map[string]interface{}{"a": rest}}
	return []namedDoc{{Name: filepath.Join(wd, tag+"-main.yaml"), Content: js(explicit)}, {Name: filepath.Join(wd, tag+"-over.yaml"), Content: js(over)}}
}

// c11Place writes the document in one of the placements and returns the files to load (nil: not applicable).
func c11Place(wd, tag, placement string, doc map[string]interface{}) []namedDoc {
	if doc == nil {
		return nil
	}
	d := c11Clone(doc).(map[string]interface{})
	svcs, _ := d["services"].(map[string]interface{})
	a, _ := svcs["a"].(map[string]interface{})
	if a == nil {
		return nil
	}
	js := func(v interface{}) string { b, _ := json.Marshal(v); return string(b) }
	main := filepath.Join(wd, tag+"-main.yaml")
	switch placement {
	case "named":
		d["name"] = "fromfile"
		return []namedDoc{{Name: main, Content: js(d)}}
	case "override":
		rest := map[string]interface{}{}
		for k, v := range a {
			if k != "image" {
				rest[k] = v
				delete(a, k)
			}
		}
		if len(rest) == 0 {
			return nil
		}
		over := map[string]interface{}{"services": map[string]interface{}{"a": rest}}
		return []namedDoc{{Name: main, Content: js(d)}, {Name: filepath.Join(wd, tag+"-over.yaml"), Content: js(over)}}
	case "override-onto-rich", "extends-onto-rich":
		// the service's attributes arrive on top of an earlier definition that already declares non-default values for the
		// same dependency: what the later side leaves implicit must act like the default written out
		rich := map[string]interface{}{"image": "img", "depends_on": map[string]interface{}{"db": map[string]interface{}{"condition": "service_healthy", "restart": true, "required": false}}}
		rest := map[string]interface{}{}
		for k, v := range a {
			if k != "image" {
				rest[k] = v
			}
		}
		if _, has := rest["depends_on"]; !has {
			return nil
		}
		if placement == "override-onto-rich" {
			svcs["a"] = rich
			over := map[string]interface{}{"services": map[string]interface{}{"a": rest}}
			return []namedDoc{{Name: main, Content: js(d)}, {Name: filepath.Join(wd, tag+"-over.yaml"), Content: js(over)}}
		}
		svcs["abase"] = rich
		rest["extends"] = map[string]interface{}{"service": "abase"}
		svcs["a"] = rest
		return []namedDoc{{Name: main, Content: js(d)}}
	case "extends", "extends-refined":
		svcs["abase"] = a
		derived := map[string]interface{}{"extends": map[string]interface{}{"service": "abase"}}
		if placement == "extends-refined" {
			derived["depends_on"] = map[string]interface{}{"db": map[string]interface{}{"condition": "service_healthy", "restart": true, "required": false}}
		}
		svcs["a"] = derived
		return []namedDoc{{Name: main, Content: js(d)}}
	case "extends-other-dir":
		// the whole service sits on a base in a file of a sub-directory (the same directory for both forms)
		_ = os.MkdirAll(filepath.Join(wd, "xsub"), 0o755)
		_ = os.WriteFile(filepath.Join(wd, "xsub", "a.env"), []byte("FROMFILE=1\n"), 0o644)
		base := map[string]interface{}{"services": map[string]interface{}{"abase": a}}
		_ = os.WriteFile(filepath.Join(wd, "xsub", tag+"-base.yaml"), []byte(js(base)), 0o644)
		svcs["a"] = map[string]interface{}{"extends": map[string]interface{}{"file": "xsub/" + tag + "-base.yaml", "service": "abase"}}
		return []namedDoc{{Name: main, Content: js(d)}}
	case "included":
		_ = os.WriteFile(filepath.Join(wd, tag+"-inc.yaml"), []byte(js(d)), 0o644)
		return []namedDoc{{Name: main, Content: "include:\n  - " + tag + "-inc.yaml\nservices:\n  extra: {image: img}\n"}}
	}
	return nil
}
