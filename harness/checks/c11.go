//go:build verif

package checks

import (
	"fmt"
	"os"
	"path/filepath"
	"strings"
	"time"

	"verif/harness/internal/core"
)

func init() { Register("C11", "model_checking", C11) }

func C11(c *core.Ctx) {
	c.Assumption("TLC 1.8.0; spec/tree/Defaults.tla; differential oracle: the document that leaves defaults implicit and the specification's explicit document are both loaded by the real loader")
	dump := filepath.Join(c.Work, "cases")
	r, err := c.RunTLC(core.TLCOpts{Module: "MC_Defaults", Dump: dump, Timeout: 30 * time.Minute, Name: "defaults"})
	if err != nil {
		c.Inconclusive("MC_Defaults failed: " + err.Error())
		return
	}
	c.AddTLC(r)
	if r.Violated != "" {
		c.Inconclusive("Defaults specification violates " + r.Violated)
		return
	}
	wd := filepath.Join(c.Work, "wd")
	_ = os.MkdirAll(wd, 0o755)
	_ = os.WriteFile(filepath.Join(wd, "a.env"), []byte("FROMFILE=1\n"), 0o644)
	n, invalid := 0, 0
	_, err = core.ReadDump(dump+".dump", func(vars map[string]interface{}) error {
		cs := asMap(vars["cs"])
		if _, seed := cs["seed"]; seed {
			return nil
		}
		n++
		implicit, explicit := yamlOf(cs["implicit"]), yamlOf(cs["explicit"])
		dims := strList(cs["dims"])
		key := strings.Join(dims, "+")
		c.Eval(implicit, implicit != explicit)
		rep := map[string]interface{}{"dimensions": dims, "implicit": implicit, "explicit": explicit}
		if n%131 == 1 {
			c.Sample(rep)
		}
		pi, ei := safeLoad(wd, nil, []namedDoc{{Name: filepath.Join(wd, "compose.yaml"), Content: implicit}})
		pe, ee := safeLoad(wd, nil, []namedDoc{{Name: filepath.Join(wd, "compose.yaml"), Content: explicit}})
		switch {
		case ei != nil && ee != nil:
			invalid++
		case ei != nil && strings.HasPrefix(ei.Error(), "panic"):
			c.Report(core.Finding{Sig: "panic:" + key, Detail: fmt.Sprintf("%s: %v — %s", key, ei, implicit), Replay: rep})
		case ei != nil:
			c.Report(core.Finding{Sig: "implicit-rejected:" + key, Detail: fmt.Sprintf("%s: the implicit document fails to load (%v) although the explicit one loads — %s", key, ei, implicit), Replay: rep})
		case ee != nil:
			c.Report(core.Finding{Sig: "explicit-rejected:" + key, Detail: fmt.Sprintf("%s: the explicit document fails to load (%v) — %s", key, ee, explicit), Replay: rep})
		default:
			di, de := projDump(pi), projDump(pe)
			if di != de {
				c.Report(core.Finding{Sig: "defaults-differ:" + key, Detail: fmt.Sprintf("%s: implicit %s and explicit %s load to different projects: %s", key, implicit, explicit, firstDiff(di, de)), Replay: rep})
			}
		}
		return nil
	})
	if err != nil {
		c.Inconclusive("replay: " + err.Error())
		return
	}
	c.AddTraces(int64(n))
	c.Set("cases", n)
	c.Set("cases_invalid_in_both_forms", invalid)
	c.Set("exhaustive", true)
	c.Logf("%d default cases replayed (%d invalid in both forms)", n, invalid)
	if invalid*4 > n {
		c.Drift(fmt.Sprintf("%d of %d generated cases load in neither form", invalid, n))
	}
	c.Set("rule", "a case is a document varying one or two default-able dimensions (implicit / explicit default / explicit different value) of service a and of the top-level resources; two real loads; non-trivial when the explicit document differs from the implicit one")
}
