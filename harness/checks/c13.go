//go:build verif

package checks

import (
	"context"
	"encoding/json"
	"errors"
	"fmt"
	"math/rand"
	"os"
	"path/filepath"
	"runtime"
	"sort"
	"strings"
	"sync/atomic"
	"time"

	"github.com/compose-spec/compose-go/v2/graph"
	"github.com/compose-spec/compose-go/v2/types"

	"verif/harness/internal/core"
	"verif/harness/internal/sched"
)

func init() { Register("C13", "model_checking", C13) }

// sigOf maps a monitor message to a stable signature (class of failure).
func sigOf(v string) string {
	if i := strings.Index(v, ":"); i > 0 {
		return v[:i]
	}
	return v
}

func randomConfig(rng *rand.Rand, maxN int) sched.Config {
	n := 1 + rng.Intn(maxN)
	c := sched.Config{N: n, Deps: make([][]int, n), Inverse: rng.Intn(2) == 0, Limit: rng.Intn(4), After: []int{}, Fails: []int{}}
	dens := 1 + rng.Intn(3)
	for i := 1; i <= n; i++ {
		c.Deps[i-1] = []int{}
		for j := 1; j < i; j++ {
			if rng.Intn(4) < dens {
				c.Deps[i-1] = append(c.Deps[i-1], j)
			}
		}
	}
	for i := 1; i <= n; i++ {
		if rng.Intn(5) == 0 {
			c.Fails = append(c.Fails, i)
		}
	}
	if rng.Intn(3) == 0 {
		for i := 1; i <= n; i++ {
			if rng.Intn(n) == 0 {
				c.After = append(c.After, i)
			}
		}
	}
	c.Ext = rng.Intn(4) == 0 // in a quarter of the walks the caller may cancel the context, at a moment the chooser picks
	return c
}

func cfgEvent(c sched.Config) sched.Event {
	return sched.Event{Kind: "cfg", N: c.N, Deps: c.Deps, Inverse: c.Inverse, Limit: c.Limit, After: c.After, Fails: c.Fails, Ext: c.Ext}
}

type c13run struct {
	res    sched.Result
	source string
}

func C13(c *core.Ctx) {
	rng := rand.New(rand.NewSource(c.Seed))
	runtime.GOMAXPROCS(1) // the gate scheduler decides quiescence from run-queue order (see internal/sched)
	c.Assumption("TLC 1.8.0 and the specification spec/graph/Traversal.tla; the Go runtime's goroutine states as reported by runtime.Stack (used to decide quiescence of the gate scheduler)")
	c.Assumption("verdicts come only from monitors on the real visitor callbacks and the real return value; a trace the specification rejects without a monitor failing is reported as DRIFT")

	// ---- 1. design-level model checking
	mcCfg := "SPECIFICATION Spec\nCONSTANTS MinN = 1\n MaxN = 3\n Limits = {0,1}\n MaxFail = 1\n RootSets = 1\n Exts = {FALSE}\nINVARIANTS OnceEach DepsFirst BoundAlways ReturnAfterAll ResultOK RootsClosure ChanBounded \nCHECK_DEADLOCK TRUE\n"
	if !c.Quick() {
		mcCfg = "SPECIFICATION Spec\nCONSTANTS MinN = 1\n MaxN = 3\n Limits = {0,1,2}\n MaxFail = 2\n RootSets = 2\n Exts = {FALSE}\nINVARIANTS OnceEach DepsFirst BoundAlways ReturnAfterAll ResultOK RootsClosure ChanBounded\nPROPERTY Live\nCHECK_DEADLOCK TRUE\n"
	}
	r, err := c.RunTLC(core.TLCOpts{Module: "MC_Traversal", CfgText: mcCfg, Workers: 8, Timeout: 40 * time.Minute, Name: "mc"})
	if err != nil {
		c.Inconclusive("model checking failed: " + err.Error())
		return
	}
	c.AddTLC(r)
	c.Set("mc_traversal", map[string]interface{}{"distinct": r.Distinct, "generated": r.Generated, "depth": r.Depth, "wall_s": r.Wall.Seconds(), "config": strings.ReplaceAll(mcCfg, "\n", " ")})
	if r.Violated != "" {
		// a counterexample on the model alone is never a violation; it says the model admits a bad state
		c.Inconclusive("the model violates " + r.Violated + " (model-level counterexample; needs adjudication): " + tailStr(r.ErrorTrace(), 800))
		return
	}
	c.Logf("model check: %d distinct states, %.0fs", r.Distinct, r.Wall.Seconds())
	// the caller may cancel its context at any moment (environment action CallerCancel): the bound, once-each, deps-first and
	// return-after-all clauses still hold
	extCfg := "SPECIFICATION Spec\nCONSTANTS MinN = 1\n MaxN = 3\n Limits = {1}\n MaxFail = 0\n RootSets = 0\n Exts = {TRUE}\nINVARIANTS OnceEach DepsFirst BoundAlways ReturnAfterAll ResultOK ChanBounded\nCHECK_DEADLOCK TRUE\n"
	if !c.Quick() {
		extCfg = "SPECIFICATION Spec\nCONSTANTS MinN = 1\n MaxN = 3\n Limits = {0,1,2}\n MaxFail = 1\n RootSets = 1\n Exts = {TRUE}\nINVARIANTS OnceEach DepsFirst BoundAlways ReturnAfterAll ResultOK ChanBounded\nPROPERTY Live\nCHECK_DEADLOCK TRUE\n"
	}
	rx, err := c.RunTLC(core.TLCOpts{Module: "MC_Traversal", CfgText: extCfg, Workers: 8, Timeout: 40 * time.Minute, Name: "mcext"})
	if err != nil {
		c.Inconclusive("model checking (caller cancellation) failed: " + err.Error())
		return
	}
	c.AddTLC(rx)
	c.Set("mc_traversal_caller_cancel", map[string]interface{}{"distinct": rx.Distinct, "generated": rx.Generated, "config": strings.ReplaceAll(extCfg, "\n", " ")})
	if rx.Violated != "" {
		c.Inconclusive("the model with caller cancellation violates " + rx.Violated + ": " + tailStr(rx.ErrorTrace(), 800))
		return
	}
	if !c.Quick() {
		// vacuity guard: every action of Traversal.tla is taken in the (quick-sized) bounded model
		covCfg := "SPECIFICATION Spec\nCONSTANTS MinN = 1\n MaxN = 3\n Limits = {0,1}\n MaxFail = 1\n RootSets = 0\n Exts = {FALSE, TRUE}\nINVARIANTS OnceEach DepsFirst BoundAlways\nCHECK_DEADLOCK TRUE\n"
		if !c.CoverageGuard("mc_traversal_action_coverage", core.TLCOpts{Module: "MC_Traversal", CfgText: covCfg, Workers: 8, Timeout: 40 * time.Minute, Name: "mccov"}) {
			return
		}
		// N = 4 without failures/roots, and liveness for N <= 3 above
		cfg4 := "SPECIFICATION Spec\nCONSTANTS MinN = 4\n MaxN = 4\n Limits = {0,2}\n MaxFail = 0\n RootSets = 0\n Exts = {FALSE}\nINVARIANTS OnceEach DepsFirst BoundAlways ReturnAfterAll ResultOK ChanBounded \nCHECK_DEADLOCK TRUE\n"
		r4, err := c.RunTLC(core.TLCOpts{Module: "MC_Traversal", CfgText: cfg4, Timeout: 60 * time.Minute, Name: "mc4"})
		if err != nil {
			c.Inconclusive("model checking N=4 failed: " + err.Error())
			return
		}
		c.AddTLC(r4)
		c.Set("mc_traversal_n4", map[string]interface{}{"distinct": r4.Distinct, "generated": r4.Generated, "wall_s": r4.Wall.Seconds()})
		if r4.Violated != "" {
			c.Inconclusive("the model (N=4) violates " + r4.Violated)
			return
		}
	}

	var runs []c13run
	record := func(res sched.Result, source string) {
		nontrivial := res.Reordered && res.Cfg.N > 1
		c.Eval(res.Cfg.Key()+"|"+labelsKey(res.Events), nontrivial)
		for _, v := range res.Violations {
			c.Report(core.Finding{Sig: sigOf(v), Detail: v + " — config " + res.Cfg.Key() + " (" + source + ")", Replay: res})
		}
		runs = append(runs, c13run{res, source})
	}

	// ---- 2. the model admits Bound to be exceeded once a visitor has failed; reproduce TLC's shortest counterexample on the real code
	c13BoundCounterexample(c, rng, record)

	// ---- 3. model -> code: walk TLC-generated behaviours (prefix tree) on the real goroutines
	c13Guided(c, rng, record)

	// ---- 4. code -> model: seeded random / biased schedules on random DAGs beyond the exhaustive bound
	nRandom, maxN := 1200, 5
	if !c.Quick() {
		nRandom, maxN = 40000, 7
	}
	for i := 0; i < nRandom; i++ {
		cfg := randomConfig(rng, maxN)
		var ch sched.Chooser = sched.Random{Rng: rng}
		if i%2 == 1 {
			ch = sched.NewBiased(rng)
		}
		if cfg.Ext && i%4 != 0 { // the caller cancels at a step drawn over the whole walk (otherwise: whenever the chooser takes it)
			ch = sched.CancelAt{Inner: ch, At: rng.Intn(8*cfg.N + 6)}
		}
		record(sched.Run(cfg, ch), "random")
	}
	// wide frontiers under a limit with the caller cancelling while the limit is reached: N independent services (+ one dependent)
	nWide := 150
	if !c.Quick() {
		nWide = 3000
	}
	for i := 0; i < nWide; i++ {
		n := 3 + rng.Intn(3)
		cfg := sched.Config{N: n, Deps: make([][]int, n), Inverse: i%2 == 1, Limit: 1 + rng.Intn(n-2), After: []int{}, Fails: []int{}, Ext: true}
		for k := range cfg.Deps {
			cfg.Deps[k] = []int{}
		}
		if i%3 == 0 {
			cfg.Deps[n-1] = []int{1}
		}
		record(sched.Run(cfg, sched.CancelAt{Inner: sched.Random{Rng: rng}, At: 4 + rng.Intn(6*n)}), "random")
	}
	c.Logf("schedules executed on the real code: %d (quiescence cross-checks %d, disagreements %d)", len(runs), sched.QuiesceChecks, sched.QuiesceDisagree)
	c.Set("quiescence_crosschecks", map[string]int{"checked_against_runtime_stack": sched.QuiesceChecks, "disagreements": sched.QuiesceDisagree})

	// ---- 5. cyclic graphs are refused before any visit
	c13Cycles(c)

	// ---- 6. trace validation of the recorded executions against the specification
	c13Validate(c, rng, runs)

	if len(runs) > 0 {
		s := runs[len(runs)/2].res
		c.Sample(map[string]interface{}{"config": s.Cfg, "released_in_order": labelsOf(s.Events), "returned": s.Ret, "max_running": s.MaxRunning})
	}
	c.Set("rule", "a case is one execution of the real CollectInDependencyOrder under the gate scheduler; distinct by (configuration, release order); non-trivial when the graph has >1 service and at least one choice was made among several parked goroutines")
}

func labelsOf(ev []sched.Event) []string {
	var l []string
	for _, e := range ev {
		if e.Kind == "ev" {
			l = append(l, e.Label())
		}
	}
	return l
}
func labelsKey(ev []sched.Event) string { return core.HashStr(strings.Join(labelsOf(ev), ",")) }

func tailStr(s string, n int) string {
	if len(s) > n {
		return s[len(s)-n:]
	}
	return s
}

type genLine struct {
	Ci     int      `json:"ci"`
	Ret    string   `json:"ret"`
	Labels []string `json:"labels"`
}

func writeConfigs(path string, cfgs []sched.Config) error {
	var recs []interface{}
	for _, g := range cfgs {
		recs = append(recs, g)
	}
	return core.WriteNDJSON(path, recs)
}

func c13BoundCounterexample(c *core.Ctx, rng *rand.Rand, record func(sched.Result, string)) {
	cfg := sched.Config{N: 3, Deps: [][]int{{}, {}, {}}, Limit: 1, After: []int{}, Fails: []int{1}}
	cfgPath := filepath.Join(c.Work, "bound-cfg.ndjson")
	if err := writeConfigs(cfgPath, []sched.Config{cfg}); err != nil {
		c.Inconclusive(err.Error())
		return
	}
	cex := filepath.Join(c.Work, "bound-cex.json")
	r, err := c.RunTLC(core.TLCOpts{Module: "Gen_Traversal", Cfg: "GenBound.cfg",
		CfgText:   "SPECIFICATION GenSpec\nINVARIANTS BoundAlways\nVIEW GView\nCHECK_DEADLOCK FALSE\n",
		Env:       map[string]string{"CONFIGS": cfgPath, "OUT": filepath.Join(c.Work, "bound-out.ndjson")},
		ExtraArgs: []string{"-dumpTrace", "json", cex}, Workers: 4, Timeout: 5 * time.Minute, Name: "bound"})
	if err != nil {
		c.Inconclusive("bound counterexample search failed: " + err.Error())
		return
	}
	c.AddTLC(r)
	if r.Violated != "BoundAlways" {
		c.Set("model_bound_after_error", "the model does not admit it")
		return
	}
	b, err := os.ReadFile(cex)
	if err != nil {
		c.Inconclusive("no counterexample dump: " + err.Error())
		return
	}
	var dump struct {
		Counterexample struct {
			State [][]json.RawMessage `json:"state"`
		} `json:"counterexample"`
	}
	if err := json.Unmarshal(b, &dump); err != nil || len(dump.Counterexample.State) == 0 {
		c.Inconclusive("cannot parse counterexample dump")
		return
	}
	last := dump.Counterexample.State[len(dump.Counterexample.State)-1]
	var st struct {
		Hist []string `json:"hist"`
	}
	_ = json.Unmarshal(last[1], &st)
	trie := sched.NewTrie()
	trie.Add(st.Hist)
	followed, reproduced := 0, 0
	for attempt := 0; attempt < 400 && reproduced == 0; attempt++ {
		g := sched.NewGuided(trie, rng)
		res := sched.Run(cfg, g)
		record(res, "tlc-counterexample BoundAlways")
		if !g.Lost || g.Off >= len(st.Hist) {
			followed++
		}
		for _, v := range res.Violations {
			if strings.HasPrefix(v, "bound-after-error") {
				reproduced++
			}
		}
	}
	c.Set("model_bound_after_error", map[string]interface{}{"tlc_counterexample_states": len(dump.Counterexample.State), "schedule": st.Hist,
		"replays_following_it_to_the_end": followed, "reproduced_on_real_code": reproduced > 0})
	c.Logf("bound-after-error counterexample: %d states, reproduced on real code: %v", len(dump.Counterexample.State), reproduced > 0)
}

func c13Guided(c *core.Ctx, rng *rand.Rand, record func(sched.Result, string)) {
	nCfg, perCfg := 16, 80
	if !c.Quick() {
		nCfg, perCfg = 160, 400
	}
	var cfgs []sched.Config
	seen := map[string]bool{}
	for len(cfgs) < nCfg {
		maxN := 3
		if len(cfgs)%4 == 3 {
			maxN = 4
		}
		g := randomConfig(rng, maxN)
		if g.N < 2 || seen[g.Key()] {
			continue
		}
		seen[g.Key()] = true
		cfgs = append(cfgs, g)
	}
	cfgPath := filepath.Join(c.Work, "gen-cfg.ndjson")
	out := filepath.Join(c.Work, "gen-out.ndjson")
	if err := writeConfigs(cfgPath, cfgs); err != nil {
		c.Inconclusive(err.Error())
		return
	}
	r, err := c.RunTLC(core.TLCOpts{Module: "Gen_Traversal", Env: map[string]string{"CONFIGS": cfgPath, "OUT": out},
		Simulate: fmt.Sprintf("num=%d", nCfg*perCfg), Depth: 600, Workers: 1, Timeout: 30 * time.Minute, Name: "gen"})
	if err != nil {
		c.Inconclusive("behaviour generation failed: " + err.Error())
		return
	}
	if r.Violated != "" {
		c.Inconclusive("simulation violated " + r.Violated)
		return
	}
	tries := make([]*sched.Trie, len(cfgs))
	counts := make([]int, len(cfgs))
	for i := range tries {
		tries[i] = sched.NewTrie()
	}
	nb, err := core.ReadVectors(out, func(raw json.RawMessage) error {
		var g genLine
		if err := json.Unmarshal(raw, &g); err != nil {
			return err
		}
		if g.Ci >= 1 && g.Ci <= len(tries) {
			tries[g.Ci-1].Add(g.Labels)
			counts[g.Ci-1]++
		}
		return nil
	})
	if err != nil {
		c.Inconclusive("cannot read generated behaviours: " + err.Error())
		return
	}
	totalNodes, totalVisited, walks, onModel := 0, 0, 0, 0
	for i, cfg := range cfgs {
		budget := counts[i]*2 + 20
		for w := 0; w < budget; w++ {
			g := sched.NewGuided(tries[i], rng)
			res := sched.Run(cfg, g)
			record(res, "guided")
			walks++
			if !g.Lost {
				onModel++
			}
			if n, v := tries[i].Size(); n == v {
				break
			}
		}
		n, v := tries[i].Size()
		totalNodes += n
		totalVisited += v
	}
	c.Set("model_to_code", map[string]interface{}{"configurations": len(cfgs), "tlc_behaviours": nb, "prefix_tree_nodes": totalNodes,
		"prefix_tree_nodes_reached_by_real_code": totalVisited, "walks": walks, "walks_that_stayed_on_model_behaviours": onModel})
	c.AddTraces(int64(onModel))
	c.Logf("guided: %d behaviours from TLC, %d/%d prefix-tree nodes reached in %d walks (%d stayed on a model behaviour)", nb, totalVisited, totalNodes, walks, onModel)
	if walks > 50 && onModel == 0 {
		c.Drift("no guided walk could follow any TLC behaviour: the code no longer steps like the specification")
	}
}

func c13Cycles(c *core.Ctx) {
	maxN := 3
	if !c.Quick() {
		maxN = 4
	}
	out := filepath.Join(c.Work, "cycle-out.ndjson")
	r, err := c.RunTLC(core.TLCOpts{Module: "Cycle", CfgText: fmt.Sprintf("SPECIFICATION Spec\nCONSTANTS MinN = 1\n MaxN = %d\nINVARIANTS SearchIsExact\nCHECK_DEADLOCK FALSE\n", maxN),
		Env: map[string]string{"OUT": out}, Workers: 1, Timeout: 30 * time.Minute, Xss: "64m", Name: "cycle"})
	if err != nil {
		c.Inconclusive("cycle model failed: " + err.Error())
		return
	}
	c.AddTLC(r)
	if r.Violated != "" {
		c.Inconclusive("cycle model violates " + r.Violated)
		return
	}
	type vec struct {
		N      int     `json:"n"`
		Edges  [][]int `json:"edges"`
		Cyclic bool    `json:"cyclic"`
	}
	n, cyc, hangs := 0, 0, 0
	_, err = core.ReadVectors(out, func(raw json.RawMessage) error {
		var v vec
		if err := json.Unmarshal(raw, &v); err != nil {
			return err
		}
		n++
		p := &types.Project{Name: "p", Services: types.Services{}}
		for i := 1; i <= v.N; i++ {
			p.Services[sched.Name(i)] = types.ServiceConfig{Name: sched.Name(i), Image: "x", DependsOn: types.DependsOnConfig{}}
		}
		for _, e := range v.Edges {
			p.Services[sched.Name(e[0])].DependsOn[sched.Name(e[1])] = types.ServiceDependency{Condition: types.ServiceConditionStarted, Required: true}
		}
		// optional dependencies on a service that is absent and on one that is disabled are no edges; they must neither
		// hide a cycle nor be removed from the project (every graph is built several times: map ranges differ)
		p.DisabledServices = types.Services{"off": types.ServiceConfig{Name: "off", Image: "x", Profiles: []string{"never"}}}
		for i := 1; i <= v.N; i++ {
			p.Services[sched.Name(i)].DependsOn["ghost"] = types.ServiceDependency{Condition: types.ServiceConditionStarted, Required: false}
			if i%2 == 0 {
				p.Services[sched.Name(i)].DependsOn["off"] = types.ServiceDependency{Condition: types.ServiceConditionHealthy, Required: false}
			}
		}
		if n%2 == 0 && v.N > 0 {
			// the same name also among the disabled services (a hand-built project): the enabled one is the one the edges mean
			p.DisabledServices[sched.Name(1)] = types.ServiceConfig{Name: sched.Name(1), Image: "stale"}
		}
		beforeProject := fmt.Sprintf("%#v", p)
		for rep := 0; rep < 4; rep++ {
			if ccErr := graph.CheckCycle(p); v.Cyclic && ccErr == nil {
				c.Report(core.Finding{Sig: "cycle-accepted", Detail: fmt.Sprintf("cyclic graph %v (n=%d, with optional dependencies on absent services) accepted by CheckCycle at repetition %d", v.Edges, v.N, rep), Replay: v})
			}
			if after := fmt.Sprintf("%#v", p); after != beforeProject {
				c.Report(core.Finding{Sig: "project-modified", Detail: fmt.Sprintf("building the graph of %v modified the project: %s", v.Edges, firstDiff(beforeProject, after)), Replay: v})
				break
			}
		}
		var visits int32
		for dir := 0; dir < 2; dir++ {
			if hangs >= 3 || (v.Cyclic && graph.CheckCycle(p) == nil) {
				// a cyclic graph the cycle check lets through (reported above) has no leaf: its walk cannot return; and after
				// three walks that did not return the finding is established - no point in waiting for the rest
				continue
			}
			var opts []func(*graph.Options)
			if dir == 1 {
				opts = append(opts, graph.InReverseOrder)
			}
			done := make(chan error, 1)
			go func() {
				done <- graph.InDependencyOrder(context.Background(), p, func(context.Context, string, types.ServiceConfig) error {
					atomic.AddInt32(&visits, 1)
					return nil
				}, opts...)
			}()
			var err error
			select {
			case err = <-done:
			case <-time.After(10 * time.Second):
				err = errors.New("timeout")
				hangs++
				c.Report(core.Finding{Sig: "cycle-hang", Detail: fmt.Sprintf("walk of graph %v did not return", v.Edges), Replay: v})
			}
			ccErr := graph.CheckCycle(p)
			c.Eval(fmt.Sprintf("cycle %d %v %d", v.N, v.Edges, dir), len(v.Edges) > 0)
			if v.Cyclic {
				if err == nil || ccErr == nil {
					c.Report(core.Finding{Sig: "cycle-accepted", Detail: fmt.Sprintf("cyclic graph %v (n=%d) accepted: walk err=%v CheckCycle err=%v", v.Edges, v.N, err, ccErr), Replay: v})
				}
				if atomic.LoadInt32(&visits) != 0 {
					c.Report(core.Finding{Sig: "cycle-visited", Detail: fmt.Sprintf("cyclic graph %v: %d visits before the error", v.Edges, visits), Replay: v})
				}
			} else if err != nil || ccErr != nil {
				c.Report(core.Finding{Sig: "acyclic-rejected", Detail: fmt.Sprintf("acyclic graph %v (n=%d) rejected: %v / %v", v.Edges, v.N, err, ccErr), Replay: v})
			}
		}
		if v.Cyclic {
			cyc++
		}
		return nil
	})
	if err != nil {
		c.Inconclusive("cycle vectors: " + err.Error())
	}
	c.Set("cycle_digraphs", map[string]interface{}{"max_nodes": maxN, "digraphs": n, "cyclic": cyc, "exhaustive": true})
	c.AddTraces(int64(n))
}

// c13Validate lets TLC check that the recorded executions are behaviours of Traversal.
func c13Validate(c *core.Ctx, rng *rand.Rand, runs []c13run) {
	limit := 700
	if !c.Quick() {
		limit = 12000
	}
	idx := rng.Perm(len(runs))
	sort.Ints(idx[:min(limit, len(idx))])
	var sel []sched.Result
	for _, i := range idx[:min(limit, len(idx))] {
		if !runs[i].res.Hang && runs[i].res.Ret != "" {
			sel = append(sel, runs[i].res)
		}
	}
	shards := 1
	if len(sel) > 1500 {
		shards = 12
	}
	type shardRes struct {
		accepted bool
		events   int
		err      error
		out      string
		viol     string
	}
	results := make([]shardRes, shards)
	done := make(chan int, shards)
	for s := 0; s < shards; s++ {
		go func(s int) {
			defer func() { done <- s }()
			var recs []interface{}
			for i := s; i < len(sel); i += shards {
				recs = append(recs, cfgEvent(sel[i].Cfg))
				for _, e := range sel[i].Events {
					recs = append(recs, e)
				}
			}
			results[s].events = len(recs)
			if len(recs) == 0 {
				results[s].accepted = true
				return
			}
			path := filepath.Join(c.Work, fmt.Sprintf("trace-%d.ndjson", s))
			if err := core.WriteNDJSON(path, recs); err != nil {
				results[s].err = err
				return
			}
			r, err := c.RunTLC(core.TLCOpts{Module: "Trace_Traversal", Env: map[string]string{"TRACE": path}, Workers: 1, DFS: true,
				Timeout: 30 * time.Minute, Name: fmt.Sprintf("trace%d", s)})
			if err != nil {
				results[s].err = err
				return
			}
			results[s].accepted = r.Violated == ""
			results[s].viol = r.Violated
			results[s].out = tailStr(r.Output, 1200)
			c.AddTLC(r)
		}(s)
	}
	for s := 0; s < shards; s++ {
		<-done
	}
	events, accepted := 0, true
	for s := range results {
		events += results[s].events
		if results[s].err != nil {
			c.Inconclusive("trace validation failed to run: " + results[s].err.Error())
			return
		}
		if !results[s].accepted {
			accepted = false
			c.Drift(fmt.Sprintf("recorded executions are not behaviours of the specification (%s): %s", results[s].viol, oneLineStr(results[s].out)))
		}
	}
	if accepted {
		c.AddTraces(int64(len(sel)))
	}
	c.Set("code_to_model", map[string]interface{}{"executions_validated_by_tlc": len(sel), "trace_lines": events, "accepted": accepted})
	c.Logf("trace validation: %d executions, %d lines, accepted=%v", len(sel), events, accepted)

	// binding self-test: a corrupted trace must be rejected
	if len(sel) > 0 {
		var recs []interface{}
		var pick *sched.Result
		for i := range sel {
			if sel[i].Cfg.N >= 2 && len(sel[i].Events) > 8 {
				pick = &sel[i]
				break
			}
		}
		if pick != nil {
			recs = append(recs, cfgEvent(pick.Cfg))
			dropped := false
			for _, e := range pick.Events {
				if !dropped && e.Point == "worker.done" {
					dropped = true
					continue
				}
				recs = append(recs, e)
			}
			path := filepath.Join(c.Work, "trace-corrupt.ndjson")
			_ = core.WriteNDJSON(path, recs)
			r, err := c.RunTLC(core.TLCOpts{Module: "Trace_Traversal", Env: map[string]string{"TRACE": path}, Workers: 1, DFS: true, Timeout: 5 * time.Minute, Name: "selftest"})
			if err != nil {
				c.Inconclusive("self-test run failed: " + err.Error())
			} else if r.Violated == "" {
				c.Inconclusive("binding self-test: a trace with a deleted worker.done event was accepted")
			} else {
				c.Set("binding_selftest", "trace with one worker.done line deleted: rejected by TLC ("+r.Violated+")")
			}
		}
	}
}

func oneLineStr(s string) string { return strings.ReplaceAll(s, "\n", " | ") }

func min(a, b int) int {
	if a < b {
		return a
	}
	return b
}
