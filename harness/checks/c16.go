//go:build verif

package checks

import (
	"context"
	"fmt"
	"os"
	"path/filepath"
	"strings"
	"time"

	"github.com/compose-spec/compose-go/v2/loader"
	"github.com/compose-spec/compose-go/v2/types"

	"verif/harness/internal/core"
)

func init() { Register("C16", "model_checking", C16) }

type c16File struct {
	State string
	K     optVal
	R     bool
}

func c16Files(v interface{}) []c16File {
	var r []c16File
	for _, x := range asList(v) {
		m := asMap(x)
		r = append(r, c16File{asStr(m["state"]), optOf(m["k"]), asBool(m["r"])})
	}
	return r
}

func C16(c *core.Ctx) {
	c.Assumption("TLC 1.8.0; spec/files/EnvLayers.tla written from the documented layering; replay through loader.LoadWithContext with real env/label files")
	maxFiles := 2
	if !c.Quick() {
		maxFiles = 3
	}
	dump := filepath.Join(c.Work, "layers")
	r, err := c.RunTLC(core.TLCOpts{Module: "MC_EnvLayers", CfgText: fmt.Sprintf("SPECIFICATION Spec\nCONSTANTS MaxFiles = %d\n Product = %s\nINVARIANTS LawsHold\nCHECK_DEADLOCK FALSE\n", maxFiles, map[bool]string{true: "FALSE", false: "TRUE"}[c.Quick()]), Dump: dump, Timeout: 30 * time.Minute, Name: "layers"})
	if err != nil {
		c.Inconclusive("MC_EnvLayers failed: " + err.Error())
		return
	}
	c.AddTLC(r)
	if r.Violated != "" {
		c.Inconclusive("EnvLayers specification violates " + r.Violated)
		return
	}
	root := filepath.Join(c.Work, "dirs")
	n := 0
	_, err = core.ReadDump(dump+".dump", func(vars map[string]interface{}) error {
		cs := asMap(vars["cs"])
		if _, seed := cs["seed"]; seed {
			return nil
		}
		n++
		dir := filepath.Join(root, fmt.Sprint(n))
		if err := os.MkdirAll(dir, 0o755); err != nil {
			return err
		}
		defer os.RemoveAll(dir)
		files, lfiles := c16Files(cs["files"]), c16Files(cs["lfiles"])
		penv, entry, lentry, discard := optOf(cs["penv"]), asStr(cs["entry"]), asStr(cs["lentry"]), asBool(cs["discard"])
		var sb strings.Builder
		sb.WriteString("services:\n  a:\n    image: img\n")
		if len(files) > 0 {
			sb.WriteString("    env_file:\n")
		}
		for i, f := range files {
			name := fmt.Sprintf("f%d.env", i+1)
			// the flag as a boolean, as a quoted string, and through a variable with a default (the schema admits all three)
			req := fmt.Sprint(f.State != "missing-optional")
			switch (n + i) % 3 {
			case 1:
				req = `"` + req + `"`
			case 2:
				req = `"${REQ_UNSET_` + fmt.Sprint(i) + `:-` + req + `}"`
			}
			fmt.Fprintf(&sb, "      - path: ./%s\n        required: %s\n", name, req)
			if f.State == "present" {
				body := fmt.Sprintf("OTHER%d=o%d\n", i+1, i+1)
				if f.K.Set {
					body += "K=" + f.K.V + "\n"
				}
				if f.R {
					body += "R=${K}\n"
				}
				if (n+i)%5 == 2 {
					// the file reached through a symbolic link
					_ = os.WriteFile(filepath.Join(dir, "real-"+name), []byte(body), 0o644)
					if os.Symlink("real-"+name, filepath.Join(dir, name)) != nil {
						_ = os.WriteFile(filepath.Join(dir, name), []byte(body), 0o644)
					}
				} else {
					_ = os.WriteFile(filepath.Join(dir, name), []byte(body), 0o644)
				}
			} else if (n+i)%3 == 0 {
				// missing as a link whose target does not exist (there is no such file, whatever the directory lists)
				_ = os.Symlink("gone-"+name, filepath.Join(dir, name))
			}
		}
		repeat := asBool(cs["repeat"])
		if repeat { // the first env file once more, at the end of the list
			fmt.Fprintf(&sb, "      - path: ./f1.env\n        required: true\n")
		}
		switch entry {
		case "value":
			sb.WriteString("    environment:\n      - K=e\n")
		case "empty":
			sb.WriteString("    environment:\n      - K=\n")
		case "valueless":
			sb.WriteString("    environment:\n      - K\n")
		}
		if len(lfiles) > 0 {
			sb.WriteString("    label_file:\n")
		}
		for i, f := range lfiles {
			name := fmt.Sprintf("l%d.label", i+1)
			fmt.Fprintf(&sb, "      - ./%s\n", name)
			if f.State == "present" {
				body := fmt.Sprintf("other%d=o\n", i+1)
				if f.K.Set {
					body += "K=" + f.K.V + "\n"
				}
				if f.R {
					body += "R=${K}\n"
				}
				_ = os.WriteFile(filepath.Join(dir, name), []byte(body), 0o644)
			} else if (n+i)%3 == 1 {
				_ = os.Symlink("gone-"+name, filepath.Join(dir, name))
			}
		}
		if lentry == "value" {
			sb.WriteString("    labels:\n      K: e\n")
		}
		// service b: a file of its own, then the last file of a
		sb.WriteString("  b:\n    image: img\n    env_file:\n      - path: ./fb.env\n")
		_ = os.WriteFile(filepath.Join(dir, "fb.env"), []byte("K=fb\n"), 0o644)
		if len(files) > 0 {
			fmt.Fprintf(&sb, "      - path: ./f%d.env\n        required: %v\n", len(files), files[len(files)-1].State != "missing-optional")
		}
		sb.WriteString("    label_file:\n      - ./lb.label\n")
		_ = os.WriteFile(filepath.Join(dir, "lb.label"), []byte("K=lb\n"), 0o644)
		if len(lfiles) > 0 {
			fmt.Fprintf(&sb, "      - ./l%d.label\n", len(lfiles))
		}
		// service r: keys written more than once in one list (the later entry of a key is the entry - Merge.tla, SeqToKV)
		sb.WriteString("  r:\n    image: img\n    environment: [R1=0, R1=1, R2=a, R3=x, R2=b]\n    labels: [R1=0, R1=1, R2=a, R3=x, R2=b]\n")
		doc := sb.String()
		env := types.Mapping{}
		if penv.Set {
			env["K"] = penv.V
		}
		key := fmt.Sprintf("penv=%v files=%v environment:%s discard=%v label_files=%v labels:%s", penv, files, entry, discard, lfiles, lentry)
		if repeat {
			key += " first-file-repeated-last"
		}
		c.Eval(key, len(files)+len(lfiles) > 0)
		opts := []func(*loader.Options){func(o *loader.Options) { o.SetProjectName("proj", true) }}
		if discard {
			opts = append(opts, loader.WithDiscardEnvFiles)
		}
		p, err := loader.LoadWithContext(context.Background(), types.ConfigDetails{WorkingDir: dir, Environment: env,
			ConfigFiles: []types.ConfigFile{{Filename: filepath.Join(dir, "compose.yaml"), Content: []byte(doc)}}}, opts...)
		fail := func(sig, d string) {
			if repeat {
				sig = "repeated-env-file:" + sig
			}
			c.Report(core.Finding{Sig: sig, Detail: d + " — " + key, Replay: map[string]interface{}{"document": doc, "case": key}})
		}
		if n%613 == 1 {
			c.Sample(map[string]interface{}{"case": key, "document": doc, "spec_K": cs["k"], "spec_R": cs["r"], "spec_error": cs["error"]})
		}
		if asBool(cs["error"]) {
			if err == nil {
				fail("missing-file-accepted", "a required env/label file is missing but the load succeeds")
			} else if !strings.Contains(err.Error(), ".env") && !strings.Contains(err.Error(), ".label") {
				fail("missing-file-unnamed", "the error does not name the missing file: "+err.Error())
			}
			return nil
		}
		if err != nil {
			fail("load-error", "load fails: "+err.Error())
			return nil
		}
		s := p.Services["a"]
		check := func(what string, got *string, has bool, want map[string]interface{}) {
			w := optOf(want)
			switch {
			case !w.Set:
				if has {
					fail("layering:"+what, fmt.Sprintf("%s is present (%v) but no layer defines it", what, deref(got)))
				}
			case w.V == "<nil>":
				if !has || got != nil {
					fail("layering:"+what, fmt.Sprintf("%s should be present without value, got present=%v value=%v", what, has, deref(got)))
				}
			default:
				if !has || got == nil || *got != w.V {
					fail("layering:"+what, fmt.Sprintf("%s = %v (present %v); the layering rules define %q", what, deref(got), has, w.V))
				}
			}
		}
		if r := p.Services["r"]; true {
			ev := func(k string) string {
				if v := r.Environment[k]; v != nil {
					return *v
				}
				return "<none>"
			}
			got := fmt.Sprintf("%d %s %s %s | %d %s %s %s", len(r.Environment), ev("R1"), ev("R2"), ev("R3"), len(r.Labels), r.Labels["R1"], r.Labels["R2"], r.Labels["R3"])
			if want := "3 1 b x | 3 1 b x"; got != want {
				fail("layering:repeated-keys", fmt.Sprintf("environment / labels [R1=0, R1=1, R2=a, R3=x, R2=b] load as %s; one entry per key, the later one: %s", got, want))
			}
		}
		gk, hk := s.Environment["K"]
		check("environment K", gk, hk, asMap(cs["k"]))
		gr, hr := s.Environment["R"]
		check("environment R", gr, hr, asMap(cs["r"]))
		for i, f := range files {
			if f.State == "present" {
				if v, ok := s.Environment[fmt.Sprintf("OTHER%d", i+1)]; !ok || v == nil || *v != fmt.Sprintf("o%d", i+1) {
					fail("layering:file-entry-lost", fmt.Sprintf("entry OTHER%d of env file %d is missing from the environment", i+1, i+1))
				}
			}
		}
		lw := optOf(cs["label"])
		gl, hl := s.Labels["K"]
		if hl != lw.Set || gl != lw.V {
			fail("layering:label", fmt.Sprintf("label K = %q (present %v); the layering rules define %q (present %v)", gl, hl, lw.V, lw.Set))
		}
		glr, hlr := s.Labels["R"]
		if lrw := optOf(cs["labelr"]); hlr != lrw.Set || glr != lrw.V {
			fail("layering:label-reference", fmt.Sprintf("label R (written R=${K} in a label file) = %q (present %v); the layering rules define %q (present %v)", glr, hlr, lrw.V, lrw.Set))
		}
		// the second service is layered from its own list
		sbv := p.Services["b"]
		gkb, hkb := sbv.Environment["K"]
		check("environment K of the second service", gkb, hkb, asMap(cs["kb"]))
		grb, hrb := sbv.Environment["R"]
		check("environment R of the second service", grb, hrb, asMap(cs["rb"]))
		for _, x := range [][2]string{{"K", "labelb"}, {"R", "labelrb"}} {
			w := optOf(cs[x[1]])
			g, h := sbv.Labels[x[0]]
			if h != w.Set || g != w.V {
				fail("layering:label of the second service", fmt.Sprintf("label %s of the second service = %q (present %v); the layering rules define %q (present %v)", x[0], g, h, w.V, w.Set))
			}
		}
		// the same service left out by an inactive profile at load and enabled afterwards: its environment is layered then
		if n%4 == 1 && !repeat { // (a file listed twice is the known finding C16-repeated-env-file-position, reported by the load above)
			doc2 := strings.Replace(doc, "  a:\n    image: img\n", "  a:\n    image: img\n    profiles: [late]\n", 1)
			pl, errl := loader.LoadWithContext(context.Background(), types.ConfigDetails{WorkingDir: dir, Environment: env,
				ConfigFiles: []types.ConfigFile{{Filename: filepath.Join(dir, "compose.yaml"), Content: []byte(doc2)}}}, opts...)
			c.Eval(key+" [enabled after load]", len(files) > 0)
			if errl != nil {
				fail("enabled-later", "with service a under an inactive profile the load fails: "+errl.Error())
			} else if q, errq := pl.WithServicesEnabled("a"); errq != nil {
				fail("enabled-later", "enabling service a after the load fails: "+errq.Error())
			} else {
				sq := q.Services["a"]
				gq, hq := sq.Environment["K"]
				check("environment K of the service enabled after load", gq, hq, asMap(cs["k"]))
				gq, hq = sq.Environment["R"]
				check("environment R of the service enabled after load", gq, hq, asMap(cs["r"]))
			}
		}
		// labels are layered whether or not the services' environment is resolved (SkipResolveEnvironment concerns `environment` only)
		if n%3 == 0 {
			optsNoEnv := append(append([]func(*loader.Options){}, opts...), func(o *loader.Options) { o.SkipResolveEnvironment = true })
			pn, errn := loader.LoadWithContext(context.Background(), types.ConfigDetails{WorkingDir: dir, Environment: env,
				ConfigFiles: []types.ConfigFile{{Filename: filepath.Join(dir, "compose.yaml"), Content: []byte(doc)}}}, optsNoEnv...)
			c.Eval(key+" [environment resolution off]", len(lfiles) > 0)
			if errn != nil {
				fail("labels-without-environment-resolution", "with SkipResolveEnvironment the load fails: "+errn.Error())
			} else {
				sn := pn.Services["a"]
				if g, h := sn.Labels["K"]; h != lw.Set || g != lw.V {
					fail("labels-without-environment-resolution", fmt.Sprintf("with SkipResolveEnvironment label K = %q (present %v); the layering rules define %q (present %v)", g, h, lw.V, lw.Set))
				}
				if discard && len(sn.LabelFiles) != 0 {
					fail("labels-without-environment-resolution", "with SkipResolveEnvironment and the discard option the label_file references survive")
				}
			}
		}
		if discard {
			if len(s.EnvFiles) != 0 {
				fail("discard", "env_file references survive the discard option")
			}
		} else if len(s.EnvFiles) != len(files) && !repeat {
			fail("discard", fmt.Sprintf("%d env_file references kept, %d declared (discard off)", len(s.EnvFiles), len(files)))
		}
		return nil
	})
	if err != nil {
		c.Inconclusive("replay: " + err.Error())
		return
	}
	c.AddTraces(int64(n))
	c.Set("cases", n)
	c.Set("exhaustive", true)
	c.Logf("%d layering cases replayed", n)
	c.Set("rule", "a case is one assignment of key K to the layers {project environment, env_file 1..2 (3) with presence/required flags and an optional reference line, environment entry of each kind, label files, labels} x discard; non-trivial when at least one file layer exists")
}

func deref(s *string) string {
	if s == nil {
		return "<nil>"
	}
	return fmt.Sprintf("%q", *s)
}
