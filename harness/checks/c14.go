//go:build verif

package checks

import (
	"fmt"
	"math/rand"
	"os"
	"path/filepath"
	"sort"
	"strings"
	"time"

	"github.com/compose-spec/compose-go/v2/types"
	"github.com/distribution/reference"
	godigest "github.com/opencontainers/go-digest"

	"verif/harness/internal/core"
	"verif/harness/internal/proj"
)

func init() { Register("C14", "model_checking", C14) }

// fullProject builds a project in which every field of every model type is non-zero (reflection-driven) and
// which is coherent enough for every derivation to succeed.
func fullProject(work string, nsvc int) *types.Project {
	p := &types.Project{}
	proj.Populate(p)
	envFile := filepath.Join(work, "svc.env")
	labelFile := filepath.Join(work, "svc.labels")
	_ = os.WriteFile(envFile, []byte("FROM_FILE=1\nOTHER=${FROM_FILE}x\n"), 0o644)
	_ = os.WriteFile(labelFile, []byte("com.label=fromfile\n"), 0o644)
	var tmplKey string
	for k := range p.Services {
		tmplKey = k
	}
	_ = tmplKey
	p.Services = types.Services{}
	p.DisabledServices = types.Services{}
	netKeys, volKeys, secKeys, cfgKeys := map[string]bool{}, map[string]bool{}, map[string]bool{}, map[string]bool{}
	for i := 1; i <= nsvc; i++ {
		var s types.ServiceConfig
		proj.Populate(&s)
		s.Name = svcName(i)
		s.Image = fmt.Sprintf("registry.example/img%d:1", i)
		s.Extends = nil
		s.DependsOn = types.DependsOnConfig{}
		if i > 1 {
			s.DependsOn[svcName(i-1)] = types.ServiceDependency{Condition: types.ServiceConditionStarted, Required: i%2 == 0, Restart: true}
		}
		if i > 2 {
			s.DependsOn[svcName(1)] = types.ServiceDependency{Condition: types.ServiceConditionHealthy, Required: true}
		}
		if i <= 2 {
			// an optional dependency on a service the project does not have (a disabled or absent one is tolerated when optional)
			s.DependsOn["ghost"] = types.ServiceDependency{Condition: types.ServiceConditionStarted, Required: false}
		}
		s.Profiles = nil
		if i == nsvc {
			s.Profiles = []string{"zeta", "extra"} // not in sorted order: an operation handed this slice must leave it as it is
		}
		s.EnvFiles = []types.EnvFile{{Path: envFile, Required: true}}
		s.LabelFiles = []string{labelFile}
		for j := range s.Volumes {
			s.Volumes[j].Type = types.VolumeTypeVolume
		}
		for k := range s.Networks {
			netKeys[k] = true
		}
		for _, v := range s.Volumes {
			volKeys[v.Source] = true
		}
		for _, v := range s.Secrets {
			secKeys[v.Source] = true
		}
		if s.Build != nil {
			for _, v := range s.Build.Secrets {
				secKeys[v.Source] = true
			}
		}
		for _, v := range s.Configs {
			cfgKeys[v.Source] = true
		}
		// an extension declared without a value is an entry like any other
		if s.Extensions == nil {
			s.Extensions = types.Extensions{}
		}
		s.Extensions["x-declared-empty"] = nil
		p.Services[s.Name] = s
	}
	if p.Extensions == nil {
		p.Extensions = types.Extensions{}
	}
	p.Extensions["x-declared-empty"] = nil
	one := func(m interface{}) {}
	_ = one
	// declare what the services use (taking the populated resource values), plus the populated unused entry
	var n0 types.NetworkConfig
	for _, v := range p.Networks {
		n0 = v
	}
	for k := range netKeys {
		c := n0
		proj.Populate(&c)
		p.Networks[k] = c
	}
	for k := range volKeys {
		var c types.VolumeConfig
		proj.Populate(&c)
		p.Volumes[k] = c
	}
	for k := range secKeys {
		var c types.SecretConfig
		proj.Populate(&c)
		p.Secrets[k] = c
	}
	for k := range cfgKeys {
		var c types.ConfigObjConfig
		proj.Populate(&c)
		p.Configs[k] = c
	}
	p.Profiles = []string{"", "zeta", "extra"} // as COMPOSE_PROFILES=",zeta,extra" gives: a blank entry, not in sorted order
	return p
}

type c14Op struct {
	Name string
	Fn   func(p *types.Project) (*types.Project, error)
}

func c14Ops(rng *rand.Rand, nsvc int, empty bool) []c14Op {
	pick := func() []string {
		var r []string
		if empty || rng.Intn(6) == 0 { // no names at all (the operations have early returns for this)
			return nil
		}
		for i := 1; i <= nsvc; i++ {
			if rng.Intn(2) == 0 {
				r = append(r, svcName(i))
			}
		}
		if len(r) == 0 {
			r = []string{svcName(1 + rng.Intn(nsvc))}
		}
		return r
	}
	return []c14Op{
		{"WithProfiles", func(p *types.Project) (*types.Project, error) {
			return p.WithProfiles([][]string{{}, {"extra"}, {"*"}}[rng.Intn(3)])
		}},
		// the argument is a slice of the receiver itself: the result must not keep it
		{"WithProfiles(own)", func(p *types.Project) (*types.Project, error) {
			if len(p.Profiles) == 0 {
				q, err := p.WithProfiles([]string{"", "more", "extra"}) // (a blank entry, as COMPOSE_PROFILES=",more,extra" gives)
				if err != nil {
					return nil, err
				}
				return q.WithProfiles(q.Profiles)
			}
			return p.WithProfiles(p.Profiles)
		}},
		// the argument is the profile list of one of the receiver's own services
		{"WithProfiles(service)", func(p *types.Project) (*types.Project, error) {
			for _, svcs := range []types.Services{p.DisabledServices, p.Services} {
				for _, n := range sortedNames(svcs) {
					if len(svcs[n].Profiles) > 1 {
						return p.WithProfiles(svcs[n].Profiles)
					}
				}
			}
			return p.WithProfiles([]string{"zeta", "extra"})
		}},
		{"WithServicesEnabled", func(p *types.Project) (*types.Project, error) { return p.WithServicesEnabled(pick()...) }},
		{"WithServicesDisabled", func(p *types.Project) (*types.Project, error) { return p.WithServicesDisabled(pick()...), nil }},
		// services that are already disabled, and a name the project does not have: both are left as they are
		{"WithServicesDisabled(again)", func(p *types.Project) (*types.Project, error) {
			names := pick()
			return p.WithServicesDisabled(names...).WithServicesDisabled(append(append([]string{}, names...), "ghost")...), nil
		}},
		{"WithSelectedServices", func(p *types.Project) (*types.Project, error) {
			names := pick()
			opt := []types.DependencyOption{types.IncludeDependencies, types.IncludeDependents, types.IgnoreDependencies}[rng.Intn(3)]
			q, err := p.WithSelectedServices(names, opt)
			if err != nil { // a named service may be disabled at this point: select among the enabled ones instead
				var en []string
				for k := range p.Services {
					en = append(en, k)
				}
				sort.Strings(en)
				if len(en) == 0 {
					return p.WithSelectedServices(nil)
				}
				return p.WithSelectedServices(en[:1], types.IgnoreDependencies)
			}
			return q, nil
		}},
		{"WithoutUnnecessaryResources", func(p *types.Project) (*types.Project, error) { return p.WithoutUnnecessaryResources(), nil }},
		{"WithImagesResolved", func(p *types.Project) (*types.Project, error) {
			return p.WithImagesResolved(func(named reference.Named) (godigest.Digest, error) {
				return godigest.FromString(named.String()), nil
			})
		}},
		{"WithServicesTransform", func(p *types.Project) (*types.Project, error) {
			return p.WithServicesTransform(func(name string, s types.ServiceConfig) (types.ServiceConfig, error) {
				s.Image = s.Image + "-t"
				if s.Labels != nil {
					s.Labels["transform"] = "yes"
				}
				return s, nil
			})
		}},
		{"WithServicesEnvironmentResolved", func(p *types.Project) (*types.Project, error) {
			return p.WithServicesEnvironmentResolved(rng.Intn(2) == 0)
		}},
		{"WithServicesLabelsResolved", func(p *types.Project) (*types.Project, error) {
			return p.WithServicesLabelsResolved(rng.Intn(2) == 0)
		}},
		// with the file references discarded: applied to its own result there is no file left to read
		{"WithServicesLabelsResolved(discard)", func(p *types.Project) (*types.Project, error) { return p.WithServicesLabelsResolved(true) }},
		{"WithServicesEnvironmentResolved(discard)", func(p *types.Project) (*types.Project, error) { return p.WithServicesEnvironmentResolved(true) }},
	}
}

type c14Event struct {
	Op      string   `json:"op"`
	Before  string   `json:"before"`
	After   string   `json:"after"`
	Shared  []string `json:"shared"`
	Leaks   []string `json:"leaks"`
	TopDiff []string `json:"topdiff"`
	SvcDiff []string `json:"svcdiff"`
	Objects int      `json:"objects"`
	History []string `json:"history"`
}

func sharedObjects(a, b interface{}) []string {
	ra := map[string]bool{}
	for _, o := range proj.Reach(a) {
		if !o.InExt {
			ra[fmt.Sprintf("%s@%x", o.Kind, o.Addr)] = true
		}
	}
	out := []string{}
	for _, o := range proj.Reach(b) {
		if !o.InExt && ra[fmt.Sprintf("%s@%x", o.Kind, o.Addr)] {
			out = append(out, o.Kind+" "+o.Path)
		}
	}
	return out
}

func topAndSvcDiff(r, q *types.Project) (top, svc []string) {
	top, svc = []string{}, []string{}
	fr, fq := proj.FieldDumps(r), proj.FieldDumps(q)
	for k := range fr {
		if fr[k] != fq[k] {
			top = append(top, k)
		}
	}
	sort.Strings(top)
	seen := map[string]bool{}
	ra, qa := r.AllServices(), q.AllServices()
	for name, sr := range ra {
		sq, ok := qa[name]
		if !ok {
			continue
		}
		dr, dq := proj.FieldDumps(&sr), proj.FieldDumps(&sq)
		for k := range dr {
			if dr[k] != dq[k] && !seen[k] {
				seen[k] = true
				svc = append(svc, k)
			}
		}
	}
	sort.Strings(svc)
	return
}

func C14(c *core.Ctx) {
	rng := rand.New(rand.NewSource(c.Seed))
	c.Assumption("TLC 1.8.0; spec/project/Alias.tla (clauses and the table of parts each operation may affect); the reflection walkers of internal/proj are independent of the library's generated deep-copy code")
	// ---- design-level model
	r, err := c.RunTLC(core.TLCOpts{Module: "MC_Alias", CfgText: "SPECIFICATION Spec\nCONSTANTS MaxObj = 8\n MaxProj = 3\n CopyAll = TRUE\nINVARIANTS Isolated\nCHECK_DEADLOCK FALSE\n", Workers: 4, Timeout: 10 * time.Minute, Name: "mc"})
	if err != nil {
		c.Inconclusive("MC_Alias failed: " + err.Error())
		return
	}
	c.AddTLC(r)
	if r.Violated != "" {
		c.Inconclusive("MC_Alias violates " + r.Violated)
		return
	}
	r2, err := c.RunTLC(core.TLCOpts{Module: "MC_Alias", Cfg: "MC_Alias_bad.cfg", CfgText: "SPECIFICATION Spec\nCONSTANTS MaxObj = 8\n MaxProj = 3\n CopyAll = FALSE\nINVARIANTS Isolated\nCHECK_DEADLOCK FALSE\n", Workers: 1, Timeout: 10 * time.Minute, Name: "mcbad"})
	if err != nil {
		c.Inconclusive("MC_Alias (sharing variant) failed: " + err.Error())
		return
	}
	c.Set("mc_alias", map[string]interface{}{"distinct": r.Distinct, "sharing_variant_violates": r2.Violated})
	if r2.Violated != "Isolated" {
		c.Inconclusive("vacuity: the model with a derivation that re-uses a receiver object does not violate Isolated")
		return
	}

	// ---- real derivations, recorded
	nseq, maxLen := 60, 3
	if !c.Quick() {
		nseq, maxLen = 1500, 4
	}
	var events []c14Event
	for s := 0; s < nseq; s++ {
		nsvc := 2 + rng.Intn(3)
		cur := fullProject(c.Work, nsvc)
		if s == 0 {
			c.Set("populated_project_objects", len(proj.Reach(cur)))
		}
		if s%3 == 2 {
			cur.DisabledServices = nil // a project nothing has been disabled in yet (hand-built, or before any profile selection)
		}
		produced := []*types.Project{cur}
		dumps := []string{proj.Dump(cur)}
		var hist []string
		ops := c14Ops(rng, nsvc, false)
		for step := 0; step < maxLen; step++ {
			if c.Quick() && s >= len(ops) && s < 2*len(ops) && step > 0 {
				break // the no-name variants: one step each in the quick tier
			}
			op := ops[rng.Intn(len(ops))]
			empty := false
			if s < len(ops) && step <= 1 {
				// every operation at least once on the fully populated project, and once more on its own result (an operation
				// that finds nothing left to do must still return a project of its own)
				op = ops[s]
			} else if s < 2*len(ops) && step == 0 {
				op, empty = ops[s-len(ops)], true // and once without any name
			}
			seedA := rng.Int63()
			before := proj.Dump(cur)
			// the same random arguments for both applications
			rs := rand.New(rand.NewSource(seedA))
			opsA := c14Ops(rs, nsvc, empty)
			var opA c14Op
			for _, o := range opsA {
				if o.Name == op.Name {
					opA = o
				}
			}
			victim, err := opA.Fn(cur)
			if err != nil {
				c.Logf("%s failed on the populated project: %v", op.Name, err)
				continue
			}
			rs2 := rand.New(rand.NewSource(seedA))
			var opB c14Op
			for _, o := range c14Ops(rs2, nsvc, empty) {
				if o.Name == op.Name {
					opB = o
				}
			}
			clean, _ := opB.Fn(cur)
			after := proj.Dump(cur)
			ev := c14Event{Op: strings.TrimSuffix(strings.TrimSuffix(strings.TrimSuffix(strings.TrimSuffix(op.Name, "(own)"), "(again)"), "(discard)"), "(service)"), Before: core.HashStr(before), After: core.HashStr(after), History: append(append([]string{}, hist...), op.Name)}
			ev.Shared = sharedObjects(cur, victim)
			ev.TopDiff, ev.SvcDiff = topAndSvcDiff(cur, victim)
			ev.Leaks = []string{}
			objs := proj.Reach(victim)
			ev.Objects = len(objs)
			// mutate every object reachable from the result at once; if an earlier project changes, find one witness by
			// bisection over the object paths on freshly derived results (one dump comparison per round instead of one per object)
			mutateSet := func(v *types.Project, only map[string]bool) {
				for _, o := range proj.Reach(v) {
					if !o.InExt && (only == nil || only[o.Kind+" "+o.Path]) {
						proj.Mutate(o)
					}
				}
			}
			changed := func() bool {
				for k, pp := range produced {
					if proj.Dump(pp) != dumps[k] {
						return true
					}
				}
				return false
			}
			mutateSet(victim, nil)
			if changed() {
				var cand []string
				for _, o := range objs {
					if !o.InExt {
						cand = append(cand, o.Kind+" "+o.Path)
					}
				}
				sort.Strings(cand)
				for round := 0; len(cand) > 1 && round < 16; round++ {
					for k, pp := range produced { // the receiver is damaged by now: compare against its current state
						dumps[k] = proj.Dump(pp)
					}
					var again c14Op
					for _, o := range c14Ops(rand.New(rand.NewSource(seedA)), nsvc, empty) {
						if o.Name == op.Name {
							again = o
						}
					}
					v2, err2 := again.Fn(cur)
					if err2 != nil || v2 == nil {
						break
					}
					half := map[string]bool{}
					for _, x := range cand[:len(cand)/2] {
						half[x] = true
					}
					mutateSet(v2, half)
					if changed() {
						cand = cand[:len(cand)/2]
					} else {
						cand = cand[len(cand)/2:]
					}
				}
				ev.Leaks = append(ev.Leaks, cand[0])
			}
			events = append(events, ev)
			c.Eval(strings.Join(ev.History, ">")+fmt.Sprint(seedA), true)
			if len(ev.Leaks) > 0 {
				break // start again from a fresh project
			}
			hist = append(hist, op.Name)
			if clean != nil {
				cur = clean
				produced = append(produced, cur)
				dumps = append(dumps, proj.Dump(cur))
			}
		}
		// visitors and renderers
		base := produced[0]
		before := proj.Dump(base)
		var names []string
		for k := range base.Services {
			names = append(names, k)
		}
		// visiting by name, visiting everything (no names), with and without following dependencies
		for vi, vnames := range [][]string{names, nil, names[:1]} {
			var vopts []types.DependencyOption
			if vi == 2 {
				vopts = []types.DependencyOption{[]types.DependencyOption{types.IncludeDependencies, types.IncludeDependents, types.IgnoreDependencies}[s%3]}
			}
			evv := c14Event{Op: "ForEachService", Before: core.HashStr(before), Shared: []string{}, Leaks: []string{}, TopDiff: []string{}, SvcDiff: []string{}, History: []string{"ForEachService"}}
			_ = base.ForEachService(vnames, func(name string, svc *types.ServiceConfig) error {
				evv.Shared = append(evv.Shared, sharedObjects(base, svc)...)
				for _, o := range proj.Reach(svc) {
					if !o.InExt {
						proj.Mutate(o)
					}
				}
				svc.Image = "changed-by-visitor"
				return nil
			}, vopts...)
			evv.After = core.HashStr(proj.Dump(base))
			events = append(events, evv)
		}
		for _, m := range []string{"MarshalYAML", "MarshalJSON"} {
			b0 := proj.Dump(base)
			if m == "MarshalYAML" {
				_, _ = base.MarshalYAML()
				_, _ = base.MarshalYAML(types.WithSecretContent)
			} else {
				_, _ = base.MarshalJSON()
				_, _ = base.MarshalJSON(types.WithSecretContent)
			}
			events = append(events, c14Event{Op: m, Before: core.HashStr(b0), After: core.HashStr(proj.Dump(base)), Shared: []string{}, Leaks: []string{}, TopDiff: []string{}, SvcDiff: []string{}, History: []string{m}})
		}
	}
	// ---- TLC judges the recorded derivations
	var recs []interface{}
	for _, e := range events {
		recs = append(recs, e)
	}
	path := filepath.Join(c.Work, "alias.ndjson")
	if err := core.WriteNDJSON(path, recs); err != nil {
		c.Inconclusive(err.Error())
		return
	}
	rj, err := c.RunTLC(core.TLCOpts{Module: "Trace_Alias", Env: map[string]string{"TRACE": path}, Workers: 1, Timeout: 20 * time.Minute, Name: "judge"})
	if err != nil {
		c.Inconclusive("Trace_Alias failed: " + err.Error())
		return
	}
	c.AddTLC(rj)
	v, found := core.FindPrinted(rj.Output, "VERDICTS")
	if !found || asInt(asList(v)[1]) != len(events) {
		c.Inconclusive("Trace_Alias did not judge every event: " + tailStr(rj.Output, 400))
		return
	}
	for _, b := range asList(asList(v)[2]) {
		t := asList(b)
		e := events[asInt(t[0])-1]
		var what []string
		if !asBool(t[1]) {
			what = append(what, "receiver-modified")
		}
		if !asBool(t[2]) {
			what = append(what, "shares-state")
		}
		if !asBool(t[3]) {
			what = append(what, "field-not-carried")
		}
		c.Report(core.Finding{Sig: strings.Join(what, "+") + ":" + e.Op,
			Detail: fmt.Sprintf("%s (after %v): shared objects %v; mutation of result object %v shows in an earlier project; fields differing beyond what the operation concerns: top %v, service %v; receiver hash %s -> %s",
				e.Op, e.History, headN(e.Shared, 6), e.Leaks, e.TopDiff, e.SvcDiff, e.Before, e.After), Replay: e})
	}
	c.AddTraces(int64(len(events)))
	c.Set("derivations_recorded", len(events))
	if len(events) > 0 {
		c.Sample(events[0])
	}
	c.Logf("%d derivations recorded and judged", len(events))
	c.Set("rule", "a case is one derivation of a real project in which every field is populated by reflection (after a history of up to 3 (4) earlier derivations), followed by a mutation of every reachable map/slice/pointer of its result; all are non-trivial")
}

func headN(s []string, n int) []string {
	if len(s) > n {
		return append(append([]string{}, s[:n]...), fmt.Sprintf("… %d more", len(s)-n))
	}
	return s
}

func sortedNames(s types.Services) []string {
	var out []string
	for k := range s {
		out = append(out, k)
	}
	sort.Strings(out)
	return out
}
