//go:build verif

package checks

import (
	"context"
	"crypto/sha256"
	"encoding/hex"
	"encoding/json"
	"fmt"
	"github.com/compose-spec/compose-go/v2/cli"
	"github.com/compose-spec/compose-go/v2/types"
	yaml "gopkg.in/yaml.v3"
	"os"
	"os/exec"
	"path/filepath"
	"sort"
	"strings"
	"time"

	"github.com/compose-spec/compose-go/v2/loader"
	"github.com/compose-spec/compose-go/v2/override"
	"github.com/compose-spec/compose-go/v2/paths"
	"github.com/compose-spec/compose-go/v2/transform"
	"github.com/compose-spec/compose-go/v2/validation"

	"verif/harness/internal/core"
)

func init() {
	Register("C02", "model_checking", C02)
	Sub["C02-worker"] = c02Worker
}

type c02Input struct {
	Name  string            `json:"name"`
	Dir   string            `json:"dir"`
	Files []namedDoc        `json:"files"`
	Env   map[string]string `json:"env"`
	Reps  int               `json:"reps"` // repeat factor (inputs whose processing order depends on map iteration)
	// Parsed: the documents are handed to the loader already parsed (ConfigFile.Config), the same parsed value at every load of
	// this input in this process, as an application that parses once and loads repeatedly does; NoInterp: with SkipInterpolation
	Parsed   bool `json:"parsed"`
	NoInterp bool `json:"no_interp"`
}

var c02Parsed = map[string]map[string]interface{}{}

func c02Files(in c02Input) []namedDoc {
	if !in.Parsed {
		return in.Files
	}
	out := make([]namedDoc, len(in.Files))
	for i, d := range in.Files {
		k := in.Name + "|" + d.Name
		if c02Parsed[k] == nil {
			var m map[string]interface{}
			if err := yaml.Unmarshal([]byte(d.Content), &m); err != nil {
				panic(err)
			}
			c02Parsed[k] = m
		}
		out[i] = namedDoc{Name: d.Name, Config: c02Parsed[k]}
	}
	return out
}

func c02Hash(in c02Input) string {
	var opts []func(*loader.Options)
	if in.NoInterp {
		opts = append(opts, func(o *loader.Options) { o.SkipInterpolation = true })
	}
	p, err := safeLoad(in.Dir, in.Env, c02Files(in), opts...)
	if err != nil {
		return "error: " + err.Error() + " | " + c02Model(in)
	}
	y, e1 := p.MarshalYAML()
	j, e2 := p.MarshalJSON()
	if e1 != nil || e2 != nil {
		return fmt.Sprintf("marshal-error: %v %v", e1, e2)
	}
	h := sha256.New()
	h.Write([]byte(projDump(p)))
	h.Write(y)
	h.Write(j)
	h.Write([]byte(c02Model(in)))
	return "ok:" + hex.EncodeToString(h.Sum(nil))[:20]
}

// c02Model is the outcome of LoadModelWithContext on the same input (the dictionary, keys sorted by the JSON encoder).
func c02Model(in c02Input) (out string) {
	defer func() {
		if r := recover(); r != nil {
			out = fmt.Sprintf("model-panic: %v", r)
		}
	}()
	var cfs []types.ConfigFile
	for _, d := range in.Files {
		cf := types.ConfigFile{Filename: d.Name}
		if d.Content != "" || d.InMemory {
			cf.Content = []byte(d.Content)
		}
		cfs = append(cfs, cf)
	}
	env := types.Mapping{}
	for k, v := range in.Env {
		env[k] = v
	}
	m, err := loader.LoadModelWithContext(context.Background(), types.ConfigDetails{WorkingDir: in.Dir, Environment: env, ConfigFiles: cfs}, func(o *loader.Options) { o.SetProjectName("proj", true) })
	if err != nil {
		return "model-error: " + err.Error()
	}
	b, _ := json.Marshal(m)
	return string(b)
}

func c02Worker(args []string) int {
	b, err := os.ReadFile(args[0])
	if err != nil {
		return 2
	}
	var ins []c02Input
	if json.Unmarshal(b, &ins) != nil {
		return 2
	}
	out := map[string]string{}
	for _, in := range ins {
		out[in.Name] = c02Hash(in)
	}
	ob, _ := json.Marshal(out)
	if os.WriteFile(args[1], ob, 0o644) != nil {
		return 2
	}
	return 0
}

func splitSegs(k string) []string { return strings.Split(k, ".") }

func C02(c *core.Ctx) {
	c.Assumption("TLC 1.8.0; spec/loader/Tables.tla decides order-independence of first-match lookups over the rule tables exported by the binary built from /repo (guard verif); repeated and interleaved loads are sampled executions: a Go map range is re-randomised on every load")
	// ---- (i) rule tables: no two patterns of a table can match the same path
	tables := map[string][]string{}
	for _, m := range []map[string][]string{override.VerifTables(), transform.VerifTables(), validation.VerifTables(), loader.VerifTables()} {
		for k, v := range m {
			tables[k] = v
		}
	}
	_ = paths.ResolveRelativePaths(map[string]any{}, "/", nil)
	tables["paths.resolvers"] = paths.VerifResolverKeys()
	var recs []interface{}
	var names []string
	for name := range tables {
		names = append(names, name)
	}
	sort.Strings(names)
	total := 0
	for _, name := range names {
		keys := tables[name]
		sort.Strings(keys)
		var ks [][]string
		for _, k := range keys {
			ks = append(ks, splitSegs(k))
		}
		total += len(ks)
		recs = append(recs, map[string]interface{}{"table": name, "keys": ks})
	}
	if len(names) < 7 || total < 100 {
		c.Drift(fmt.Sprintf("only %d tables / %d patterns exported by the binary: a table hook is missing", len(names), total))
	}
	tp := filepath.Join(c.Work, "tables.ndjson")
	_ = core.WriteNDJSON(tp, recs)
	rt, err := c.RunTLC(core.TLCOpts{Module: "Tables", Env: map[string]string{"TABLES": tp}, Workers: 1, Timeout: 10 * time.Minute, Name: "tables"})
	if err != nil {
		c.Inconclusive("Tables failed: " + err.Error())
		return
	}
	c.AddTLC(rt)
	if v, ok := core.FindPrinted(rt.Output, "TABLES-CHECKED"); !ok || asInt(asList(v)[1]) != len(recs) {
		if rt.Violated == "" {
			c.Inconclusive("Tables did not check every table: " + tailStr(rt.Output, 300))
			return
		}
	}
	if rt.Violated != "" {
		v, _ := core.FindPrinted(rt.Output, "OVERLAP")
		l := asList(v)
		tname := "?"
		if len(l) > 1 {
			tname = asStr(l[1])
		}
		c.Report(core.Finding{Sig: "table-overlap:" + tname, Detail: fmt.Sprintf("table %s has patterns that match a common path, so the rule applied depends on map iteration order: %v", tname, l), Replay: recs})
	}
	c.Set("rule_tables", map[string]interface{}{"tables": len(names), "patterns": total, "exhaustive": true})
	c.Eval("tables", true)
	c.Logf("rule tables: %d tables, %d patterns, overlap-free: %v", len(names), total, rt.Violated == "")

	// ---- (ii) inputs
	var pool []c02Input
	fx, err := c19WriteFixtures(filepath.Join(c.Work, "fix"))
	if err != nil {
		c.Inconclusive(err.Error())
		return
	}
	for _, f := range fx {
		in := c02Input{Name: "fixture:" + f.Name, Dir: f.Dir, Env: f.Env}
		for _, fn := range f.Files {
			in.Files = append(in.Files, namedDoc{Name: filepath.Join(f.Dir, fn)})
		}
		pool = append(pool, in)
	}
	wd := filepath.Join(c.Work, "wd")
	_ = os.MkdirAll(wd, 0o755)
	for _, f := range []string{"a.env", "b.env"} {
		_ = os.WriteFile(filepath.Join(wd, f), []byte("FROMFILE=1\n"), 0o644)
	}
	dump := filepath.Join(c.Work, "docs")
	rd, err := c.RunTLC(core.TLCOpts{Module: "MC_RenderDocs", CfgText: "SPECIFICATION RSpec\nCHECK_DEADLOCK FALSE\n", Dump: dump, Workers: 4, Timeout: 10 * time.Minute, Name: "docs"})
	if err != nil {
		c.Inconclusive("MC_RenderDocs failed: " + err.Error())
		return
	}
	c.AddTLC(rd)
	_, _ = core.ReadDump(dump+".dump", func(vars map[string]interface{}) error {
		m := asMap(vars["doc"])
		pool = append(pool, c02Input{Name: "doc:" + asStr(m["n"]), Dir: wd, Env: map[string]string{"SECVAR": "x"}, Files: []namedDoc{{Name: filepath.Join(wd, "compose.yaml"), Content: yamlOf(m["d"]), InMemory: true}}})
		return nil
	})
	// order-sensitive merges: ipam configs, labels, environment across three files
	pool = append(pool, c02Input{Name: "merge:ipam+labels+env", Dir: wd, Env: map[string]string{}, Files: []namedDoc{
		{Name: filepath.Join(wd, "m1.yaml"), InMemory: true, Content: "services:\n  a: {image: i, environment: [A=1, B=2, C=3], labels: [x=1, y=2], ports: ['80:80', '81:81', '82:82'], cap_add: [A, B, C], dns: [1.1.1.1, 8.8.8.8]}\n  b: {image: i, depends_on: [a]}\n  c: {image: i, depends_on: [a, b]}\n  d: {image: i, depends_on: [a, b, c]}\nnetworks:\n  n: {ipam: {config: [{subnet: 10.0.0.0/24}, {subnet: 10.0.1.0/24}]}, labels: [k1=v1, k2=v2, k3=v3]}\n"},
		{Name: filepath.Join(wd, "m2.yaml"), InMemory: true, Content: "services:\n  a: {environment: {B: 9, D: 4, E: 5}, labels: {y: 9, z: 3, w: 4}, ports: ['83:83', '80:80'], cap_add: [C, D], build: {context: ., ssh: [k1=/p1, k2=/p2, k3=/p3], args: {Z: 1, Y: 2, X: 3}}}\n  d: {depends_on: {a: {condition: service_healthy}, b: {condition: service_completed_successfully, restart: true}, c: {condition: service_started, required: false}}}\nnetworks:\n  n: {ipam: {config: [{subnet: 10.0.1.0/24, gateway: 10.0.1.1}, {subnet: 10.0.2.0/24}]}, labels: {k2: w2, k4: v4}}\n"},
		{Name: filepath.Join(wd, "m3.yaml"), InMemory: true, Content: "services:\n  a: {extra_hosts: {h1: 1.1.1.1, h2: 2.2.2.2, h3: 3.3.3.3}, sysctls: {a.b: 1, c.d: 2, e.f: 3}, secrets: [s1, s2, s3], volumes: ['v1:/a', 'v2:/b', 'v3:/c']}\nsecrets:\n  s1: {file: ./1}\n  s2: {file: ./2}\n  s3: {file: ./3}\nvolumes: {v1: {}, v2: {}, v3: {}}\n"}}})
	// env files shared by several services after per-service files, with references between them
	for f, body := range map[string]string{"api.env": "ROLE=api\nPORT=1\n", "worker.env": "ROLE=worker\nPORT=2\n", "cron.env": "ROLE=cron\n", "shared.env": "QUEUE=jobs-${ROLE}\nADDR=host:${PORT:-0}\n"} {
		_ = os.WriteFile(filepath.Join(wd, f), []byte(body), 0o644)
	}
	pool = append(pool, c02Input{Name: "envfiles:shared-after-own", Dir: wd, Env: map[string]string{}, Files: []namedDoc{{Name: filepath.Join(wd, "e.yaml"), InMemory: true,
		Content: "services:\n  api: {image: i, env_file: [api.env, shared.env]}\n  worker: {image: i, env_file: [worker.env, shared.env]}\n  cron: {image: i, env_file: [cron.env, shared.env], label_file: [shared.env]}\n  plain: {image: i, env_file: [shared.env]}\n"}}})
	// a short depends_on list inherited from a base of the same file and refined entry-wise, each entry differently
	pool = append(pool, c02Input{Name: "extends:short-list-refined", Dir: wd, Env: map[string]string{}, Files: []namedDoc{{Name: filepath.Join(wd, "x.yaml"), InMemory: true,
		Content: "services:\n  base: {image: i, depends_on: [db, cache, queue]}\n  web:\n    extends: {service: base}\n    depends_on:\n      db: {condition: service_healthy}\n      cache: {condition: service_completed_successfully, restart: true}\n      queue: {required: false}\n  worker:\n    extends: {service: base}\n    depends_on: {queue: {condition: service_healthy, restart: true}}\n  db: {image: i}\n  cache: {image: i}\n  queue: {image: i}\n"}}})
	// a service that extends a base of another file and is itself extended by siblings: it is reached through the siblings or
	// on its own, whichever the iteration order of the services gives; overlapping extra_hosts, and a base file whose
	// services refer to each other under names the main file uses too
	_ = os.WriteFile(filepath.Join(wd, "ext-other.yml"), []byte("services:\n  x: {image: i, extra_hosts: ['h1=1.1.1.1'], dns: [1.1.1.1]}\n  mid:\n    extends: base\n    labels: {from: mid}\n  base: {image: other-base, labels: {from: other-base}}\n"), 0o644)
	pool = append(pool, c02Input{Name: "extends:sibling-of-file-based", Dir: wd, Env: map[string]string{}, Reps: 4, Files: []namedDoc{{Name: filepath.Join(wd, "sib.yaml"), InMemory: true,
		Content: "services:\n  a: {extends: b}\n  c: {extends: b}\n  d: {extends: a}\n  b:\n    extends: {file: ext-other.yml, service: x}\n    extra_hosts: ['h1=1.1.1.1', 'h2=2.2.2.2', 'h3=3.3.3.3']\n    dns: [1.1.1.1, 8.8.8.8]\n"}}})
	pool = append(pool, c02Input{Name: "extends:names-reused-in-base-file", Dir: wd, Env: map[string]string{}, Reps: 4, Files: []namedDoc{{Name: filepath.Join(wd, "reuse.yaml"), InMemory: true,
		Content: "services:\n  web: {extends: base}\n  api: {extends: web}\n  base:\n    extends: {file: ext-other.yml, service: mid}\n    labels: {from: main-base}\n"}}})
	// documents parsed once by the application and loaded again and again, with and without interpolation
	for _, ni := range []bool{false, true} {
		pool = append(pool, c02Input{Name: fmt.Sprintf("parsed-once:no-interpolation=%v", ni), Dir: wd, Env: map[string]string{}, Parsed: true, NoInterp: ni, Files: []namedDoc{
			{Name: filepath.Join(wd, "pp1.yaml"), InMemory: true, Content: "services:\n  a: {image: i, ports: ['80:80'], environment: [A=1], volumes: ['./d:/d'], depends_on: [b]}\n  b: {image: i, build: ./ctx}\nnetworks: {n: {}}\n"},
			{Name: filepath.Join(wd, "pp2.yaml"), InMemory: true, Content: "services:\n  a: {environment: {B: '2'}, ports: ['81:81'], networks: [n]}\n"}}})
	}
	// the same in three files: a list added by the second file, refined by the third
	pool = append(pool, c02Input{Name: "merge:short-list-refined", Dir: wd, Env: map[string]string{}, Files: []namedDoc{
		{Name: filepath.Join(wd, "r1.yaml"), InMemory: true, Content: "services:\n  web: {image: i, depends_on: [db]}\n  db: {image: i}\n  cache: {image: i}\n  queue: {image: i}\n"},
		{Name: filepath.Join(wd, "r2.yaml"), InMemory: true, Content: "services:\n  web: {depends_on: [cache, queue]}\n"},
		{Name: filepath.Join(wd, "r3.yaml"), InMemory: true, Content: "services:\n  web:\n    depends_on:\n      cache: {condition: service_healthy}\n      queue: {condition: service_completed_successfully, required: false}\n"}}})
	// `version:` alone (an empty model every time) and `version:` next to content, under one file name loaded again and again
	pool = append(pool, c02Input{Name: "version:only", Dir: wd, Env: map[string]string{}, Files: []namedDoc{{Name: filepath.Join(wd, "v-only.yaml"), InMemory: true, Content: "version: \"3.8\"\n"}}})
	pool = append(pool, c02Input{Name: "version:with-content", Dir: wd, Env: map[string]string{}, Files: []namedDoc{{Name: filepath.Join(wd, "v-content.yaml"), InMemory: true, Content: "version: \"3.8\"\nservices:\n  a: {image: i}\n"}}})
	// keys and names that differ only by letter case, or only by a separator: every ordering must still be total
	pool = append(pool, c02Input{Name: "order:near-equal-keys", Dir: wd, Env: map[string]string{}, Files: []namedDoc{{Name: filepath.Join(wd, "near.yaml"), InMemory: true,
		Content: "services:\n  Web: {image: i}\n  web:\n    image: i\n    extra_hosts: ['Registry=1.1.1.1', 'registry=2.2.2.2', 'REGISTRY=3.3.3.3', 'registry=4.4.4.4']\n    labels: {Key: '1', key: '2', KEY: '3', k-ey: '4', k_ey: '5'}\n    environment: {Var: a, var: b, VAR: c}\n    depends_on: [Web, WEB]\n    networks: [Net, net]\n    dns: [1.1.1.1, 1.1.1.10, 1.1.1.2]\n    ports: ['80', '080:80', '8-10:8-10']\n    sysctls: {net.a: 1, net.A: 2}\n  WEB: {image: i}\nnetworks: {Net: {}, net: {}}\n"}}})
	c.Set("input_pool", len(pool))

	type ev struct {
		Input string `json:"input"`
		Hash  string `json:"hash"`
		Where string `json:"where"`
	}
	var events []ev
	record := func(in c02Input, where string) {
		events = append(events, ev{in.Name, c02Hash(in), where})
		c.Eval(in.Name+"|"+where, true)
	}
	// repeated loads of every input
	k := 12
	if !c.Quick() {
		k = 150
	}
	for _, in := range pool {
		for i := 0; i < k*max(1, in.Reps); i++ {
			record(in, fmt.Sprintf("repeat %d", i))
		}
	}
	// histories enumerated by TLC over a sub-pool of order-sensitive inputs
	sub := []c02Input{pool[len(pool)-1], pool[0], pool[1], pool[3], pool[5]}
	maxLen := 3
	if !c.Quick() {
		maxLen = 4
	}
	hd := filepath.Join(c.Work, "histories")
	rh, err := c.RunTLC(core.TLCOpts{Module: "Determinism", CfgText: fmt.Sprintf("SPECIFICATION Spec\nCONSTANTS Pool = %d\n MaxLen = %d\nINVARIANTS Functional\nCHECK_DEADLOCK FALSE\n", len(sub), maxLen), Dump: hd, Workers: 4, Timeout: 10 * time.Minute, Name: "histories"})
	if err != nil {
		c.Inconclusive("Determinism failed: " + err.Error())
		return
	}
	c.AddTLC(rh)
	nh := 0
	_, _ = core.ReadDump(hd+".dump", func(vars map[string]interface{}) error {
		nh++
		for pos, x := range asList(vars["h"]) {
			record(sub[asInt(x)-1], fmt.Sprintf("history %d pos %d", nh, pos+1))
		}
		return nil
	})
	c.Set("histories", nh)
	// every input once in a fresh process
	ip := filepath.Join(c.Work, "inputs.json")
	op := filepath.Join(c.Work, "fresh.json")
	ib, _ := json.Marshal(pool)
	_ = os.WriteFile(ip, ib, 0o644)
	exe, _ := os.Executable()
	cmd := exec.Command(exe, "C02-worker", ip, op)
	if out, err := cmd.CombinedOutput(); err != nil {
		c.Inconclusive(fmt.Sprintf("fresh-process worker failed: %v %s", err, tailStr(string(out), 300)))
		return
	}
	var fresh map[string]string
	fb, _ := os.ReadFile(op)
	if json.Unmarshal(fb, &fresh) != nil {
		c.Inconclusive("fresh-process worker produced no result")
		return
	}
	for _, in := range pool {
		events = append(events, ev{in.Name, fresh[in.Name], "fresh process"})
	}
	// ---- TLC judges that input -> outcome is a function over everything recorded
	var erecs []interface{}
	for _, e := range events {
		erecs = append(erecs, e)
	}
	ep := filepath.Join(c.Work, "loads.ndjson")
	_ = core.WriteNDJSON(ep, erecs)
	rj, err := c.RunTLC(core.TLCOpts{Module: "Trace_Determinism", Env: map[string]string{"TRACE": ep}, Workers: 1, Timeout: 30 * time.Minute, Name: "judge"})
	if err != nil {
		c.Inconclusive("Trace_Determinism failed: " + err.Error())
		return
	}
	c.AddTLC(rj)
	v, found := core.FindPrinted(rj.Output, "VERDICTS")
	if !found || asInt(asList(v)[1]) != len(events) {
		c.Inconclusive("Trace_Determinism did not judge every load: " + tailStr(rj.Output, 300))
		return
	}
	for _, b := range asList(asList(v)[2]) {
		t := asList(b)
		e := events[asInt(t[0])-1]
		c.Report(core.Finding{Sig: "nondeterministic:" + e.Input, Detail: fmt.Sprintf("input %s gives a different outcome at %q (%s) than when first loaded", e.Input, e.Where, e.Hash), Replay: e})
	}
	c.AddTraces(int64(len(events)))
	c.Set("loads_judged_by_tlc", len(events))

	// ---- declaration order of services and resources does not matter
	svc := map[string]string{"s1": "  s1: {image: i1, depends_on: [s2], networks: [n1, n2], volumes: ['v1:/a', 'v2:/b']}\n", "s2": "  s2: {image: i2, networks: [n2], environment: [B=2, A=1]}\n", "s3": "  s3: {image: i3, depends_on: [s1, s2], labels: {b: 2, a: 1}}\n"}
	nets := map[string]string{"n1": "  n1: {labels: [x=1]}\n", "n2": "  n2: {driver: bridge}\n"}
	orders := [][]string{{"s1", "s2", "s3"}, {"s1", "s3", "s2"}, {"s2", "s1", "s3"}, {"s2", "s3", "s1"}, {"s3", "s1", "s2"}, {"s3", "s2", "s1"}}
	var first string
	for i, o := range orders {
		for _, no := range [][]string{{"n1", "n2"}, {"n2", "n1"}} {
			doc := "services:\n" + svc[o[0]] + svc[o[1]] + svc[o[2]]
			if i%2 == 0 {
				doc = "volumes: {v2: {}, v1: {}}\n" + doc + "networks:\n" + nets[no[0]] + nets[no[1]]
			} else {
				doc = "networks:\n" + nets[no[0]] + nets[no[1]] + doc + "volumes: {v1: {}, v2: {}}\n"
			}
			h := c02Hash(c02Input{Name: "perm", Dir: wd, Files: []namedDoc{{Name: filepath.Join(wd, "compose.yaml"), Content: doc, InMemory: true}}})
			c.Eval("perm|"+doc, true)
			if first == "" {
				first = h
			} else if h != first {
				c.Report(core.Finding{Sig: "declaration-order", Detail: fmt.Sprintf("the same model with another declaration order loads or renders differently (%s vs %s):\n%s", h, first, doc), Replay: doc})
			}
		}
	}
	// ---- the command-line layer: same files, project environment, working directory and options - whatever the process
	// environment holds (it is an input only through WithOsEnv, which these loads do not use) and wherever the process stands
	c02ProcessEnv(c, wd)
	if len(events) > 0 {
		c.Sample(map[string]interface{}{"input": events[0].Input, "hash": events[0].Hash, "loads_of_this_input": k})
	}
	c.Logf("%d loads judged (%d inputs x %d repeats, %d histories, fresh process), 12 declaration orders", len(events), len(pool), k, nh)
	c.Set("rule", "a case is one load of an input of the pool (multi-file merges, extends, include, version:, every custom-marshaller document) at some place of a history, in a repetition, or in a fresh process, or one declaration-order permutation; the rule tables are checked completely")
}

func c02ProcessEnv(c *core.Ctx, wd string) {
	dir := filepath.Join(wd, "cliproj")
	_ = os.MkdirAll(filepath.Join(dir, "other"), 0o755)
	_ = os.WriteFile(filepath.Join(dir, "compose.yaml"), []byte("services:\n  a: {image: \"img-${VV:-none}\", build: ./ctx, env_file: [./a.env]}\n  dbg: {image: i, profiles: [dbg]}\n  perf: {image: i, profiles: [perf]}\n"), 0o644)
	_ = os.WriteFile(filepath.Join(dir, "a.env"), []byte("FROMFILE=${VV:-unset}\n"), 0o644)
	vars := []string{"COMPOSE_PROFILES", "COMPOSE_PROJECT_NAME", "COMPOSE_FILE", "COMPOSE_PATH_SEPARATOR", "COMPOSE_CONVERT_WINDOWS_PATHS", "VV", "HOME"}
	saved := map[string]*string{}
	for _, k := range vars {
		if v, ok := os.LookupEnv(k); ok {
			vv := v
			saved[k] = &vv
		}
	}
	cwd, _ := os.Getwd()
	defer func() {
		for _, k := range vars {
			if saved[k] != nil {
				os.Setenv(k, *saved[k])
			} else {
				os.Unsetenv(k)
			}
		}
		_ = os.Chdir(cwd)
	}()
	digest := func(model bool) string {
		po, err := cli.NewProjectOptions([]string{filepath.Join(dir, "compose.yaml")}, cli.WithWorkingDirectory(dir), cli.WithEnv([]string{"COMPOSE_PROFILES=dbg", "VV=explicit"}),
			cli.WithDefaultProfiles(), cli.WithConfigFileEnv, cli.WithDefaultConfigPath)
		if err != nil {
			return "options-error: " + err.Error()
		}
		if model {
			m, err := po.LoadModel(context.Background())
			if err != nil {
				return "error: " + err.Error()
			}
			b, _ := json.Marshal(m)
			return string(b)
		}
		p, err := po.LoadProject(context.Background())
		if err != nil {
			return "error: " + err.Error()
		}
		y, _ := p.MarshalYAML()
		return projDump(p) + string(y)
	}
	settings := []map[string]string{
		{},
		{"COMPOSE_PROFILES": "perf", "VV": "from-os", "COMPOSE_PROJECT_NAME": "osname"},
		{"COMPOSE_PROFILES": "*", "COMPOSE_FILE": filepath.Join(dir, "nowhere.yaml"), "COMPOSE_PATH_SEPARATOR": "!", "COMPOSE_CONVERT_WINDOWS_PATHS": "1"},
		{"COMPOSE_PROFILES": "", "VV": "", "HOME": filepath.Join(dir, "other")},
	}
	for _, model := range []bool{false, true} {
		var first string
		for i, st := range settings {
			for _, k := range vars {
				if v, ok := st[k]; ok {
					os.Setenv(k, v)
				} else if k != "HOME" {
					os.Unsetenv(k)
				}
			}
			if i%2 == 1 {
				_ = os.Chdir(filepath.Join(dir, "other"))
			} else {
				_ = os.Chdir(cwd)
			}
			d := digest(model)
			c.Eval(fmt.Sprintf("process-env|%v|%d", model, i), true)
			if i == 0 {
				first = d
			} else if d != first {
				c.Report(core.Finding{Sig: "depends-on-process-environment", Detail: fmt.Sprintf("the same files, project environment, working directory and options load differently (model=%v) when the process environment holds %v: %s", model, st, firstDiff(first, d)),
					Replay: map[string]interface{}{"process_environment": st, "model": model}})
			}
		}
	}
}
