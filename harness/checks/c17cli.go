//go:build verif

package checks

import (
	"context"
	"fmt"
	"math/rand"
	"os"
	"path/filepath"
	"sort"
	"strings"
	"time"

	"github.com/compose-spec/compose-go/v2/cli"

	"verif/harness/internal/core"
)

// cli.ProjectOptions as a state machine (spec/files/CliOptions.tla).
//
// Direction 1 (specification -> code): MC_CliOptions enumerates, for every chosen world, every reachable options value
// with every option function applied to it; each TLC state is one transition.  The harness materialises the world,
// rebuilds the options value from its public fields, calls the real option function and compares.
// Direction 2 (code -> specification): random option sequences of length up to 10 on random worlds of the full product
// are applied to one real ProjectOptions, the projected value is recorded after every call and Trace_CliOptions judges
// every line.

var cliDirNames = []string{"", "t-root", "Web.App", "My_Pwd", "Other-1"}
var cliParents = []int{0, 0, 1, 2, 1}
var cliVars = []string{"COMPOSE_FILE", "COMPOSE_PATH_SEPARATOR", "COMPOSE_PROJECT_NAME", "COMPOSE_PROFILES", "VV"}

type cliWorld struct {
	fs      [5][]string // 1..4
	dotenv  [5]string
	os      map[string]string
	configs [][2]interface{}
	key     string
	root    string // materialised t-root's parent
}

func (w *cliWorld) dir(d int) string {
	if d <= 0 || d > 4 {
		return ""
	}
	if cliParents[d] == 0 {
		return filepath.Join(w.root, cliDirNames[d])
	}
	return filepath.Join(w.dir(cliParents[d]), cliDirNames[d])
}

func (w *cliWorld) path(p interface{}) string {
	l := asList(p)
	if len(l) != 2 {
		return ""
	}
	d, n := asInt(l[0]), asStr(l[1])
	if d == 0 {
		return n
	}
	return filepath.Join(w.dir(d), n)
}

// abstract <<dir, name>> of a real path
func (w *cliWorld) abs(p string) []interface{} {
	if !filepath.IsAbs(p) {
		p = filepath.Join(w.dir(3), p)
	}
	p = filepath.Clean(p)
	dir, base := filepath.Dir(p), filepath.Base(p)
	for d := 1; d <= 4; d++ {
		if dir == w.dir(d) {
			return []interface{}{d, base}
		}
	}
	return []interface{}{0, p}
}

func (w *cliWorld) dirIndex(p string) int {
	p = filepath.Clean(p)
	for d := 1; d <= 4; d++ {
		if p == w.dir(d) {
			return d
		}
	}
	return -1
}

func cliSvcName(d int, file string) string {
	r := strings.NewReplacer(".", "-", "_", "-")
	return fmt.Sprintf("s%d-%s", d, r.Replace(strings.TrimPrefix(file, ".")))
}

func cliDotEnvText(kind string, d int) string {
	switch kind {
	case "vv":
		return fmt.Sprintf("VV=env%d\n", d)
	case "file":
		return fmt.Sprintf("VV=env%d\nCOMPOSE_FILE=x.yaml\n", d)
	case "name":
		return fmt.Sprintf("VV=env%d\nCOMPOSE_PROJECT_NAME=from-dotenv-%d\n", d, d)
	case "prof":
		return fmt.Sprintf("VV=env%d\nCOMPOSE_PROFILES=dbg,y\n", d)
	}
	return ""
}

func (w *cliWorld) materialise(base string) error {
	w.root = filepath.Join(base, core.HashStr(w.key))
	for d := 1; d <= 4; d++ {
		if err := os.MkdirAll(w.dir(d), 0o755); err != nil {
			return err
		}
	}
	for d := 1; d <= 4; d++ {
		for _, f := range w.fs[d] {
			var text string
			if f == ".env" {
				text = cliDotEnvText(w.dotenv[d], d)
			} else {
				text = fmt.Sprintf("services:\n  %s:\n    image: \"img-${COMPOSE_PROJECT_NAME}-${VV:-none}\"\n  %s-dbg:\n    image: \"img-${COMPOSE_PROJECT_NAME}-${VV:-none}\"\n    profiles: [dbg]\n", cliSvcName(d, f), cliSvcName(d, f))
			}
			if err := os.WriteFile(filepath.Join(w.dir(d), f), []byte(text), 0o644); err != nil {
				return err
			}
		}
	}
	return nil
}

func (w *cliWorld) enter() error {
	for _, k := range cliVars {
		if v, ok := w.os[k]; ok {
			os.Setenv(k, v)
		} else {
			os.Unsetenv(k)
		}
	}
	return os.Chdir(w.dir(3))
}

func cliEnvPairs(m map[string]string) []interface{} {
	out := []interface{}{}
	for _, k := range cliVars {
		if v, ok := m[k]; ok {
			out = append(out, []interface{}{k, v})
		}
	}
	return out
}

// JSON form of the world for Trace_CliOptions
func (w *cliWorld) json() map[string]interface{} {
	fs := []interface{}{}
	de := []interface{}{}
	for d := 1; d <= 4; d++ {
		l := []interface{}{}
		for _, f := range w.fs[d] {
			l = append(l, f)
		}
		fs = append(fs, l)
		de = append(de, w.dotenv[d])
	}
	cfg := []interface{}{}
	for _, p := range w.configs {
		cfg = append(cfg, []interface{}{p[0], p[1]})
	}
	return map[string]interface{}{"fs": fs, "dotenv": de, "os": cliEnvPairs(w.os), "configs": cfg}
}

func cliEnvOf(v interface{}) map[string]string {
	out := map[string]string{}
	for k, x := range asMap(v) {
		out[k] = asStr(x)
	}
	return out
}

func cliWorldOfTLA(v interface{}) *cliWorld {
	m := asMap(v)
	w := &cliWorld{os: cliEnvOf(m["os"])}
	for i, s := range asList(m["fs"]) {
		for _, f := range asList(s) {
			w.fs[i+1] = append(w.fs[i+1], asStr(f))
		}
		sort.Strings(w.fs[i+1])
	}
	for i, s := range asList(m["dotenv"]) {
		w.dotenv[i+1] = asStr(s)
	}
	for _, p := range asList(m["configs"]) {
		l := asList(p)
		w.configs = append(w.configs, [2]interface{}{asInt(l[0]), asStr(l[1])})
	}
	w.key = fmt.Sprint(w.fs, w.dotenv, w.os, w.configs)
	return w
}

// abstract options value (TLA or JSON form) -> real ProjectOptions; alt varies the spelling of paths under the working directory
func (w *cliWorld) build(from map[string]interface{}, alt bool) (*cli.ProjectOptions, error) {
	po, err := cli.NewProjectOptions(nil)
	if err != nil {
		return nil, err
	}
	po.Name = asStr(from["name"])
	if d := asInt(from["wd"]); d != 0 {
		po.WorkingDir = w.dir(d)
	}
	for _, p := range asList(from["paths"]) {
		s := w.path(p)
		if alt && asInt(asList(p)[0]) == 3 {
			s = asStr(asList(p)[1])
		}
		po.ConfigPaths = append(po.ConfigPaths, s)
	}
	for _, p := range asList(from["envfiles"]) {
		s := w.path(p)
		if alt && asInt(asList(p)[0]) == 3 {
			s = asStr(asList(p)[1])
		}
		po.EnvFiles = append(po.EnvFiles, s)
	}
	if pr := asMap(from["prof"]); asBool(pr["set"]) {
		var ps []string
		for _, x := range asList(pr["v"]) {
			ps = append(ps, asStr(x))
		}
		if err := cli.WithProfiles(ps)(po); err != nil {
			return nil, err
		}
	}
	switch e := from["env"].(type) {
	case map[string]interface{}:
		for k, v := range e {
			po.Environment[k] = asStr(v)
		}
	case []interface{}:
		for _, kv := range e {
			l := asList(kv)
			po.Environment[asStr(l[0])] = asStr(l[1])
		}
	}
	return po, nil
}

func (w *cliWorld) project(po *cli.ProjectOptions) map[string]interface{} {
	paths := []interface{}{}
	for _, p := range po.ConfigPaths {
		paths = append(paths, w.abs(p))
	}
	envfiles := []interface{}{}
	for _, p := range po.EnvFiles {
		envfiles = append(envfiles, w.abs(p))
	}
	wd := 0
	if po.WorkingDir != "" {
		wd = w.dirIndex(po.WorkingDir)
	}
	return map[string]interface{}{"name": po.Name, "wd": wd, "paths": paths, "envfiles": envfiles, "env": cliEnvPairs(po.Environment)}
}

type cliStep struct {
	act string
	arg interface{} // TLA / JSON form
}

// apply one step to the real options value; the outcome is the projected value, [err] or the projected project
func (w *cliWorld) apply(po *cli.ProjectOptions, st cliStep, alt bool) (out map[string]interface{}, errText string) {
	defer func() {
		if p := recover(); p != nil {
			out, errText = map[string]interface{}{"err": true}, fmt.Sprintf("panic: %v", p)
		}
	}()
	var fn cli.ProjectOptionsFn
	switch st.act {
	case "name":
		fn = cli.WithName(asStr(st.arg))
	case "workdir":
		d := asInt(st.arg)
		switch {
		case d == 0:
			fn = cli.WithWorkingDirectory("")
		case d == 3 && alt:
			fn = cli.WithWorkingDirectory(".")
		case d == 2 && alt:
			fn = cli.WithWorkingDirectory("..")
		case d == 4 && alt:
			fn = cli.WithWorkingDirectory("../../Other-1")
		default:
			fn = cli.WithWorkingDirectory(w.dir(d))
		}
	case "config-file-env":
		fn = cli.WithConfigFileEnv
	case "default-config-path":
		fn = cli.WithDefaultConfigPath
	case "env":
		var kv []string
		switch e := st.arg.(type) {
		case map[string]interface{}:
			for k, v := range e {
				kv = append(kv, k+"="+asStr(v))
			}
		case []interface{}:
			for _, x := range e {
				kv = append(kv, asStr(asList(x)[0])+"="+asStr(asList(x)[1]))
			}
		}
		sort.Strings(kv)
		fn = cli.WithEnv(kv)
	case "os-env":
		fn = cli.WithOsEnv
	case "env-files-default":
		fn = cli.WithEnvFiles()
	case "env-files":
		var fs []string
		for _, p := range asList(st.arg) {
			fs = append(fs, w.path(p))
		}
		fn = cli.WithEnvFiles(fs...)
	case "dot-env":
		fn = cli.WithDotEnv
	case "profiles", "default-profiles":
		var ps []string
		for _, x := range asList(st.arg) {
			ps = append(ps, asStr(x))
		}
		if st.act == "profiles" {
			fn = cli.WithProfiles(ps)
		} else {
			fn = cli.WithDefaultProfiles(ps...)
		}
	case "load":
		p, err := po.LoadProject(context.Background())
		if err != nil {
			return map[string]interface{}{"err": true}, err.Error()
		}
		files := []interface{}{}
		var want []string
		for _, f := range p.ComposeFiles {
			a := w.abs(f)
			files = append(files, a)
			want = append(want, cliSvcName(asInt(a[0]), asStr(a[1])))
		}
		sort.Strings(want)
		// the services carrying the profile "dbg": all enabled or all disabled
		var got []string
		dbgOn, dbgOff := 0, 0
		for _, n := range p.ServiceNames() {
			if strings.HasSuffix(n, "-dbg") {
				dbgOn++
			} else {
				got = append(got, n)
			}
		}
		for n := range p.DisabledServices {
			if strings.HasSuffix(n, "-dbg") {
				dbgOff++
			}
		}
		sort.Strings(got)
		profiles := []interface{}{}
		for _, x := range p.Profiles {
			profiles = append(profiles, x)
		}
		vv, has := p.Environment["VV"]
		if vv == "" {
			vv = "none"
		}
		out = map[string]interface{}{"name": p.Name, "dir": w.dirIndex(p.WorkingDir), "files": files, "vv": vv, "hasvv": has, "profiles": profiles, "dbg": dbgOn > 0}
		if dbgOn > 0 && dbgOff > 0 || dbgOn+dbgOff != len(want) {
			return out, fmt.Sprintf("@@services: of the %d services with profile dbg %d are enabled and %d disabled", len(want), dbgOn, dbgOff)
		}
		if strings.Join(got, ",") != strings.Join(want, ",") {
			return out, fmt.Sprintf("@@services: the project has services %v; its compose files define %v", got, want)
		}
		if p.Environment["COMPOSE_PROJECT_NAME"] != p.Name {
			return out, fmt.Sprintf("@@env: COMPOSE_PROJECT_NAME in the project environment is %q, the name %q", p.Environment["COMPOSE_PROJECT_NAME"], p.Name)
		}
		for _, s := range p.Services {
			if s.Image != "img-"+p.Name+"-"+vv {
				return out, fmt.Sprintf("@@interp: image of %s interpolates to %q; name %q, VV %q", s.Name, s.Image, p.Name, vv)
			}
		}
		return out, ""
	case "load-model":
		m, err := po.LoadModel(context.Background())
		if err != nil {
			return map[string]interface{}{"err": true}, err.Error()
		}
		name, _ := m["name"].(string)
		out = map[string]interface{}{"name": name, "vv": "?"}
		svcs, _ := m["services"].(map[string]interface{})
		for sn, sv := range svcs {
			img, _ := sv.(map[string]interface{})["image"].(string)
			vv := strings.TrimPrefix(img, "img-"+name+"-")
			if vv == img {
				return out, fmt.Sprintf("@@interp: image of %s in the model is %q; name %q", sn, img, name)
			}
			if out["vv"] != "?" && out["vv"] != vv {
				return out, fmt.Sprintf("@@interp: services of the model interpolate VV differently (%v, %v)", out["vv"], vv)
			}
			out["vv"] = vv
		}
		return out, ""
	default:
		return map[string]interface{}{"err": true}, "unknown action " + st.act
	}
	if err := fn(po); err != nil {
		return map[string]interface{}{"err": true}, err.Error()
	}
	return w.project(po), ""
}

// normal form for comparison: JSON-ish rendering with sorted keys
func cliCanon(v interface{}) string {
	switch x := v.(type) {
	case map[string]interface{}:
		if _, ok := x["err"]; ok {
			return "error"
		}
		keys := make([]string, 0, len(x))
		for k := range x {
			keys = append(keys, k)
		}
		sort.Strings(keys)
		var b strings.Builder
		b.WriteString("{")
		for _, k := range keys {
			if k == "prof" || k == "probe" {
				continue // not among the public fields of the options value
			}
			if k == "env" {
				// a function printed by TLC (record) or a pair list: same normal form
				m := map[string]string{}
				switch e := x[k].(type) {
				case map[string]interface{}:
					for kk, vv := range e {
						m[kk] = asStr(vv)
					}
				case []interface{}:
					for _, kv := range e {
						m[asStr(asList(kv)[0])] = asStr(asList(kv)[1])
					}
				}
				b.WriteString("env:" + fmt.Sprint(m) + " ")
				continue
			}
			b.WriteString(k + ":" + cliCanon(x[k]) + " ")
		}
		b.WriteString("}")
		return b.String()
	case []interface{}:
		var parts []string
		for _, e := range x {
			parts = append(parts, cliCanon(e))
		}
		return "[" + strings.Join(parts, " ") + "]"
	case int:
		return fmt.Sprint(int64(x))
	default:
		return fmt.Sprint(x)
	}
}

// which part of the statement a mismatch on this action falls under
func cliClassify(act string, exp, got map[string]interface{}, note string) (sig string, violation bool) {
	_, expErr := exp["err"]
	_, gotErr := got["err"]
	switch {
	case strings.HasPrefix(note, "panic"):
		return "cli:panic:" + act, true
	case strings.HasPrefix(note, "@@env"), strings.HasPrefix(note, "@@interp"):
		return "cli:name-not-visible", true
	case strings.HasPrefix(act, "load") && !expErr && !gotErr && asStr(exp["name"]) != asStr(got["name"]):
		return "cli:load:wrong-name", true
	case strings.HasPrefix(act, "load") && !expErr && !gotErr && (asStr(exp["vv"]) != asStr(got["vv"]) || asBool(exp["hasvv"]) != asBool(got["hasvv"])):
		return "cli:load:environment", true
	case act == "load" && !expErr && !gotErr && (cliCanon(exp["profiles"]) != cliCanon(got["profiles"]) || asBool(exp["dbg"]) != asBool(got["dbg"])):
		return "cli:load:profiles", false // COMPOSE_PROFILES and the profile options are not part of a listed statement
	case strings.HasPrefix(act, "load") && expErr != gotErr:
		return "cli:load:outcome", true
	case act == "env" || act == "os-env" || act == "dot-env" || act == "name":
		// the project environment (explicit over OS over .env files) and the explicit name are built by these
		return "cli:" + act, true
	}
	// which files are discovered, where the default .env is looked up, the working directory: not part of the statement of
	// C17 by themselves (their consequences on name and environment are, and show at `load` or `dot-env` transitions)
	return "cli:" + act, false
}

func c17Cli(c *core.Ctx) {
	c.Assumption("spec/files/CliOptions.tla: cli.ProjectOptions as a state machine (option functions in any order, LoadProject last); transitions replayed on real option values rebuilt from their public fields in materialised directory trees; the process working directory and the four modelled OS variables are set per world (sequential replay); no compose file with a default name exists in a parent of the scratch directory")
	for d := filepath.Dir(c.Work); ; d = filepath.Dir(d) {
		for _, n := range append(append([]string{}, cli.DefaultFileNames...), cli.DefaultOverrideFileNames...) {
			if _, err := os.Stat(filepath.Join(d, n)); err == nil {
				c.Inconclusive("a compose file exists above the scratch directory: " + filepath.Join(d, n))
				return
			}
		}
		if d == filepath.Dir(d) {
			break
		}
	}
	home, _ := os.Getwd()
	defer os.Chdir(home)
	saved := map[string]*string{}
	for _, k := range append([]string{"COMPOSE_DISABLE_ENV_FILE", "COMPOSE_PROFILES"}, cliVars...) {
		if v, ok := os.LookupEnv(k); ok {
			vv := v
			saved[k] = &vv
		} else {
			saved[k] = nil
		}
		os.Unsetenv(k)
	}
	defer func() {
		for k, v := range saved {
			if v != nil {
				os.Setenv(k, *v)
			} else {
				os.Unsetenv(k)
			}
		}
	}()
	base := filepath.Join(c.Work, "cliworlds")
	_ = os.RemoveAll(base)
	defer os.RemoveAll(base)

	report := func(w *cliWorld, st cliStep, from, exp, got map[string]interface{}, note, origin string) {
		sig, violation := cliClassify(st.act, exp, got, note)
		detail := fmt.Sprintf("%s(%v) on %s in world %s gives %s (%s); CliOptions.tla defines %s [%s]", st.act, cliCanon(st.arg), cliCanon(from), w.key, cliCanon(got), note, cliCanon(exp), origin)
		if violation {
			c.Report(core.Finding{Sig: sig, Detail: detail, Replay: map[string]interface{}{"world": w.json(), "action": st.act, "arg": st.arg, "from": from, "expected": exp, "got": got}})
		} else {
			c.Drift(sig + ": " + detail)
		}
	}

	// ---------------------------------------------------------------- direction 1: every transition of the model
	level, steps, profiles := 0, 3, "FALSE"
	if !c.Quick() {
		level, steps, profiles = 1, 3, "TRUE"
	}
	dump := filepath.Join(c.Work, "clioptions")
	r, err := c.RunTLC(core.TLCOpts{Module: "MC_CliOptions", CfgText: fmt.Sprintf("SPECIFICATION Spec\nCONSTANTS Level = %d\n MaxSteps = %d\n Profiles = %s\nINVARIANTS Laws\nVIEW View\nCONSTRAINT Bound\nCHECK_DEADLOCK FALSE\n", level, steps, profiles),
		Dump: dump, Workers: 8, Timeout: 40 * time.Minute, Name: "clioptions"})
	if err != nil {
		c.Inconclusive("MC_CliOptions failed: " + err.Error())
		return
	}
	c.AddTLC(r)
	if r.Violated != "" {
		c.Inconclusive("CliOptions specification violates " + r.Violated)
		return
	}
	worlds := map[string]*cliWorld{}
	type edge struct {
		w  *cliWorld
		tr map[string]interface{}
	}
	var edges []edge
	_, err = core.ReadDump(dump+".dump", func(vars map[string]interface{}) error {
		tr := asMap(vars["tr"])
		if asStr(tr["act"]) == "new" {
			return nil
		}
		w := cliWorldOfTLA(vars["w"])
		if have, ok := worlds[w.key]; ok {
			w = have
		} else {
			worlds[w.key] = w
		}
		edges = append(edges, edge{w, tr})
		return nil
	})
	if err != nil {
		c.Inconclusive("clioptions dump: " + err.Error())
		return
	}
	os.Remove(dump + ".dump")
	sort.SliceStable(edges, func(i, j int) bool { return edges[i].w.key < edges[j].w.key })
	acts := map[string]int{}
	var cur *cliWorld
	for i, e := range edges {
		if e.w != cur {
			if cur != nil {
				os.Chdir(home)
				os.RemoveAll(cur.root)
			}
			cur = e.w
			if err := cur.materialise(base); err != nil {
				c.Inconclusive("materialise: " + err.Error())
				return
			}
			if err := cur.enter(); err != nil {
				c.Inconclusive("enter: " + err.Error())
				return
			}
		}
		act := asStr(e.tr["act"])
		from, exp := asMap(e.tr["from"]), asMap(e.tr["to"])
		alt := i%2 == 1
		po, err := cur.build(from, alt)
		if err != nil {
			c.Inconclusive("NewProjectOptions: " + err.Error())
			return
		}
		st := cliStep{act, e.tr["arg"]}
		got, note := cur.apply(po, st, alt)
		acts[act]++
		c.Eval("cli "+cur.key+" "+cliCanon(from)+" "+act+cliCanon(st.arg), true)
		if cliCanon(got) != cliCanon(exp) || strings.HasPrefix(note, "@@") || strings.HasPrefix(note, "panic") {
			report(cur, st, from, exp, got, note, "model transition")
		} else if probe := asMap(e.tr["probe"]); probe != nil && probe["none"] == nil {
			// a profile option: its effect is observed by loading the result
			pg, pnote := cur.apply(po, cliStep{"load", 0}, alt)
			if cliCanon(pg) != cliCanon(probe) || strings.HasPrefix(pnote, "@@") {
				report(cur, cliStep{"load", 0}, exp, probe, pg, pnote, "model transition "+act+cliCanon(st.arg)+" then load")
			}
		}
		if i%9973 == 0 {
			c.Sample(map[string]interface{}{"world": cur.key, "from": cliCanon(from), "action": act, "arg": cliCanon(st.arg), "specification": cliCanon(exp), "real": cliCanon(got)})
		}
	}
	if cur != nil {
		os.Chdir(home)
		os.RemoveAll(cur.root)
	}
	c.AddTraces(int64(len(edges)))
	c.Set("cli_worlds", len(worlds))
	c.Set("cli_transitions", len(edges))
	c.Set("cli_transitions_by_action", acts)
	c.Logf("cli options: %d transitions of %d worlds replayed", len(edges), len(worlds))
	for _, a := range []string{"name", "workdir", "config-file-env", "default-config-path", "env", "os-env", "env-files-default", "env-files", "dot-env", "load", "load-model"} {
		if acts[a] == 0 {
			c.Inconclusive("no transition of action " + a + " in the model")
			return
		}
	}

	// ---------------------------------------------------------------- direction 2: long random sequences judged by TLC
	nseq := 250
	if !c.Quick() {
		nseq = 4000
	}
	rng := rand.New(rand.NewSource(c.Seed + 17))
	var recs []interface{}
	type recInfo struct {
		w    *cliWorld
		st   cliStep
		from map[string]interface{}
		got  map[string]interface{}
		note string
		hist []string
	}
	var infos []recInfo
	for s := 0; s < nseq; s++ {
		w := cliRandomWorld(rng)
		if err := w.materialise(base); err != nil {
			c.Inconclusive("materialise: " + err.Error())
			return
		}
		if err := w.enter(); err != nil {
			c.Inconclusive("enter: " + err.Error())
			return
		}
		var cfgs []string
		for _, p := range w.configs {
			if p[0].(int) == 3 && s%2 == 0 {
				cfgs = append(cfgs, p[1].(string))
			} else {
				cfgs = append(cfgs, filepath.Join(w.dir(p[0].(int)), p[1].(string)))
			}
		}
		po, err := cli.NewProjectOptions(cfgs)
		if err != nil {
			c.Inconclusive("NewProjectOptions: " + err.Error())
			return
		}
		from := w.project(po)
		n := 3 + rng.Intn(8)
		var hist []string
		for k := 0; k <= n; k++ {
			st := cliRandomStep(rng, k == n)
			got, note := w.apply(po, st, rng.Intn(2) == 0)
			recs = append(recs, map[string]interface{}{"w": w.json(), "act": st.act, "arg": st.arg, "from": from, "to": got, "first": k == 0})
			hist = append(hist, st.act+"("+cliCanon(st.arg)+")")
			infos = append(infos, recInfo{w, st, from, got, note, append([]string{}, hist...)})
			if strings.HasPrefix(note, "@@") || strings.HasPrefix(note, "panic") {
				report(w, st, from, map[string]interface{}{}, got, note, "random sequence")
			}
			if _, failed := got["err"]; failed || strings.HasPrefix(st.act, "load") {
				break
			}
			from = got
		}
		os.Chdir(home)
		os.RemoveAll(w.root)
	}
	// self-test of the binding: a copy of one recorded step with one field of the outcome altered must be rejected
	corrupted := -1
	for _, r := range recs {
		m := r.(map[string]interface{})
		to := m["to"].(map[string]interface{})
		if _, ok := to["paths"]; ok {
			to2 := map[string]interface{}{}
			for k, v := range to {
				to2[k] = v
			}
			to2["name"] = asStr(to["name"]) + "x"
			recs = append(recs, map[string]interface{}{"w": m["w"], "act": m["act"], "arg": m["arg"], "from": m["from"], "to": to2, "first": true})
			corrupted = len(recs) - 1
			break
		}
	}
	tracePath := filepath.Join(c.Work, "clitrace.ndjson")
	if err := core.WriteNDJSON(tracePath, recs); err != nil {
		c.Inconclusive(err.Error())
		return
	}
	rj, err := c.RunTLC(core.TLCOpts{Module: "Trace_CliOptions", Env: map[string]string{"TRACE": tracePath}, Workers: 1, Timeout: 30 * time.Minute, Name: "clitrace"})
	if err != nil {
		c.Inconclusive("Trace_CliOptions failed: " + err.Error())
		return
	}
	c.AddTLC(rj)
	v, found := core.FindPrinted(rj.Output, "VERDICTS")
	if !found {
		c.Inconclusive("Trace_CliOptions printed no verdicts: " + tailStr(rj.Output, 600))
		return
	}
	l := asList(v)
	if asInt(l[1]) != len(recs) {
		c.Inconclusive(fmt.Sprintf("Trace_CliOptions consumed %d of %d lines", asInt(l[1]), len(recs)))
		return
	}
	sawCorrupted := false
	for _, b := range asList(l[2]) {
		bl := asList(b)
		i := asInt(bl[0]) - 1
		if i == corrupted {
			sawCorrupted = true
			continue
		}
		in := infos[i]
		report(in.w, in.st, in.from, asMap(bl[1]), in.got, in.note, "random sequence, judged by Trace_CliOptions")
	}
	// the outcome of a whole sequence against the one the specification reaches from its start
	for _, b := range asList(l[3]) {
		bl := asList(b)
		in := infos[asInt(bl[0])-1]
		report(in.w, in.st, in.from, asMap(bl[1]), in.got, in.note, "random sequence: outcome of the whole sequence "+strings.Join(in.hist, ", ")+", judged by Trace_CliOptions")
	}
	if corrupted >= 0 && !sawCorrupted {
		c.Inconclusive("Trace_CliOptions accepted a record whose outcome had been altered (self-test of the binding)")
		return
	}
	c.Set("cli_selftest_corrupted_record_rejected", sawCorrupted)
	c.AddTraces(int64(nseq))
	c.Set("cli_random_sequences", nseq)
	c.Set("cli_random_steps", len(recs))
	c.Logf("cli options: %d random sequences (%d steps) judged, %d rejected (1 of them the altered self-test record)", nseq, len(recs), len(asList(l[2])))
}

var cliLayouts = [][]string{{}, {"compose.yaml"}, {"docker-compose.yml", "compose.yml"}, {"compose.yaml", "compose.override.yml"}, {"compose.override.yaml"},
	{"docker-compose.yaml", "docker-compose.override.yml", "compose.override.yaml"}, {"docker-compose.yml", "docker-compose.override.yaml"}, {"compose.yml", "compose.override.yaml", "compose.override.yml"}}

func cliRandomWorld(rng *rand.Rand) *cliWorld {
	w := &cliWorld{os: map[string]string{}}
	pick := func(xs ...string) string { return xs[rng.Intn(len(xs))] }
	w.dotenv = [5]string{"", "none", pick("none", "vv", "name", "file"), pick("none", "vv", "file", "name", "prof"), pick("vv", "name", "none", "prof")}
	for d := 1; d <= 4; d++ {
		var lay []string
		switch d {
		case 1, 4:
			lay = cliLayouts[rng.Intn(2)]
		default:
			lay = cliLayouts[rng.Intn(len(cliLayouts))]
		}
		w.fs[d] = append([]string{}, lay...)
		if d >= 3 {
			w.fs[d] = append(w.fs[d], "x.yaml")
		}
		if w.dotenv[d] != "none" {
			w.fs[d] = append(w.fs[d], ".env")
		}
		sort.Strings(w.fs[d])
	}
	switch rng.Intn(9) {
	case 0, 1:
	case 2:
		w.os["COMPOSE_FILE"] = "x.yaml"
	case 3:
		w.os["COMPOSE_FILE"] = "x.yaml:../../Other-1/x.yaml"
	case 4:
		w.os["COMPOSE_FILE"], w.os["COMPOSE_PATH_SEPARATOR"] = "../../Other-1/x.yaml,x.yaml", ","
	case 5:
		w.os["COMPOSE_FILE"] = "x.yaml,../../Other-1/x.yaml"
	case 6:
		w.os["COMPOSE_FILE"], w.os["COMPOSE_PATH_SEPARATOR"] = "../compose.yaml", ""
	case 7:
		w.os["COMPOSE_FILE"] = "missing.yaml"
	case 8:
		w.os["COMPOSE_FILE"], w.os["COMPOSE_PATH_SEPARATOR"] = "x.yaml;../compose.yaml", ";"
	}
	switch rng.Intn(5) {
	case 0:
		w.os["COMPOSE_PROJECT_NAME"] = "from-os"
	case 1:
		w.os["COMPOSE_PROJECT_NAME"] = "From.OS"
	case 2:
		w.os["COMPOSE_PROJECT_NAME"] = ""
	}
	switch rng.Intn(4) {
	case 0:
		w.os["VV"] = "os"
	case 1:
		w.os["VV"] = ""
	}
	switch rng.Intn(6) {
	case 0:
		w.os["COMPOSE_PROFILES"] = "dbg"
	case 1:
		w.os["COMPOSE_PROFILES"] = " x , dbg "
	case 2:
		w.os["COMPOSE_PROFILES"] = ""
	case 3:
		w.os["COMPOSE_PROFILES"] = "x,,*"
	}
	switch rng.Intn(6) {
	case 0:
		w.configs = [][2]interface{}{{4, "x.yaml"}}
	case 1:
		w.configs = [][2]interface{}{{3, "x.yaml"}, {4, "x.yaml"}}
	case 2:
		w.configs = [][2]interface{}{{3, "missing.yaml"}}
	}
	w.key = fmt.Sprint(w.fs, w.dotenv, w.os, w.configs)
	return w
}

func cliRandomStep(rng *rand.Rand, last bool) cliStep {
	if last {
		return cliStep{[]string{"load", "load", "load-model"}[rng.Intn(3)], 0}
	}
	switch rng.Intn(14) {
	case 12:
		return cliStep{"profiles", [][]interface{}{{"x"}, {"dbg", "x"}, {}, {"*"}}[rng.Intn(4)]}
	case 13:
		return cliStep{"default-profiles", [][]interface{}{{}, {}, {"*"}, {"y"}}[rng.Intn(4)]}
	case 0:
		return cliStep{"name", []string{"explicit-1", "Bad.Name", "", "other_2"}[rng.Intn(4)]}
	case 1:
		return cliStep{"workdir", []int{0, 2, 3, 4, 1}[rng.Intn(5)]}
	case 2, 3:
		return cliStep{"config-file-env", 0}
	case 4, 5:
		return cliStep{"default-config-path", 0}
	case 6:
		envs := [][]interface{}{{[]interface{}{"VV", "ex"}}, {[]interface{}{"COMPOSE_FILE", "../compose.yaml"}}, {[]interface{}{"COMPOSE_PROJECT_NAME", "from-explicit-env"}, []interface{}{"VV", ""}}, {[]interface{}{"COMPOSE_PATH_SEPARATOR", ","}}}
		return cliStep{"env", envs[rng.Intn(len(envs))]}
	case 7:
		return cliStep{"os-env", 0}
	case 8:
		return cliStep{"env-files-default", 0}
	case 9:
		fs := [][]interface{}{{[]interface{}{4, ".env"}}, {[]interface{}{2, ".env"}, []interface{}{4, ".env"}}, {[]interface{}{4, ".env"}, []interface{}{3, ".env"}}, {[]interface{}{3, ".env"}, []interface{}{2, ".env"}}}
		return cliStep{"env-files", fs[rng.Intn(len(fs))]}
	default:
		return cliStep{"dot-env", 0}
	}
}
