//go:build verif

package checks

import (
	"fmt"
	"math/rand"
	"os"
	"path/filepath"
	"reflect"
	"strings"
	"time"

	"github.com/compose-spec/compose-go/v2/dotenv"

	"verif/harness/internal/core"
)

func init() { Register("C18", "model_checking", C18) }

var c18Lookup = map[string]string{"A": "la", "B": "lb", "E": ""} // the Lookup constant of MC_Dotenv.tla (E is set to the empty string)

func c18Parse(text string) (m map[string]string, err error, pan interface{}, hung bool) {
	type res struct {
		m   map[string]string
		err error
		pan interface{}
	}
	ch := make(chan res, 1)
	go func() {
		var r res
		defer func() {
			if p := recover(); p != nil {
				r.pan = p
			}
			ch <- r
		}()
		r.m, r.err = dotenv.ParseWithLookup(strings.NewReader(text), func(k string) (string, bool) {
			v, ok := c18Lookup[k]
			return v, ok
		})
	}()
	select {
	case r := <-ch:
		return r.m, r.err, r.pan, false
	case <-time.After(10 * time.Second):
		return nil, nil, nil, true
	}
}

func c18Sig(text string, lines int) string {
	last := text[strings.LastIndexByte(text, '\n')+1:]
	if t := strings.TrimSpace(last); t != "" && !strings.ContainsAny(t, "=:#'\"") {
		return "bare-key-at-eof"
	}
	switch {
	case strings.Contains(text, "\""):
		return "double-quoted"
	case strings.Contains(text, "'"):
		return "single-quoted"
	case !strings.ContainsAny(text, "=:"):
		if !strings.HasSuffix(text, "\n") {
			return "bare-key-at-eof"
		}
		return "bare-key"
	}
	return "unquoted"
}

func C18(c *core.Ctx) {
	for _, k := range []string{"A", "B", "E", "U", "K1"} { // the names the generated files refer to, with values no layer of the model has
		os.Setenv(k, "from-process-environment-"+k)
		defer os.Unsetenv(k)
	}
	c.Assumption("TLC 1.8.0; spec/text/Dotenv.tla written from the documented dotenv grammar; replay through dotenv.ParseWithLookup and UnmarshalWithLookup")
	type run struct{ name, cfg string }
	mk := func(lines int, first, second bool) string {
		return fmt.Sprintf("SPECIFICATION Spec\nCONSTANTS MaxLines = %d\n FirstAll = %v\n SecondAll = %v\nINVARIANTS Laws\nCHECK_DEADLOCK FALSE\n", lines, strings.ToUpper(fmt.Sprint(first)), strings.ToUpper(fmt.Sprint(second)))
	}
	runs := []run{{"one-line", mk(1, true, true)}, {"few-then-all", mk(2, false, true)}}
	if !c.Quick() {
		runs = append(runs, run{"all-then-few", mk(2, true, false)})
	}
	for _, rn := range runs {
		dump := filepath.Join(c.Work, rn.name)
		r, err := c.RunTLC(core.TLCOpts{Module: "MC_Dotenv", CfgText: rn.cfg, Dump: dump, Workers: 16, Timeout: 60 * time.Minute, Name: rn.name})
		if err != nil {
			c.Inconclusive("dotenv model failed: " + err.Error())
			return
		}
		c.AddTLC(r)
		if r.Violated != "" {
			c.Inconclusive("Dotenv specification violates " + r.Violated)
			return
		}
		n := 0
		_, err = core.ReadDump(dump+".dump", func(vars map[string]interface{}) error {
			vec := asMap(vars["vec"])
			if _, seed := vec["seed"]; seed {
				return nil
			}
			n++
			text := asStr(vec["text"])
			exp := asMap(vec["exp"])
			want := map[string]string{}
			for _, e := range asList(exp["kv"]) {
				want[asStr(asMap(e)["k"])] = asStr(asMap(e)["v"])
			}
			got, err, pan, hung := c18Parse(text)
			c.Eval(text, strings.ContainsAny(text, "=:"))
			if n%499 == 1 {
				c.Sample(map[string]interface{}{"file": text, "grammar_defines": exp, "parser_returned": got, "err": fmt.Sprint(err)})
			}
			fail := ""
			switch {
			case hung:
				fail = "the parser does not return"
			case pan != nil:
				fail = fmt.Sprintf("the parser panics: %v", pan)
			case asBool(exp["ok"]):
				if err != nil {
					fail = fmt.Sprintf("error %v; the grammar defines %v", err, want)
				} else if !reflect.DeepEqual(got, want) {
					fail = fmt.Sprintf("parsed as %q; the grammar defines %q", got, want)
				}
			default:
				if err == nil {
					fail = fmt.Sprintf("parsed as %q; the grammar defines an error (required variable missing)", got)
				}
			}
			if fail == "" && err == nil {
				// the two entry points agree
				if m2, err2 := dotenv.UnmarshalWithLookup(text, func(k string) (string, bool) { v, ok := c18Lookup[k]; return v, ok }); err2 != nil || !reflect.DeepEqual(m2, got) {
					fail = fmt.Sprintf("UnmarshalWithLookup gives %q, %v but ParseWithLookup %q", m2, err2, got)
				}
			}
			// the entry points that take no lookup: the file's own lines are all there is, whatever the process environment holds
			if exp0 := asMap(vec["exp0"]); fail == "" && exp0 != nil && n%3 == 0 {
				want0 := map[string]string{}
				for _, e := range asList(exp0["kv"]) {
					want0[asStr(asMap(e)["k"])] = asStr(asMap(e)["v"])
				}
				m0, err0 := func() (m map[string]string, err error) {
					defer func() {
						if r := recover(); r != nil {
							err = fmt.Errorf("panic: %v", r)
						}
					}()
					if n%2 == 0 {
						return dotenv.Parse(strings.NewReader(text))
					}
					return dotenv.UnmarshalWithLookup(text, nil)
				}()
				switch {
				case err0 != nil && strings.HasPrefix(err0.Error(), "panic"):
					fail = "without a lookup function: " + err0.Error()
				case asBool(exp0["ok"]) && (err0 != nil || !reflect.DeepEqual(m0, want0)):
					fail = fmt.Sprintf("without a lookup function (Parse / UnmarshalWithLookup(nil)) parsed as %q, %v; the file's own lines define %q", m0, err0, want0)
				case !asBool(exp0["ok"]) && err0 == nil:
					fail = fmt.Sprintf("without a lookup function parsed as %q; the grammar defines an error (required variable missing)", m0)
				}
			}
			if fail != "" {
				c.Report(core.Finding{Sig: "grammar:" + c18Sig(text, asInt(vec["lines"])), Detail: fmt.Sprintf("env file %q: %s", text, fail), Replay: map[string]interface{}{"file": text, "lookup": c18Lookup, "expected": exp}})
			}
			return nil
		})
		if err != nil {
			c.Inconclusive("cannot read the state dump: " + err.Error())
			return
		}
		c.AddTraces(int64(n))
		c.Set("grammar_cases_"+rn.name, n)
		c.Logf("%s: %d env files replayed", rn.name, n)
	}

	// ---- arbitrary strings
	maxLen := 5
	if !c.Quick() {
		maxLen = 6
	}
	dump := filepath.Join(c.Work, "strings")
	r, err := c.RunTLC(core.TLCOpts{Module: "DotenvStrings", CfgText: fmt.Sprintf("SPECIFICATION Spec\nCONSTANTS MaxLen = %d\nINVARIANTS Sane\nCHECK_DEADLOCK FALSE\n", maxLen), Dump: dump, Workers: 16, Timeout: 60 * time.Minute, Name: "strings"})
	if err != nil {
		c.Inconclusive("DotenvStrings failed: " + err.Error())
		return
	}
	c.AddTLC(r)
	classes := map[string]int{}
	var corpus []string
	_, err = core.ReadDump(dump+".dump", func(vars map[string]interface{}) error {
		vec := asMap(vars["vec"])
		if _, seed := vec["seed"]; seed {
			return nil
		}
		s, class := asStr(vec["s"]), asStr(vec["class"])
		classes[class]++
		if len(corpus) < 4000 && len(s) == maxLen && classes[class]%7 == 0 {
			corpus = append(corpus, s)
		}
		got, err, pan, hung := c18Parse(s)
		c.Eval("str|"+s, class != "other")
		switch {
		case hung:
			c.Report(core.Finding{Sig: "hang", Detail: fmt.Sprintf("parsing %q does not return", s), Replay: s})
		case pan != nil:
			c.Report(core.Finding{Sig: "panic", Detail: fmt.Sprintf("parsing %q panics: %v", s, pan), Replay: s})
		case class != "other" && err == nil:
			c.Report(core.Finding{Sig: class + "-accepted", Detail: fmt.Sprintf("%q (%s) parses as %q without error", s, class, got), Replay: s})
		}
		return nil
	})
	if err != nil {
		c.Inconclusive("cannot read the string dump: " + err.Error())
		return
	}
	c.Set("string_classes", classes)
	c.Logf("strings up to length %d: %v", maxLen, classes)
	// ---- seeded mutations of longer inputs (totality only)
	rng := rand.New(rand.NewSource(c.Seed))
	nm := 20000
	if !c.Quick() {
		nm = 1000000
	}
	alphabet := []byte("K=:'\"\\#$ \n\r\t{}-?x\xa0\x85")
	for i := 0; i < nm && len(corpus) > 0; i++ {
		s := corpus[rng.Intn(len(corpus))] + corpus[rng.Intn(len(corpus))] + corpus[rng.Intn(len(corpus))]
		b := []byte(s)
		for k := 0; k < 1+rng.Intn(3); k++ {
			switch rng.Intn(3) {
			case 0:
				b[rng.Intn(len(b))] = alphabet[rng.Intn(len(alphabet))]
			case 1:
				p := rng.Intn(len(b))
				b = append(b[:p], b[p+1:]...)
			default:
				p := rng.Intn(len(b) + 1)
				b = append(b[:p], append([]byte{alphabet[rng.Intn(len(alphabet))]}, b[p:]...)...)
			}
		}
		_, _, pan, hung := c18Parse(string(b))
		c.Eval("mut|"+string(b), true)
		if pan != nil || hung {
			c.Report(core.Finding{Sig: "panic-mutated", Detail: fmt.Sprintf("parsing %q: panic=%v hang=%v", string(b), pan, hung), Replay: string(b)})
		}
	}
	c.Set("mutated_inputs", nm)
	c.Set("rule", "cases are env files of 1-2 lines enumerated exhaustively by TLC from the line grammar (x CRLF/LF x final newline or not), every string over a 10-symbol alphabet up to the length bound, and seeded byte mutations; non-trivial when the text contains an assignment or belongs to an error class")
}
