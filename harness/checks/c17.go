//go:build verif

package checks

import (
	"context"
	"fmt"
	"io"
	"os"
	"path/filepath"
	"regexp"
	"strings"
	"time"

	"github.com/compose-spec/compose-go/v2/cli"
	"github.com/compose-spec/compose-go/v2/loader"
	"github.com/compose-spec/compose-go/v2/types"
	"github.com/sirupsen/logrus"

	"verif/harness/internal/core"
)

func init() { Register("C17", "model_checking", C17) }

type optVal struct {
	Set bool
	V   string
}

func optOf(v interface{}) optVal { m := asMap(v); return optVal{asBool(m["set"]), asStr(m["v"])} }

var reProjectName = regexp.MustCompile(`^[a-z0-9][a-z0-9_-]*$`)

func setOS(k string, v optVal) {
	if v.Set {
		os.Setenv(k, v.V)
	} else {
		os.Unsetenv(k)
	}
}

func C17(c *core.Ctx) {
	logrus.SetOutput(io.Discard)
	c.Assumption("TLC 1.8.0; spec/files/ProjectName.tla written from the documented precedence rules; replay through cli.NewProjectOptions(...).LoadProject in real directories; the OS environment of the harness process is set per case (cases run sequentially)")
	os.Unsetenv("COMPOSE_PROJECT_NAME")
	os.Unsetenv("COMPOSE_DISABLE_ENV_FILE")
	maxFiles := 2
	if !c.Quick() {
		maxFiles = 3
	}
	dump := filepath.Join(c.Work, "lattice")
	r, err := c.RunTLC(core.TLCOpts{Module: "MC_ProjectName", CfgText: fmt.Sprintf("SPECIFICATION Spec\nCONSTANTS MaxFiles = %d\nINVARIANTS Laws\nCHECK_DEADLOCK FALSE\n", maxFiles), Dump: dump, Timeout: 30 * time.Minute, Name: "name"})
	if err != nil {
		c.Inconclusive("MC_ProjectName failed: " + err.Error())
		return
	}
	c.AddTLC(r)
	if r.Violated != "" {
		c.Inconclusive("ProjectName specification violates " + r.Violated)
		return
	}
	root := filepath.Join(c.Work, "dirs")
	n := 0
	_, err = core.ReadDump(dump+".dump", func(vars map[string]interface{}) error {
		pt := asMap(vars["pt"])
		if _, seed := pt["seed"]; seed {
			return nil
		}
		n++
		explicit := optOf(pt["explicit"])
		cpn := asMap(pt["cpn"])
		ex, osv, de := optOf(cpn["ex"]), optOf(cpn["os"]), optOf(cpn["de"])
		dirBase := asStr(pt["dir"])
		exp := asMap(pt["exp"])
		dir := filepath.Join(root, fmt.Sprint(n), dirBase)
		if n%7 == 3 {
			// the project directory is a symbolic link to a directory of another name: the link is the project directory
			target := filepath.Join(root, fmt.Sprint(n), "Real.Target-of-link")
			if err := os.MkdirAll(target, 0o755); err != nil {
				return err
			}
			if err := os.Symlink(target, dir); err != nil {
				return err
			}
		} else if err := os.MkdirAll(dir, 0o755); err != nil {
			return err
		}
		defer os.RemoveAll(filepath.Join(root, fmt.Sprint(n)))
		var files []string
		var desc []string
		for i, f := range asList(pt["files"]) {
			fm := asMap(f)
			doc := ""
			if asStr(fm["kind"]) != "none" {
				doc += fmt.Sprintf("name: %q\n", asStr(fm["text"]))
			}
			if i == 0 {
				doc += "services:\n  a:\n    image: \"img-${COMPOSE_PROJECT_NAME}\"\n"
			} else {
				doc += fmt.Sprintf("services:\n  a:\n    labels:\n      f%d: x\n", i)
			}
			p := filepath.Join(dir, fmt.Sprintf("f%d.yaml", i+1))
			if err := os.WriteFile(p, []byte(doc), 0o644); err != nil {
				return err
			}
			files = append(files, p)
			desc = append(desc, asStr(fm["kind"])+":"+asStr(fm["text"]))
		}
		// every third point: the same compose files as the documents of one multi-document file (the last document that
		// sets a name decides, as the last file does)
		if n%3 == 0 && len(files) > 1 {
			var docs []string
			for _, f := range files {
				b, _ := os.ReadFile(f)
				docs = append(docs, string(b))
			}
			multi := filepath.Join(dir, "multi.yaml")
			if err := os.WriteFile(multi, []byte(strings.Join(docs, "---\n")), 0o644); err != nil {
				return err
			}
			files = []string{multi}
			desc = append(desc, "(as documents of one file)")
		}
		if de.Set {
			_ = os.WriteFile(filepath.Join(dir, ".env"), []byte("COMPOSE_PROJECT_NAME="+de.V+"\n"), 0o644)
		}
		setOS("COMPOSE_PROJECT_NAME", osv)
		defer os.Unsetenv("COMPOSE_PROJECT_NAME")
		env := []string{"NV=fromvar"}
		if ex.Set {
			env = append(env, "COMPOSE_PROJECT_NAME="+ex.V)
		}
		opts := []cli.ProjectOptionsFn{cli.WithWorkingDirectory(dir)}
		if explicit.Set {
			opts = append(opts, cli.WithName(explicit.V))
		}
		if n%2 == 0 {
			opts = append(opts, cli.WithEnv(env), cli.WithOsEnv)
		} else {
			opts = append(opts, cli.WithOsEnv, cli.WithEnv(env))
		}
		opts = append(opts, cli.WithEnvFiles(), cli.WithDotEnv)
		// the name rules do not depend on the model being normalised or checked for consistency
		switch n % 5 {
		case 1:
			opts = append(opts, cli.WithNormalization(false))
			desc = append(desc, "(without normalisation)")
		case 3:
			opts = append(opts, cli.WithConsistency(false), cli.WithResolvedPaths(false))
			desc = append(desc, "(without consistency check and path resolution)")
		}
		key := fmt.Sprintf("explicit=%v cpn[ex=%v os=%v dotenv=%v] files=%v dir=%s", explicit, ex, osv, de, desc, dirBase)
		c.Eval(key, explicit.Set || ex.Set || osv.Set || de.Set || len(files) > 1)
		got, gotErr := func() (name string, err error) {
			defer func() {
				if p := recover(); p != nil {
					err = fmt.Errorf("panic: %v", p)
				}
			}()
			po, err := cli.NewProjectOptions(files, opts...)
			if err != nil {
				return "", err
			}
			p, err := po.LoadProject(context.Background())
			if err != nil {
				return "", err
			}
			if p.Environment["COMPOSE_PROJECT_NAME"] != p.Name {
				return p.Name, fmt.Errorf("@@env: COMPOSE_PROJECT_NAME in the project environment is %q", p.Environment["COMPOSE_PROJECT_NAME"])
			}
			if img := p.Services["a"].Image; img != "img-"+p.Name {
				return p.Name, fmt.Errorf("@@interp: interpolation sees COMPOSE_PROJECT_NAME as %q", strings.TrimPrefix(img, "img-"))
			}
			return p.Name, nil
		}()
		if n%701 == 1 {
			c.Sample(map[string]interface{}{"case": key, "rules_define": exp, "loaded_name": got, "err": fmt.Sprint(gotErr)})
		}
		fail := func(sig, d string) {
			c.Report(core.Finding{Sig: sig, Detail: d + " — " + key, Replay: map[string]interface{}{"case": key, "expected": exp}})
		}
		switch {
		case gotErr != nil && strings.HasPrefix(gotErr.Error(), "panic"):
			fail("panic", gotErr.Error())
		case gotErr != nil && strings.HasPrefix(gotErr.Error(), "@@"):
			fail("name-not-visible", gotErr.Error())
		case asBool(exp["ok"]):
			if gotErr != nil {
				fail("rejected", fmt.Sprintf("load fails (%v); the rules define the name %q", gotErr, asStr(exp["name"])))
			} else if got != asStr(exp["name"]) {
				fail("wrong-name", fmt.Sprintf("project name is %q; the rules define %q", got, asStr(exp["name"])))
			} else if !reProjectName.MatchString(got) {
				fail("malformed-name", fmt.Sprintf("project name %q does not match [a-z0-9][a-z0-9_-]*", got))
			}
		default:
			if gotErr == nil {
				fail("accepted", fmt.Sprintf("load succeeds with name %q; the rules define an error", got))
			}
		}
		// the same files handed to the loader itself as parsed documents (ConfigFile.Config, nothing on disk under that name):
		// without an explicit name or COMPOSE_PROJECT_NAME the name of the last file that sets one decides, and there is no
		// directory to fall back on
		if !explicit.Set && !ex.Set && !osv.Set && !de.Set && n%3 != 0 {
			var cfs []types.ConfigFile
			lastSet, lastText := false, ""
			for i, f := range asList(pt["files"]) {
				fm := asMap(f)
				doc := map[string]interface{}{"services": map[string]interface{}{"a": map[string]interface{}{"image": "img"}}}
				if asStr(fm["kind"]) != "none" {
					doc["name"] = asStr(fm["text"])
					lastSet, lastText = true, asStr(asMap(fm["v"])["v"])
				}
				cfs = append(cfs, types.ConfigFile{Filename: filepath.Join(dir, fmt.Sprintf("parsed%d.yaml", i+1)), Config: doc})
			}
			wantName := ""
			if lastSet {
				wantName = loader.NormalizeProjectName(lastText)
			}
			p, perr := func() (p *types.Project, err error) {
				defer func() {
					if r := recover(); r != nil {
						err = fmt.Errorf("panic: %v", r)
					}
				}()
				return loader.LoadWithContext(context.Background(), types.ConfigDetails{WorkingDir: dir, ConfigFiles: cfs, Environment: types.Mapping{"NV": "fromvar"}})
			}()
			c.Eval(key+" [parsed documents]", true)
			switch {
			case perr != nil && strings.HasPrefix(perr.Error(), "panic"):
				fail("panic", perr.Error())
			case wantName != "" && perr != nil:
				fail("parsed-rejected", fmt.Sprintf("the files handed over as parsed documents fail to load (%v); the last file that sets a name gives %q", perr, wantName))
			case wantName != "" && p.Name != wantName:
				fail("parsed-wrong-name", fmt.Sprintf("the files handed over as parsed documents load as project %q; the last file that sets a name gives %q", p.Name, wantName))
			case wantName == "" && perr == nil:
				fail("parsed-accepted", fmt.Sprintf("no file sets a usable name and none is given, yet the parsed documents load as project %q", p.Name))
			}
		}
		return nil
	})
	if err != nil {
		c.Inconclusive("lattice replay: " + err.Error())
		return
	}
	c.AddTraces(int64(n))
	c.Set("name_lattice_points", n)
	c.Logf("name lattice: %d points replayed", n)

	// ---- project environment precedence
	dump2 := filepath.Join(c.Work, "envlattice")
	r2, err := c.RunTLC(core.TLCOpts{Module: "MC_ProjectEnv", Dump: dump2, Workers: 2, Timeout: 10 * time.Minute, Name: "env"})
	if err != nil {
		c.Inconclusive("MC_ProjectEnv failed: " + err.Error())
		return
	}
	c.AddTLC(r2)
	if r2.Violated != "" {
		c.Inconclusive("ProjectEnv specification violates " + r2.Violated)
		return
	}
	m := 0
	_, err = core.ReadDump(dump2+".dump", func(vars map[string]interface{}) error {
		pt := asMap(vars["pt"])
		m++
		ex, osv, e1, e2 := optOf(pt["ex"]), optOf(pt["os"]), optOf(pt["e1"]), optOf(pt["e2"])
		dir := filepath.Join(root, fmt.Sprintf("e%d", m), "proj")
		_ = os.MkdirAll(dir, 0o755)
		defer os.RemoveAll(filepath.Join(root, fmt.Sprintf("e%d", m)))
		_ = os.WriteFile(filepath.Join(dir, "compose.yaml"), []byte("services:\n  a:\n    image: \"img-${VV:-none}-${RR:-none}\"\n"), 0o644)
		f1, f2 := "OTHER=1\n", ""
		if e1.Set {
			f1 += "VV=" + e1.V + "\n"
		}
		if e2.Set {
			f2 += "VV=" + e2.V + "\n"
		}
		f2 += "RR=${VV}\n"
		_ = os.WriteFile(filepath.Join(dir, "one.env"), []byte(f1), 0o644)
		_ = os.WriteFile(filepath.Join(dir, "two.env"), []byte(f2), 0o644)
		setOS("VV", osv)
		defer os.Unsetenv("VV")
		var env []string
		if ex.Set {
			env = append(env, "VV="+ex.V)
		}
		opts := []cli.ProjectOptionsFn{cli.WithWorkingDirectory(dir), cli.WithName("proj")}
		if asStr(pt["order"]) == "env-then-os" {
			opts = append(opts, cli.WithEnv(env), cli.WithOsEnv)
		} else {
			opts = append(opts, cli.WithOsEnv, cli.WithEnv(env))
		}
		opts = append(opts, cli.WithEnvFiles(filepath.Join(dir, "one.env"), filepath.Join(dir, "two.env")), cli.WithDotEnv)
		key := fmt.Sprintf("V in explicit=%v os=%v env1=%v env2=%v order=%s", ex, osv, e1, e2, asStr(pt["order"]))
		c.Eval(key, ex.Set || osv.Set || e1.Set || e2.Set)
		po, err := cli.NewProjectOptions([]string{filepath.Join(dir, "compose.yaml")}, opts...)
		if err != nil {
			c.Report(core.Finding{Sig: "env-options-error", Detail: err.Error() + " — " + key, Replay: key})
			return nil
		}
		p, err := po.LoadProject(context.Background())
		if err != nil {
			c.Report(core.Finding{Sig: "env-load-error", Detail: err.Error() + " — " + key, Replay: key})
			return nil
		}
		expV := optOf(pt["expV"])
		gotV, has := p.Environment["VV"]
		if has != expV.Set || gotV != expV.V {
			c.Report(core.Finding{Sig: "env-precedence", Detail: fmt.Sprintf("project environment VV = %q (present %v); the precedence rules define %q (present %v) — %s", gotV, has, expV.V, expV.Set, key), Replay: key})
		}
		if asBool(pt["refEnforced"]) {
			if gotR := p.Environment["RR"]; gotR != asStr(pt["expR"]) {
				c.Report(core.Finding{Sig: "env-reference", Detail: fmt.Sprintf("RR=${VV} written in the second .env resolves to %q; expected %q — %s", gotR, asStr(pt["expR"]), key), Replay: key})
			}
			wantImg := "img-" + orNone(expV) + "-" + orNoneS(asStr(pt["expR"]))
			if p.Services["a"].Image != wantImg {
				c.Report(core.Finding{Sig: "env-interpolation", Detail: fmt.Sprintf("image interpolates to %q, expected %q — %s", p.Services["a"].Image, wantImg, key), Replay: key})
			}
		}
		return nil
	})
	if err != nil {
		c.Inconclusive("env lattice replay: " + err.Error())
		return
	}
	c.AddTraces(int64(m))
	c.Set("env_lattice_points", m)
	c17Cli(c)
	c.Set("exhaustive", true)
	c.Set("rule", "a case is one point of the lattice {explicit name} x {COMPOSE_PROJECT_NAME sources} x {name: per file} x {directory base name}, or of {sources defining a variable} x option order; non-trivial when at least one source beyond the directory name is present")
}

func orNone(v optVal) string {
	if v.Set && v.V != "" {
		return v.V
	}
	return "none"
}
func orNoneS(s string) string {
	if s == "" {
		return "none"
	}
	return s
}
