//go:build verif

package checks

import (
	"fmt"
	"math/rand"
	"path/filepath"
	"reflect"
	"sort"
	"strconv"
	"strings"
	"time"

	"github.com/compose-spec/compose-go/v2/types"

	"verif/harness/internal/core"
)

func init() { Register("C15", "model_checking", C15) }

// absProject is the abstract project of spec/project/ProjectOps.tla (services are 1..N).
type absProject struct {
	Enabled  []int                 `json:"enabled"`
	Disabled []int                 `json:"disabled"`
	Profiles []string              `json:"profiles"`
	Sprof    [][]string            `json:"sprof"`
	Req      [][]int               `json:"req"`
	Opt      [][]int               `json:"opt"`
	Uses     []map[string][]string `json:"uses"`
	Decl     map[string][]string   `json:"decl"`
}

type absOp struct {
	Op     string   `json:"op"`
	P      []string `json:"P,omitempty"`
	Names  []int    `json:"names,omitempty"`
	Policy string   `json:"policy,omitempty"`
}

func (o absOp) MarshalJSONMap() map[string]interface{} {
	m := map[string]interface{}{"op": o.Op}
	switch o.Op {
	case "profiles":
		m["P"] = nzs(o.P)
	case "enable", "disable":
		m["names"] = nzi(o.Names)
	case "select":
		m["names"] = nzi(o.Names)
		m["policy"] = o.Policy
	}
	return m
}

func nzs(x []string) []string {
	if x == nil {
		return []string{}
	}
	return x
}
func nzi(x []int) []int {
	if x == nil {
		return []int{}
	}
	return x
}

func svcName(i int) string { return "s" + strconv.Itoa(i) }
func svcNum(s string) int  { n, _ := strconv.Atoi(strings.TrimPrefix(s, "s")); return n }

func toIntSet(v interface{}) []int {
	var r []int
	for _, x := range asList(v) {
		r = append(r, asInt(x))
	}
	sort.Ints(r)
	return nzi(r)
}
func toStrSet(v interface{}) []string {
	var r []string
	for _, x := range asList(v) {
		r = append(r, asStr(x))
	}
	sort.Strings(r)
	return nzs(r)
}

// absFromTLA converts a dumped TLA+ project record.
func absFromTLA(m map[string]interface{}) absProject {
	a := absProject{Enabled: toIntSet(m["enabled"]), Disabled: toIntSet(m["disabled"]), Profiles: toStrSet(m["profiles"]), Decl: map[string][]string{}}
	for _, x := range asList(m["sprof"]) {
		a.Sprof = append(a.Sprof, toStrSet(x))
	}
	for _, x := range asList(m["req"]) {
		a.Req = append(a.Req, toIntSet(x))
	}
	for _, x := range asList(m["opt"]) {
		a.Opt = append(a.Opt, toIntSet(x))
	}
	for _, x := range asList(m["uses"]) {
		u := map[string][]string{}
		for k, v := range asMap(x) {
			u[k] = toStrSet(v)
		}
		a.Uses = append(a.Uses, u)
	}
	for k, v := range asMap(m["decl"]) {
		a.Decl[k] = toStrSet(v)
	}
	return a
}

// buildProject makes a real types.Project with the given abstract state.
func buildProject(a absProject) *types.Project {
	p := &types.Project{Name: "proj", WorkingDir: "/work", Services: types.Services{}, DisabledServices: types.Services{},
		Networks: types.Networks{}, Volumes: types.Volumes{}, Secrets: types.Secrets{}, Configs: types.Configs{},
		Environment: types.Mapping{"COMPOSE_PROJECT_NAME": "proj"}}
	p.Profiles = append([]string{}, a.Profiles...)
	n := len(a.Sprof)
	for i := 1; i <= n; i++ {
		s := types.ServiceConfig{Name: svcName(i), Image: "img" + strconv.Itoa(i), Environment: types.MappingWithEquals{}}
		if len(a.Sprof[i-1]) > 0 {
			s.Profiles = append([]string{}, a.Sprof[i-1]...)
		} else if i%2 == 0 {
			s.Profiles = []string{} // no profile, written as an empty list (`profiles: []` loads like this) rather than left out
		}
		if len(a.Req[i-1])+len(a.Opt[i-1]) > 0 {
			s.DependsOn = types.DependsOnConfig{}
		}
		for _, d := range a.Req[i-1] {
			s.DependsOn[svcName(d)] = types.ServiceDependency{Condition: types.ServiceConditionStarted, Required: true}
		}
		for _, d := range a.Opt[i-1] {
			s.DependsOn[svcName(d)] = types.ServiceDependency{Condition: types.ServiceConditionStarted, Required: false}
		}
		u := a.Uses[i-1]
		if len(u["net"]) > 0 {
			s.Networks = map[string]*types.ServiceNetworkConfig{}
			for _, x := range u["net"] {
				s.Networks[x] = nil
			}
		}
		for _, x := range u["vol"] {
			s.Volumes = append(s.Volumes, types.ServiceVolumeConfig{Type: types.VolumeTypeVolume, Source: x, Target: "/" + x})
		}
		// bind mounts and anonymous volumes never count as references
		if i%2 == 0 {
			s.Volumes = append(s.Volumes, types.ServiceVolumeConfig{Type: types.VolumeTypeBind, Source: "/v9", Target: "/bind"})
		}
		for k, x := range u["sec"] {
			if k%2 == 1 || x == "x2" { // build secrets count as references too
				if s.Build == nil {
					s.Build = &types.BuildConfig{Context: "."}
				}
				s.Build.Secrets = append(s.Build.Secrets, types.ServiceSecretConfig{Source: x})
			} else {
				s.Secrets = append(s.Secrets, types.ServiceSecretConfig{Source: x})
			}
		}
		for _, x := range u["cfg"] {
			s.Configs = append(s.Configs, types.ServiceConfigObjConfig{Source: x})
		}
		enabled := false
		for _, e := range a.Enabled {
			if e == i {
				enabled = true
			}
		}
		if enabled {
			p.Services[s.Name] = s
		} else {
			p.DisabledServices[s.Name] = s
		}
	}
	for _, x := range a.Decl["net"] {
		p.Networks[x] = types.NetworkConfig{Name: "proj_" + x}
	}
	for _, x := range a.Decl["vol"] {
		p.Volumes[x] = types.VolumeConfig{Name: "proj_" + x}
	}
	for _, x := range a.Decl["sec"] {
		p.Secrets[x] = types.SecretConfig{Name: "proj_" + x, File: "/" + x}
	}
	for _, x := range a.Decl["cfg"] {
		p.Configs[x] = types.ConfigObjConfig{Name: "proj_" + x, File: "/" + x}
	}
	return p
}

// absOf projects a real project into the abstract state.
func absOf(p *types.Project, n int) absProject {
	a := absProject{Enabled: []int{}, Disabled: []int{}, Profiles: []string{}, Decl: map[string][]string{"net": {}, "vol": {}, "sec": {}, "cfg": {}}}
	seenP := map[string]bool{}
	for _, x := range p.Profiles {
		if !seenP[x] {
			seenP[x] = true
			a.Profiles = append(a.Profiles, x)
		}
	}
	sort.Strings(a.Profiles)
	a.Sprof = make([][]string, n)
	a.Req = make([][]int, n)
	a.Opt = make([][]int, n)
	a.Uses = make([]map[string][]string, n)
	for i := range a.Sprof {
		a.Sprof[i], a.Req[i], a.Opt[i] = []string{}, []int{}, []int{}
		a.Uses[i] = map[string][]string{"net": {}, "vol": {}, "sec": {}, "cfg": {}}
	}
	fill := func(name string, s types.ServiceConfig, enabled bool) {
		i := svcNum(name)
		if i < 1 || i > n {
			return
		}
		if enabled {
			a.Enabled = append(a.Enabled, i)
		} else {
			a.Disabled = append(a.Disabled, i)
		}
		a.Sprof[i-1] = append([]string{}, s.Profiles...)
		sort.Strings(a.Sprof[i-1])
		for d, dep := range s.DependsOn {
			if dep.Required {
				a.Req[i-1] = append(a.Req[i-1], svcNum(d))
			} else {
				a.Opt[i-1] = append(a.Opt[i-1], svcNum(d))
			}
		}
		sort.Ints(a.Req[i-1])
		sort.Ints(a.Opt[i-1])
		u := a.Uses[i-1]
		for k := range s.Networks {
			u["net"] = append(u["net"], k)
		}
		for _, v := range s.Volumes {
			if v.Type == types.VolumeTypeVolume && v.Source != "" {
				u["vol"] = append(u["vol"], v.Source)
			}
		}
		for _, v := range s.Secrets {
			u["sec"] = append(u["sec"], v.Source)
		}
		if s.Build != nil {
			for _, v := range s.Build.Secrets {
				u["sec"] = append(u["sec"], v.Source)
			}
		}
		for _, v := range s.Configs {
			u["cfg"] = append(u["cfg"], v.Source)
		}
		for _, k := range []string{"net", "vol", "sec", "cfg"} {
			sort.Strings(u[k])
		}
	}
	for name, s := range p.Services {
		fill(name, s, true)
	}
	for name, s := range p.DisabledServices {
		fill(name, s, false)
	}
	sort.Ints(a.Enabled)
	sort.Ints(a.Disabled)
	for k := range p.Networks {
		a.Decl["net"] = append(a.Decl["net"], k)
	}
	for k := range p.Volumes {
		a.Decl["vol"] = append(a.Decl["vol"], k)
	}
	for k := range p.Secrets {
		a.Decl["sec"] = append(a.Decl["sec"], k)
	}
	for k := range p.Configs {
		a.Decl["cfg"] = append(a.Decl["cfg"], k)
	}
	for _, k := range []string{"net", "vol", "sec", "cfg"} {
		sort.Strings(a.Decl[k])
	}
	return a
}

func applyOp(p *types.Project, o absOp) (*types.Project, error) {
	var names []string
	for _, n := range o.Names {
		names = append(names, svcName(n))
	}
	switch o.Op {
	case "profiles":
		return p.WithProfiles(append([]string{}, o.P...))
	case "enable":
		return p.WithServicesEnabled(names...)
	case "disable":
		return p.WithServicesDisabled(names...), nil
	case "select":
		opt := types.IncludeDependencies
		switch o.Policy {
		case "dependents":
			opt = types.IncludeDependents
		case "none":
			opt = types.IgnoreDependencies
		}
		return p.WithSelectedServices(names, opt)
	case "prune":
		return p.WithoutUnnecessaryResources(), nil
	}
	panic("unknown op " + o.Op)
}

func allOps(n int) []absOp {
	var ops []absOp
	profs := []string{"p", "q", "*"}
	for m := 0; m < 8; m++ {
		var P []string
		for i, x := range profs {
			if m&(1<<i) != 0 {
				P = append(P, x)
			}
		}
		ops = append(ops, absOp{Op: "profiles", P: P})
	}
	for m := 0; m < 1<<n; m++ {
		var ns []int
		for i := 0; i < n; i++ {
			if m&(1<<i) != 0 {
				ns = append(ns, i+1)
			}
		}
		ops = append(ops, absOp{Op: "enable", Names: ns}, absOp{Op: "disable", Names: ns})
		for _, pol := range []string{"deps", "dependents", "none"} {
			ops = append(ops, absOp{Op: "select", Names: ns, Policy: pol})
		}
	}
	ops = append(ops, absOp{Op: "prune"})
	return ops
}

type c15Event struct {
	pre  absProject
	o    absOp
	post interface{} // absProject or error marker
}

func (e c15Event) rec() map[string]interface{} {
	return map[string]interface{}{"pre": e.pre, "o": e.o.MarshalJSONMap(), "post": e.post}
}

// c15Step executes one real operation (three times, for the functional clause) and records the transition.
func c15Step(c *core.Ctx, real *types.Project, pre absProject, o absOp, n int) (c15Event, *types.Project) {
	q, err := applyOp(real, o)
	for rep := 0; rep < 2; rep++ {
		q2, err2 := applyOp(real, o)
		if (err == nil) != (err2 == nil) || (err == nil && !reflect.DeepEqual(q, q2)) {
			desc := func(p *types.Project, e error) string {
				if e != nil || p == nil {
					return fmt.Sprintf("error %v", e)
				}
				return fmt.Sprintf("%+v", absOf(p, n))
			}
			c.Report(core.Finding{Sig: "nonfunctional:" + o.Op, Detail: fmt.Sprintf("%s%v/%s applied twice to the same project %+v gives different results: %s vs %s", o.Op, o.Names, o.Policy, pre, desc(q, err), desc(q2, err2)),
				Replay: map[string]interface{}{"pre": pre, "op": o}})
			break
		}
	}
	// the receiver is a value: whatever was derived from it, it still projects to the same abstract project
	if after := absOf(real, n); !reflect.DeepEqual(after, pre) {
		c.Report(core.Finding{Sig: "receiver-modified:" + o.Op, Detail: fmt.Sprintf("%s%v/%s modified the project it was applied to: %+v became %+v", o.Op, o.Names, o.Policy, pre, after),
			Replay: map[string]interface{}{"pre": pre, "op": o}})
	}
	ev := c15Event{pre: pre, o: o}
	if err != nil {
		ev.post = map[string]bool{"error": true}
		return ev, nil
	}
	ev.post = absOf(q, n)
	return ev, q
}

// c15Judge lets TLC judge recorded transitions; returns indices (0-based) of violations and drifts.
func c15Judge(c *core.Ctx, name string, n int, events []c15Event) (bad, drift []int, ok bool) {
	if len(events) == 0 {
		return nil, nil, true
	}
	shards := 8
	if len(events) < 4000 {
		shards = 1
	}
	type sr struct {
		bad, drift []int
		ok         bool
	}
	res := make([]sr, shards)
	done := make(chan int, shards)
	per := (len(events) + shards - 1) / shards
	for s := 0; s < shards; s++ {
		go func(s int) {
			defer func() { done <- s }()
			lo, hi := s*per, min((s+1)*per, len(events))
			if lo >= hi {
				res[s].ok = true
				return
			}
			var recs []interface{}
			for _, e := range events[lo:hi] {
				recs = append(recs, e.rec())
			}
			path := filepath.Join(c.Work, fmt.Sprintf("%s-%d.ndjson", name, s))
			if err := core.WriteNDJSON(path, recs); err != nil {
				c.Inconclusive(err.Error())
				return
			}
			r, err := c.RunTLC(core.TLCOpts{Module: "Trace_ProjectOps", CfgText: fmt.Sprintf("SPECIFICATION Spec\nCONSTANTS N = %d\n Profs = {\"p\", \"q\"}\nINVARIANTS Report\nCHECK_DEADLOCK FALSE\n", n),
				Env: map[string]string{"TRACE": path}, Workers: 1, Timeout: 30 * time.Minute, Name: fmt.Sprintf("%s%d", name, s)})
			if err != nil {
				c.Inconclusive("transition judge failed: " + err.Error())
				return
			}
			c.AddTLC(r)
			v, found := core.FindPrinted(r.Output, "VERDICTS")
			if !found {
				c.Inconclusive("transition judge printed no verdicts: " + tailStr(r.Output, 500))
				return
			}
			l := asList(v)
			if asInt(l[1]) != hi-lo {
				c.Inconclusive(fmt.Sprintf("judge consumed %d of %d lines", asInt(l[1]), hi-lo))
				return
			}
			for _, x := range asList(l[2]) {
				res[s].bad = append(res[s].bad, lo+asInt(x)-1)
			}
			for _, x := range asList(l[3]) {
				res[s].drift = append(res[s].drift, lo+asInt(x)-1)
			}
			res[s].ok = true
		}(s)
	}
	for s := 0; s < shards; s++ {
		<-done
	}
	ok = true
	for _, r := range res {
		ok = ok && r.ok
		bad = append(bad, r.bad...)
		drift = append(drift, r.drift...)
	}
	return
}

func c15Report(c *core.Ctx, events []c15Event, bad, drift []int) {
	for _, i := range bad {
		e := events[i]
		c.Report(core.Finding{Sig: "statement:" + e.o.Op + ":" + e.o.Policy, Detail: fmt.Sprintf("%s names=%v policy=%s P=%v on %+v gives %+v, which the statement forbids (StepOK false)", e.o.Op, e.o.Names, e.o.Policy, e.o.P, e.pre, e.post), Replay: e.rec()})
	}
	for k, i := range drift {
		if k < 5 {
			e := events[i]
			c.Drift(fmt.Sprintf("result outside the specification's result set (statement still satisfied): %s names=%v policy=%s on %+v gives %+v", e.o.Op, e.o.Names, e.o.Policy, e.pre, e.post))
		}
	}
}

func C15(c *core.Ctx) {
	rng := rand.New(rand.NewSource(c.Seed))
	c.Assumption("TLC 1.8.0; spec/project/ProjectOps.tla; the projection absOf (services, profiles, depends_on, resource references, declared resources) and buildProject are harness code independent of the library's own copy/selection code")
	fam := func(n int, profSets, edges, uses string, depth int) string {
		return fmt.Sprintf("CONSTANTS N = %d\n Profs = {\"p\", \"q\"}\n ProfSets = %s\n EdgeKinds = %s\n UsePatterns = %s\n", n, profSets, edges, uses)
	}
	// ---- 1. the specification satisfies the statement (design-level model check)
	mc := "SPECIFICATION Spec\n" + fam(2, `{{}, {"p"}, {"p", "q"}}`, `{"none", "req", "opt"}`, "{1, 2, 3}", 2) + " MaxDepth = 3\nINVARIANTS StepsOK PartitionAlways Functional\nCHECK_DEADLOCK FALSE\n"
	r, err := c.RunTLC(core.TLCOpts{Module: "MC_ProjectOps", CfgText: mc, Timeout: 30 * time.Minute, Name: "mc2"})
	if err != nil {
		c.Inconclusive("ProjectOps model checking failed: " + err.Error())
		return
	}
	c.AddTLC(r)
	if r.Violated != "" {
		c.Inconclusive("ProjectOps violates " + r.Violated + ": " + tailStr(r.ErrorTrace(), 800))
		return
	}
	c.Set("mc_projectops_n2", map[string]interface{}{"distinct": r.Distinct, "generated": r.Generated})
	mc3 := "SPECIFICATION Spec\n" + fam(3, `{{}, {"p"}}`, `{"none", "req", "opt"}`, "{3}", 2) + " MaxDepth = 2\nINVARIANTS StepsOK PartitionAlways Functional\nCHECK_DEADLOCK FALSE\n"
	if !c.Quick() {
		mc3 = "SPECIFICATION Spec\n" + fam(3, `{{}, {"p"}, {"p", "q"}}`, `{"none", "req", "opt"}`, "{2, 3}", 2) + " MaxDepth = 2\nINVARIANTS StepsOK PartitionAlways Functional\nCHECK_DEADLOCK FALSE\n"
	}
	r3, err := c.RunTLC(core.TLCOpts{Module: "MC_ProjectOps", CfgText: mc3, Timeout: 60 * time.Minute, Name: "mc3"})
	if err != nil {
		c.Inconclusive("ProjectOps N=3 model checking failed: " + err.Error())
		return
	}
	c.AddTLC(r3)
	if r3.Violated != "" {
		c.Inconclusive("ProjectOps (N=3) violates " + r3.Violated)
		return
	}
	c.Set("mc_projectops_n3", map[string]interface{}{"distinct": r3.Distinct, "generated": r3.Generated})

	// ---- 2. model -> code: every reachable abstract project x operations, executed on real projects, judged by TLC
	type reach struct {
		n    int
		cfg  string
		perS int // operations per state (0 = all)
	}
	rs := []reach{{2, "SPECIFICATION Spec\n" + fam(2, `{{}, {"p"}, {"p", "q"}}`, `{"none", "req", "opt"}`, "{1, 2, 3}", 0) + "INVARIANTS PartitionAlways\nCHECK_DEADLOCK FALSE\n", 3},
		{3, "SPECIFICATION Spec\n" + fam(3, `{{}, {"p"}}`, `{"none", "req", "opt"}`, "{3}", 0) + "INVARIANTS PartitionAlways\nCHECK_DEADLOCK FALSE\n", 2}}
	if !c.Quick() {
		rs[0].perS = 0
		rs[1] = reach{3, "SPECIFICATION Spec\n" + fam(3, `{{}, {"p"}, {"p", "q"}}`, `{"none", "req"}`, "{3, 4}", 0) + "INVARIANTS PartitionAlways\nCHECK_DEADLOCK FALSE\n", 6}
	}
	for _, rc := range rs {
		dump := filepath.Join(c.Work, fmt.Sprintf("reach%d", rc.n))
		rr, err := c.RunTLC(core.TLCOpts{Module: "Reach_ProjectOps", CfgText: rc.cfg, Dump: dump, Timeout: 60 * time.Minute, Name: fmt.Sprintf("reach%d", rc.n)})
		if err != nil {
			c.Inconclusive("reachability failed: " + err.Error())
			return
		}
		c.AddTLC(rr)
		ops := allOps(rc.n)
		var events []c15Event
		states, anonymous := 0, 0
		_, err = core.ReadDump(dump+".dump", func(vars map[string]interface{}) error {
			pre := absFromTLA(asMap(vars["proj"]))
			states++
			real := buildProject(pre)
			if got := absOf(real, rc.n); !reflect.DeepEqual(got, pre) {
				return fmt.Errorf("buildProject/absOf do not round-trip: %+v vs %+v", got, pre)
			}
			sel := ops
			if rc.perS > 0 {
				sel = nil
				for k := 0; k < rc.perS; k++ {
					sel = append(sel, ops[rng.Intn(len(ops))])
				}
				// one of them a selection that follows dependencies (the operation with the most case analysis: required and
				// optional edges, enabled and disabled targets, several routes to one service)
				if len(pre.Disabled) > 0 {
					for {
						if o := ops[rng.Intn(len(ops))]; o.Op == "select" && o.Policy == "deps" && len(o.Names) > 0 {
							sel[0] = o
							break
						}
					}
				}
				// where a service that is not enabled is the target of both an optional and a required edge (it can be reached by
				// two routes that disagree on whether it may be missing), every such selection
				mixed := false
				for _, d := range pre.Disabled {
					var opt, req bool
					for i := range pre.Opt {
						for _, t := range pre.Opt[i] {
							opt = opt || t == d
						}
						for _, t := range pre.Req[i] {
							req = req || t == d
						}
					}
					mixed = mixed || (opt && req)
				}
				if mixed {
					for _, o := range ops {
						if o.Op == "select" && o.Policy == "deps" && len(o.Names) > 0 {
							sel = append(sel, o)
						}
					}
				}
			}
			for k, o := range sel {
				ev, _ := c15Step(c, real, pre, o, rc.n)
				events = append(events, ev)
				// the same project built by hand with the services' Name fields left unset (the map key is the service's name):
				// every operation that does not ask a service for its dependents
				if (states+k)%3 == 0 && !(o.Op == "select" && o.Policy == "dependents") {
					anon := buildProject(pre)
					for name, sv := range anon.Services {
						sv.Name = ""
						anon.Services[name] = sv
					}
					for name, sv := range anon.DisabledServices {
						sv.Name = ""
						anon.DisabledServices[name] = sv
					}
					ev2, _ := c15Step(c, anon, pre, o, rc.n)
					events = append(events, ev2)
					anonymous++
				}
				c.Eval(fmt.Sprintf("%d|%+v|%+v", rc.n, pre, o), len(pre.Enabled) > 0 && (o.Op == "prune" || len(o.Names)+len(o.P) > 0))
			}
			return nil
		})
		if err != nil {
			c.Inconclusive("reachable states: " + err.Error())
			return
		}
		bad, drift, ok := c15Judge(c, fmt.Sprintf("judge%d", rc.n), rc.n, events)
		if !ok {
			return
		}
		c15Report(c, events, bad, drift)
		c.AddTraces(int64(len(events)))
		c.Set(fmt.Sprintf("model_to_code_n%d", rc.n), map[string]interface{}{"reachable_abstract_projects": states, "real_transitions_judged_by_tlc": len(events), "of_them_on_projects_without_name_fields": anonymous, "violations": len(bad), "drift": len(drift)})
		c.Logf("N=%d: %d reachable projects, %d real transitions judged, %d violations, %d drift", rc.n, states, len(events), len(bad), len(drift))
		if len(events) > 0 {
			c.Sample(events[len(events)/3].rec())
		}
	}

	// ---- 3. code -> model: random projects on 5-6 services, sequences of 5 operations fed forward on the real results
	seqs := 1500
	if !c.Quick() {
		seqs = 40000
	}
	const bigN = 6
	ops6 := allOps(bigN)
	var events []c15Event
	for i := 0; i < seqs; i++ {
		a := absProject{Profiles: []string{}, Decl: map[string][]string{"net": {"n1", "n2", "n9"}, "vol": {"v1", "v2", "v9"}, "sec": {"x1", "x2", "x9"}, "cfg": {"c1", "c9"}}}
		for s := 1; s <= bigN; s++ {
			a.Enabled = append(a.Enabled, s)
			sp := []string{}
			for _, x := range []string{"p", "q"} {
				if rng.Intn(3) == 0 {
					sp = append(sp, x)
				}
			}
			req, opt := []int{}, []int{}
			for d := 1; d < s; d++ {
				switch rng.Intn(5) {
				case 0:
					req = append(req, d)
				case 1:
					opt = append(opt, d)
				}
			}
			u := map[string][]string{"net": {}, "vol": {}, "sec": {}, "cfg": {}}
			for k, pool := range map[string][]string{"net": {"n1", "n2"}, "vol": {"v1", "v2"}, "sec": {"x1", "x2"}, "cfg": {"c1"}} {
				for _, x := range pool {
					if rng.Intn(3) == 0 {
						u[k] = append(u[k], x)
					}
				}
			}
			a.Sprof, a.Req, a.Opt, a.Uses = append(a.Sprof, sp), append(a.Req, req), append(a.Opt, opt), append(a.Uses, u)
		}
		a.Disabled = []int{}
		real := buildProject(a)
		real, _ = real.WithProfiles([]string{})
		for step := 0; step < 5; step++ {
			pre := absOf(real, bigN)
			// the kind of operation first (prune is one operation among 329 otherwise), then its arguments
			kind := []string{"profiles", "enable", "disable", "select", "prune"}[rng.Intn(5)]
			var o absOp
			for {
				o = ops6[rng.Intn(len(ops6))]
				if o.Op == kind {
					break
				}
			}
			if len(o.Names) > 3 && rng.Intn(2) == 0 {
				o.Names = o.Names[:2]
			}
			ev, q := c15Step(c, real, pre, o, bigN)
			events = append(events, ev)
			c.Eval(fmt.Sprintf("seq|%+v|%+v", pre, o), true)
			if q != nil {
				real = q
			}
		}
	}
	bad, drift, ok := c15Judge(c, "judge6", bigN, events)
	if !ok {
		return
	}
	c15Report(c, events, bad, drift)
	c.AddTraces(int64(len(events)))
	c.Set("code_to_model_n6", map[string]interface{}{"sequences": seqs, "real_transitions_judged_by_tlc": len(events), "violations": len(bad), "drift": len(drift)})
	c.Logf("N=6 random sequences: %d transitions judged, %d violations, %d drift", len(events), len(bad), len(drift))
	c.Set("rule", "a case is one real operation applied to a real project (built from a TLC-reachable abstract project, or reached by a random sequence), executed three times; distinct by (abstract project, operation, arguments); non-trivial when the project has an enabled service and the operation has a non-empty argument (or is prune)")
}
