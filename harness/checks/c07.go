//go:build verif

package checks

import (
	"context"
	"encoding/json"
	"errors"
	"fmt"
	"github.com/compose-spec/compose-go/v2/interpolation"
	"os"
	"path/filepath"
	"regexp"
	"strings"
	"time"

	"github.com/compose-spec/compose-go/v2/loader"
	"github.com/compose-spec/compose-go/v2/template"
	"github.com/compose-spec/compose-go/v2/types"

	"verif/harness/internal/core"
)

func init() { Register("C07", "model_checking", C07) }

type tplEnv map[string]struct {
	Set bool
	V   string
}

func asMap(v interface{}) map[string]interface{} { m, _ := v.(map[string]interface{}); return m }
func asStr(v interface{}) string                 { s, _ := v.(string); return s }
func asBool(v interface{}) bool                  { b, _ := v.(bool); return b }
func asList(v interface{}) []interface{}         { l, _ := v.([]interface{}); return l }
func asInt(v interface{}) int {
	switch x := v.(type) {
	case int64:
		return int(x)
	case float64:
		return int(x)
	case int:
		return x
	}
	return 0
}

var reOps = regexp.MustCompile(`\$\{[A-Za-z_0-9]+(:?[-+?])`)

func tplSig(s string) string {
	m := reOps.FindAllStringSubmatch(s, -1)
	if len(m) == 0 {
		if strings.Contains(s, "$$") {
			return "escape"
		}
		return "plain-variable"
	}
	seen := map[string]bool{}
	var ops []string
	for _, x := range m {
		if !seen[x[1]] {
			seen[x[1]] = true
			ops = append(ops, x[1])
		}
	}
	return "operator " + strings.Join(ops, " ")
}

func safeSubstitute(s string, mapping template.Mapping) (out string, err error, panicked interface{}) {
	defer func() {
		if r := recover(); r != nil {
			panicked = r
		}
	}()
	out, err = template.SubstituteWithOptions(s, mapping, template.WithoutLogging)
	return
}

func C07(c *core.Ctx) {
	c.Assumption("TLC 1.8.0; spec/text/Template.tla written from the Compose interpolation grammar (not from template.go); replay through template.SubstituteWithOptions and through loader.LoadWithContext (label value)")
	cfg := "SPECIFICATION Spec\nCONSTANTS W0 = 1\n W1 = 2\n Deep = FALSE\n RestAny = FALSE\nINVARIANTS Laws\nCHECK_DEADLOCK FALSE\n"
	if !c.Quick() {
		cfg = "SPECIFICATION Spec\nCONSTANTS W0 = 2\n W1 = 2\n Deep = FALSE\n RestAny = TRUE\nINVARIANTS Laws\nCHECK_DEADLOCK FALSE\n"
	}
	runs := []struct{ name, cfg string }{{"grammar", cfg}}
	// one level deeper (a substitution inside a default / replacement / message), single top-level item
	runs = append(runs, struct{ name, cfg string }{"grammar-nested", "SPECIFICATION Spec\nCONSTANTS W0 = 1\n W1 = 1\n Deep = TRUE\n RestAny = FALSE\nINVARIANTS Laws\nCHECK_DEADLOCK FALSE\n"})
	// three top-level items, the first any substitution with an empty word, the others leaves (text after a substitution:
	// `$NAME`, `$$`, a closing brace)
	runs = append(runs, struct{ name, cfg string }{"grammar-tail", "SPECIFICATION Spec\nCONSTANTS W0 = 0\n W1 = 3\n Deep = FALSE\n RestAny = FALSE\nINVARIANTS Laws\nCHECK_DEADLOCK FALSE\n"})
	if !c.Quick() {
		runs = append(runs, struct{ name, cfg string }{"grammar-deep", "SPECIFICATION Spec\nCONSTANTS W0 = 1\n W1 = 2\n Deep = TRUE\n RestAny = FALSE\nINVARIANTS Laws\nCHECK_DEADLOCK FALSE\n"})
	}
	loads := 0
	for _, run := range runs {
		dump := filepath.Join(c.Work, run.name)
		r, err := c.RunTLC(core.TLCOpts{Module: "MC_Template", CfgText: run.cfg, Dump: dump, Workers: 16, Timeout: 90 * time.Minute, Heap: "12g", Name: run.name})
		if err != nil {
			c.Inconclusive("template model failed: " + err.Error())
			return
		}
		c.AddTLC(r)
		if r.Violated != "" {
			c.Inconclusive("the template specification violates its own law " + r.Violated + ": " + tailStr(r.ErrorTrace(), 600))
			return
		}
		n := 0
		_, err = core.ReadDump(dump+".dump", func(vars map[string]interface{}) error {
			vec := asMap(vars["vec"])
			if _, seed := vec["seed"]; seed {
				return nil
			}
			n++
			s := c07Wide.Replace(asStr(vec["s"]))
			env := tplEnv{}
			for k, v := range asMap(vec["env"]) {
				m := asMap(v)
				env[k] = struct {
					Set bool
					V   string
				}{asBool(m["set"]), asStr(m["v"])}
			}
			mapping := func(k string) (string, bool) {
				e, ok := env[k]
				if !ok || !e.Set {
					return "", false
				}
				return e.V, true
			}
			want := asMap(vec["r"])
			if v, ok := want["v"].(string); ok {
				want["v"] = c07Wide.Replace(v)
			}
			if v, ok := want["msg"].(string); ok {
				want["msg"] = c07Wide.Replace(v)
			}
			got, err, pan := safeSubstitute(s, mapping)
			c.Eval(s+"|"+fmt.Sprint(env), strings.Contains(s, "$"))
			if n%997 == 1 {
				c.Sample(map[string]interface{}{"template": s, "env": env, "spec_says": want, "substitute_returned": got, "err": fmt.Sprint(err)})
			}
			fail := ""
			switch {
			case pan != nil:
				fail = fmt.Sprintf("panic: %v", pan)
			case asBool(want["ok"]):
				if err != nil || got != asStr(want["v"]) {
					fail = fmt.Sprintf("Substitute(%q) = %q, %v; the grammar defines %q", s, got, err, asStr(want["v"]))
				}
			default:
				var me *template.MissingRequiredError
				if !errors.As(err, &me) || me.Variable != asStr(want["var"]) || me.Reason != asStr(want["msg"]) {
					fail = fmt.Sprintf("Substitute(%q) = %q, %v; the grammar defines an error for variable %q with message %q", s, got, err, asStr(want["var"]), asStr(want["msg"]))
				}
			}
			if fail != "" {
				c.Report(core.Finding{Sig: "substitute:" + tplSig(s), Detail: fail + fmt.Sprintf(" (env %v)", env), Replay: map[string]interface{}{"template": s, "env": env, "expected": want}})
			}
			// integration: the same template as a label value of a loaded document
			step := 23
			if !c.Quick() {
				step = 211
			}
			if n%step == 0 {
				loads++
				if f := c07Load(s, env, want, loads%4, filepath.Join(c.Work, "c07inc")); f != "" {
					c.Report(core.Finding{Sig: "load:" + tplSig(s), Detail: f, Replay: map[string]interface{}{"template": s, "env": env, "expected": want}})
				}
			}
			return nil
		})
		if err != nil {
			c.Inconclusive("cannot read the state dump: " + err.Error())
			return
		}
		c.AddTraces(int64(n))
		c.Logf("%s: %d grammar cases replayed (%d distinct states in TLC)", run.name, n, r.Distinct)
		c.Set("grammar_cases_"+run.name, n)
	}
	c.Set("full_loads", loads)

	// ---- arbitrary strings: classifier written from the grammar
	maxLen := 5
	if !c.Quick() {
		maxLen = 6
	}
	dump := filepath.Join(c.Work, "strings")
	r, err := c.RunTLC(core.TLCOpts{Module: "TemplateStrings", CfgText: fmt.Sprintf("SPECIFICATION Spec\nCONSTANTS MaxLen = %d\nINVARIANTS NoDollarLaw\nCHECK_DEADLOCK FALSE\n", maxLen), Dump: dump, Workers: 16, Timeout: 90 * time.Minute, Heap: "12g", Name: "strings"})
	if err != nil {
		c.Inconclusive("string model failed: " + err.Error())
		return
	}
	c.AddTLC(r)
	if r.Violated != "" {
		c.Inconclusive("TemplateStrings violates " + r.Violated)
		return
	}
	classes := map[string]int{}
	_, err = core.ReadDump(dump+".dump", func(vars map[string]interface{}) error {
		vec := asMap(vars["vec"])
		if _, seed := vec["seed"]; seed {
			return nil
		}
		s, class := asStr(vec["s"]), asStr(vec["class"])
		classes[class]++
		for _, set := range []bool{true, false} {
			mapping := func(string) (string, bool) {
				if set {
					return "v$A", true
				}
				return "", false
			}
			got, err, pan := safeSubstitute(s, mapping)
			c.Eval("str|"+s+fmt.Sprint(set), strings.Contains(s, "$"))
			switch {
			case pan != nil:
				c.Report(core.Finding{Sig: "panic", Detail: fmt.Sprintf("Substitute(%q) panics: %v", s, pan), Replay: s})
			case class == "malformed" && err == nil:
				c.Report(core.Finding{Sig: "malformed-accepted", Detail: fmt.Sprintf("Substitute(%q) = %q without error although `${` cannot be continued by any production", s, got), Replay: s})
			case class == "clean":
				want := asStr(vec["unset"])
				if set {
					want = asStr(vec["set"])
				}
				if err != nil || got != want {
					c.Report(core.Finding{Sig: "clean-string", Detail: fmt.Sprintf("Substitute(%q) = %q, %v; the grammar defines %q (all variables set=%v)", s, got, err, want, set), Replay: s})
				}
			}
		}
		return nil
	})
	if err != nil {
		c.Inconclusive("cannot read the string dump: " + err.Error())
		return
	}
	c.Set("string_classes", classes)
	c.Set("string_max_len", maxLen)
	c.Set("exhaustive", true)
	c.Logf("strings up to length %d: %v", maxLen, classes)
	c.Set("rule", "cases are (template, environment) pairs enumerated exhaustively by TLC from the grammar up to the size bound, plus every string over an 11-symbol alphabet up to the length bound; distinct by text and environment; non-trivial when the text contains a `$`")
}

// c07Load loads the template as a label value. mode 0: a YAML document; mode 1: an already parsed document that was loaded
// once before under another environment (interpolation must not have written into it); mode 2: in a second compose file,
// after a first one that includes a project whose .env defines every variable (that environment belongs to the included
// project only).
// markers for characters of more than one byte (the specification's strings are kept ASCII)
var c07Wide = strings.NewReplacer("@e", "é", "@o", "ö", "@>", "→")

func c07Load(s string, env tplEnv, want map[string]interface{}, mode int, dir string) string {
	q, _ := json.Marshal(s)
	doc := "services:\n  a:\n    image: img\n    labels:\n      k: " + string(q) + "\n"
	e := types.Mapping{}
	for k, v := range env {
		if v.Set {
			e[k] = v.V
		}
	}
	cfs := []types.ConfigFile{{Filename: "compose.yaml", Content: []byte(doc)}}
	wd := "/tmp"
	load := func(cfs []types.ConfigFile, e types.Mapping) (p *types.Project, err error, pan interface{}) {
		defer func() { pan = recover() }()
		p, err = loader.LoadWithContext(context.Background(), types.ConfigDetails{WorkingDir: wd, Environment: e, ConfigFiles: cfs}, func(o *loader.Options) {
			o.SetProjectName("p", true)
			o.SkipResolveEnvironment = true
		})
		return
	}
	switch mode {
	case 3:
		// the interpolation package itself, on one parsed document interpolated twice: under a priming environment first, then
		// under the case's; the second result is the grammar's for the case's environment, whatever was interpolated before
		parsed := map[string]interface{}{"services": map[string]interface{}{"a": map[string]interface{}{"image": "img", "labels": map[string]interface{}{"k": s}, "command": []interface{}{"run", s}}}}
		lookup := func(m types.Mapping) interpolation.LookupValue {
			return func(k string) (string, bool) { v, ok := m[k]; return v, ok }
		}
		prime := types.Mapping{}
		for k := range env {
			prime[k] = "primed-" + k
		}
		var out map[string]interface{}
		var err error
		pan := func() (pan interface{}) {
			defer func() { pan = recover() }()
			_, _ = interpolation.Interpolate(parsed, interpolation.Options{LookupValue: lookup(prime)})
			out, err = interpolation.Interpolate(parsed, interpolation.Options{LookupValue: lookup(e)})
			return nil
		}()
		if pan != nil {
			return fmt.Sprintf("interpolating a document with value %q panics: %v", s, pan)
		}
		if asBool(want["ok"]) {
			if err != nil {
				return fmt.Sprintf("interpolation.Interpolate on a document with value %q fails: %v; the grammar defines %q", s, err, asStr(want["v"]))
			}
			a, _ := out["services"].(map[string]interface{})["a"].(map[string]interface{})
			got, _ := a["labels"].(map[string]interface{})["k"].(string)
			cmd, _ := a["command"].([]interface{})
			if got != asStr(want["v"]) || len(cmd) != 2 || cmd[1] != asStr(want["v"]) {
				return fmt.Sprintf("interpolation.Interpolate (second interpolation of the same document): value %q gives %q / %v; the grammar defines %q (env %v)", s, got, cmd, asStr(want["v"]), env)
			}
			return ""
		}
		if err == nil {
			return fmt.Sprintf("interpolation.Interpolate accepts %q although the grammar defines an error for %q", s, asStr(want["var"]))
		}
		return ""
	case 1:
		parsed := map[string]interface{}{"services": map[string]interface{}{"a": map[string]interface{}{"image": "img", "labels": map[string]interface{}{"k": s}, "command": []interface{}{"run", s}}}}
		prime := types.Mapping{}
		for k := range env {
			prime[k] = "primed-" + k
		}
		cfs = []types.ConfigFile{{Filename: "compose.yaml", Config: parsed}}
		_, _, _ = load(cfs, prime)
	case 2:
		wd = dir
		_ = os.MkdirAll(filepath.Join(dir, "inc"), 0o755)
		var dotenv strings.Builder
		for k := range env {
			dotenv.WriteString(k + "=from-included-project\n")
		}
		_ = os.WriteFile(filepath.Join(dir, "inc", ".env"), []byte(dotenv.String()), 0o644)
		_ = os.WriteFile(filepath.Join(dir, "inc", "compose.yaml"), []byte("services:\n  i:\n    image: img\n"), 0o644)
		cfs = []types.ConfigFile{{Filename: filepath.Join(dir, "compose.yaml"), Content: []byte("include:\n  - inc/compose.yaml\nservices:\n  a:\n    image: img\n")},
			{Filename: filepath.Join(dir, "over.yaml"), Content: []byte(doc)}}
	}
	p, err, pan := load(cfs, e)
	if pan != nil {
		return fmt.Sprintf("loading a document with label %q panics: %v", s, pan)
	}
	if asBool(want["ok"]) {
		if err != nil {
			return fmt.Sprintf("loading a document with label value %q fails: %v; the grammar defines %q", s, err, asStr(want["v"]))
		}
		if got := p.Services["a"].Labels["k"]; got != asStr(want["v"]) {
			return fmt.Sprintf("label value %q loads as %q; the grammar defines %q (env %v)", s, got, asStr(want["v"]), env)
		}
		return ""
	}
	if err == nil {
		return fmt.Sprintf("label value %q loads although the grammar defines an error for %q", s, asStr(want["var"]))
	}
	if !strings.Contains(err.Error(), asStr(want["var"])) || !strings.Contains(err.Error(), asStr(want["msg"])) {
		return fmt.Sprintf("label value %q: error %q does not carry variable %q and message %q", s, err, asStr(want["var"]), asStr(want["msg"]))
	}
	return ""
}
