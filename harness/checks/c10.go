//go:build verif

package checks

import (
	"encoding/json"
	"fmt"
	"github.com/compose-spec/compose-go/v2/loader"
	"os"
	"path/filepath"
	"sort"
	"strings"
	"time"

	"github.com/compose-spec/compose-go/v2/types"

	"verif/harness/internal/core"
)

func init() { Register("C10", "model_checking", C10) }

// ---- projection of an accepted project into the tagged long-form document the rules of Consistency.tla read
func tS(s string) map[string]interface{} { return map[string]interface{}{"t": "s", "v": s} }
func tB(b bool) map[string]interface{}   { return map[string]interface{}{"t": "b", "v": b} }
func tI(i int64) map[string]interface{}  { return map[string]interface{}{"t": "i", "v": i} }
func tN() map[string]interface{}         { return map[string]interface{}{"t": "n"} }
func tM(m map[string]interface{}) map[string]interface{} {
	return map[string]interface{}{"t": "m", "v": m}
}
func tL(l []interface{}) map[string]interface{} {
	if l == nil {
		l = []interface{}{}
	}
	return map[string]interface{}{"t": "l", "v": l}
}

func consDoc(p *types.Project) map[string]interface{} {
	svcs := map[string]interface{}{}
	add := func(name string, s types.ServiceConfig, disabled bool) {
		m := map[string]interface{}{}
		if s.Image != "" {
			m["image"] = tS(s.Image)
		}
		if disabled || len(s.Profiles) > 0 && disabled {
			m["profiles"] = tL([]interface{}{tS("p")})
		}
		if s.Build != nil {
			b := map[string]interface{}{"context": tS(s.Build.Context)}
			if s.Build.Dockerfile != "" && s.Build.Dockerfile != "Dockerfile" {
				b["dockerfile"] = tS(s.Build.Dockerfile)
			}
			if s.Build.DockerfileInline != "" {
				b["dockerfile_inline"] = tS(s.Build.DockerfileInline)
			}
			var bs []interface{}
			for _, x := range s.Build.Secrets {
				bs = append(bs, tM(map[string]interface{}{"source": tS(x.Source)}))
			}
			if len(bs) > 0 {
				b["secrets"] = tL(bs)
			}
			m["build"] = tM(b)
		}
		if len(s.Networks) > 0 {
			n := map[string]interface{}{}
			for k := range s.Networks {
				n[k] = tN()
			}
			m["networks"] = tM(n)
		}
		if s.NetworkMode != "" {
			m["network_mode"] = tS(s.NetworkMode)
		}
		for k, v := range map[string]string{"ipc": s.Ipc, "pid": s.Pid, "uts": s.Uts, "cgroup": s.Cgroup} {
			if v != "" {
				m[k] = tS(v)
			}
		}
		if len(s.DependsOn) > 0 {
			d := map[string]interface{}{}
			for k, v := range s.DependsOn {
				d[k] = tM(map[string]interface{}{"condition": tS(v.Condition), "required": tB(v.Required)})
			}
			m["depends_on"] = tM(d)
		}
		var vols, secs, cfgs, links, vfrom []interface{}
		for _, v := range s.Volumes {
			e := map[string]interface{}{"type": tS(v.Type), "target": tS(v.Target)}
			if v.Source != "" {
				e["source"] = tS(v.Source)
			}
			vols = append(vols, tM(e))
		}
		for _, x := range s.Secrets {
			secs = append(secs, tM(map[string]interface{}{"source": tS(x.Source)}))
		}
		for _, x := range s.Configs {
			cfgs = append(cfgs, tM(map[string]interface{}{"source": tS(x.Source)}))
		}
		for _, x := range s.Links {
			links = append(links, tS(x))
		}
		for _, x := range s.VolumesFrom {
			vfrom = append(vfrom, tS(x))
		}
		for k, l := range map[string][]interface{}{"volumes": vols, "secrets": secs, "configs": cfgs, "links": links, "volumes_from": vfrom} {
			if len(l) > 0 {
				m[k] = tL(l)
			}
		}
		if s.Scale != nil {
			m["scale"] = tI(int64(*s.Scale))
		}
		if s.Deploy != nil && s.Deploy.Replicas != nil {
			m["deploy"] = tM(map[string]interface{}{"replicas": tI(int64(*s.Deploy.Replicas))})
		}
		svcs[name] = tM(m)
	}
	for n, s := range p.Services {
		add(n, s, false)
	}
	for n, s := range p.DisabledServices {
		add(n, s, true)
	}
	doc := map[string]interface{}{"services": tM(svcs)}
	res := func(kind string, names []string, ext func(string) (bool, map[string]interface{})) {
		m := map[string]interface{}{}
		for _, n := range names {
			e, extra := ext(n)
			if e {
				extra["external"] = tB(true)
			}
			m[n] = tM(extra)
		}
		if len(m) > 0 {
			doc[kind] = tM(m)
		}
	}
	res("networks", p.NetworkNames(), func(n string) (bool, map[string]interface{}) {
		return bool(p.Networks[n].External), map[string]interface{}{}
	})
	res("volumes", p.VolumeNames(), func(n string) (bool, map[string]interface{}) {
		v := p.Volumes[n]
		x := map[string]interface{}{}
		if v.Driver != "" {
			x["driver"] = tS(v.Driver)
		}
		if len(v.DriverOpts) > 0 {
			x["driver_opts"] = tM(map[string]interface{}{})
		}
		if len(v.Labels) > 0 {
			x["labels"] = tM(map[string]interface{}{})
		}
		return bool(v.External), x
	})
	src := func(f types.FileObjectConfig, content bool) map[string]interface{} {
		x := map[string]interface{}{}
		if f.File != "" {
			x["file"] = tS(f.File)
		}
		if f.Environment != "" {
			x["environment"] = tS(f.Environment)
		} else if content && f.Content != "" {
			x["content"] = tS(f.Content)
		}
		if f.Driver != "" {
			x["driver"] = tS(f.Driver)
		}
		return x
	}
	res("secrets", p.SecretNames(), func(n string) (bool, map[string]interface{}) {
		return bool(p.Secrets[n].External), src(types.FileObjectConfig(p.Secrets[n]), false)
	})
	res("configs", p.ConfigNames(), func(n string) (bool, map[string]interface{}) {
		return bool(p.Configs[n].External), src(types.FileObjectConfig(p.Configs[n]), true)
	})
	return tM(doc)
}

func C10(c *core.Ctx) {
	c.Assumption("TLC 1.8.0; spec/tree/Consistency.tla (rules written from the statement; TLC verifies that each edit violates exactly one rule); the projection consDoc is harness code")
	dump := filepath.Join(c.Work, "cases")
	r, err := c.RunTLC(core.TLCOpts{Module: "MC_Consistency", Dump: dump, Workers: 4, Timeout: 10 * time.Minute, Name: "cons"})
	if err != nil {
		c.Inconclusive("MC_Consistency failed: " + err.Error())
		return
	}
	c.AddTLC(r)
	if r.Violated != "" {
		c.Inconclusive("Consistency specification violates " + r.Violated + ": " + tailStr(r.ErrorTrace(), 400))
		return
	}
	wd := filepath.Join(c.Work, "wd")
	_ = os.MkdirAll(wd, 0o755)
	var accepted []*types.Project
	var acceptedFrom []string
	rules := map[string]int{}
	n := 0
	_, err = core.ReadDump(dump+".dump", func(vars map[string]interface{}) error {
		cs := asMap(vars["cs"])
		n++
		kind, rule := asStr(cs["kind"]), asStr(cs["rule"])
		doc, base, frag := yamlOf(cs["doc"]), yamlOf(cs["base"]), yamlOf(cs["fragment"])
		rules[rule]++
		placements := map[string][]namedDoc{
			"single":   {{Name: filepath.Join(wd, "compose.yaml"), Content: doc}},
			"override": {{Name: filepath.Join(wd, "base.yaml"), Content: base}, {Name: filepath.Join(wd, "over.yaml"), Content: frag}},
		}
		// included: the whole edited model arrives through an include
		_ = os.WriteFile(filepath.Join(wd, "inc.yaml"), []byte(doc), 0o644)
		placements["included"] = []namedDoc{{Name: filepath.Join(wd, "main.yaml"), Content: "include:\n  - inc.yaml\nservices:\n  extra: {image: img}\n"}}
		names := []string{"single", "override", "included"}
		// extended: service a's whole definition (with the edit) sits on a base service that a extends
		if pd, ok := plainOf(cs["doc"]).(map[string]interface{}); ok {
			if svcs, ok := pd["services"].(map[string]interface{}); ok {
				if a, ok := svcs["a"].(map[string]interface{}); ok {
					if _, has := a["extends"]; !has {
						cp := map[string]interface{}{}
						for k, v := range pd {
							cp[k] = v
						}
						ns := map[string]interface{}{}
						for k, v := range svcs {
							ns[k] = v
						}
						ns["a0"] = a
						ns["a"] = map[string]interface{}{"extends": map[string]interface{}{"service": "a0"}}
						cp["services"] = ns
						b, _ := json.Marshal(cp)
						placements["extended"] = []namedDoc{{Name: filepath.Join(wd, "ext-main.yaml"), Content: string(b)}}
						names = append(names, "extended")
					}
				}
			}
		}
		if f2 := asMap(cs["fragment2"]); asStr(f2["t"]) != "n" && f2 != nil {
			// the edit takes two later files: as files, and as documents of one file (the single document is the merged result)
			frag2 := yamlOf(cs["fragment2"])
			placements["override"] = append(placements["override"], namedDoc{Name: filepath.Join(wd, "over2.yaml"), Content: frag2})
			placements["documents"] = []namedDoc{{Name: filepath.Join(wd, "multi.yaml"), Content: base + "\n---\n" + frag + "\n---\n" + frag2 + "\n"}}
			names = append(names, "documents")
			frag += " then " + frag2
		}
		for _, pl := range names {
			p, lerr := safeLoad(wd, nil, placements[pl])
			key := fmt.Sprintf("%s %s %s [%s]", kind, rule, frag, pl)
			c.Eval(key, true)
			rep := map[string]interface{}{"kind": kind, "rule": rule, "placement": pl, "document": doc, "fragment": frag}
			if n%9 == 1 && pl == "single" {
				c.Sample(rep)
			}
			switch {
			case lerr != nil && strings.HasPrefix(lerr.Error(), "panic"):
				c.Report(core.Finding{Sig: "panic:" + rule, Detail: key + ": " + lerr.Error(), Replay: rep})
			case kind == "edit" && lerr == nil:
				c.Report(core.Finding{Sig: "inconsistent-accepted:" + rule, Detail: fmt.Sprintf("a model violating exactly rule %q loads (fragment %s, placement %s)", rule, frag, pl), Replay: rep})
			case kind == "valid" && lerr != nil:
				c.Report(core.Finding{Sig: "valid-rejected", Detail: fmt.Sprintf("a consistent model is rejected (fragment %s, placement %s): %v", frag, pl, lerr), Replay: rep})
			case kind == "valid":
				accepted = append(accepted, p)
				acceptedFrom = append(acceptedFrom, key)
			}
			// the rules are those of the consistency check: they hold for whatever loads with that check on, normalised or not
			// (a cycle that runs through a dependency implied by links / a namespace / volumes_from exists only once normalisation
			// has declared that dependency: without it the dependency graph of the statement has no such edge)
			if kind == "edit" && pl == "single" && !(rule == "acyclic" && !strings.Contains(frag, "depends_on")) {
				pn, errN := safeLoad(wd, nil, placements[pl], func(o *loader.Options) { o.SkipNormalization = true })
				c.Eval(key+" [SkipNormalization]", true)
				if errN == nil && pn != nil {
					c.Report(core.Finding{Sig: "inconsistent-accepted-unnormalised:" + rule, Detail: fmt.Sprintf("a model violating exactly rule %q loads when normalisation is skipped and the consistency check is on (fragment %s)", rule, frag), Replay: rep})
				} else if errN != nil && strings.HasPrefix(errN.Error(), "panic") {
					c.Report(core.Finding{Sig: "panic:" + rule, Detail: key + " [SkipNormalization]: " + errN.Error(), Replay: rep})
				}
			}
		}
		return nil
	})
	if err != nil {
		c.Inconclusive("replay: " + err.Error())
		return
	}
	c.Set("rule_edits", rules)
	c.Logf("%d edit/valid cases x 3 placements replayed", n)

	// ---- every digraph of depends_on edges
	maxN := 3
	if !c.Quick() {
		maxN = 4
	}
	out := filepath.Join(c.Work, "cycle-out.ndjson")
	rc, err := c.RunTLC(core.TLCOpts{Module: "Cycle", CfgText: fmt.Sprintf("SPECIFICATION Spec\nCONSTANTS MinN = 1\n MaxN = %d\nINVARIANTS SearchIsExact\nCHECK_DEADLOCK FALSE\n", maxN),
		Env: map[string]string{"OUT": out}, Workers: 1, Timeout: 30 * time.Minute, Xss: "64m", Name: "cycle"})
	if err != nil {
		c.Inconclusive("cycle model failed: " + err.Error())
		return
	}
	c.AddTLC(rc)
	g := 0
	_, err = core.ReadVectors(out, func(raw json.RawMessage) error {
		var v struct {
			N      int     `json:"n"`
			Edges  [][]int `json:"edges"`
			Cyclic bool    `json:"cyclic"`
		}
		if err := json.Unmarshal(raw, &v); err != nil {
			return err
		}
		g++
		deps := map[int][]string{}
		for _, e := range v.Edges {
			deps[e[0]] = append(deps[e[0]], fmt.Sprintf("s%d", e[1]))
		}
		var sb strings.Builder
		sb.WriteString("services:\n")
		for i := 1; i <= v.N; i++ {
			fmt.Fprintf(&sb, "  s%d:\n    image: img\n", i)
			if len(deps[i]) > 0 {
				sort.Strings(deps[i])
				fmt.Fprintf(&sb, "    depends_on: [%s]\n", strings.Join(deps[i], ", "))
			}
		}
		p, lerr := safeLoad(wd, nil, []namedDoc{{Name: filepath.Join(wd, "g.yaml"), Content: sb.String()}})
		c.Eval("graph|"+sb.String(), len(v.Edges) > 0)
		switch {
		case v.Cyclic && lerr == nil:
			c.Report(core.Finding{Sig: "inconsistent-accepted:acyclic", Detail: "a cyclic depends_on graph loads:\n" + sb.String(), Replay: sb.String()})
		case !v.Cyclic && lerr != nil:
			c.Report(core.Finding{Sig: "valid-rejected", Detail: fmt.Sprintf("an acyclic depends_on graph is rejected (%v):\n%s", lerr, sb.String()), Replay: sb.String()})
		case !v.Cyclic:
			accepted = append(accepted, p)
			acceptedFrom = append(acceptedFrom, "graph "+sb.String())
		}
		return nil
	})
	if err != nil {
		c.Inconclusive("graph replay: " + err.Error())
		return
	}
	c.Set("depends_on_digraphs", g)

	// ---- accepted => consistent: TLC evaluates every rule on every accepted project (plus the C19 fixtures)
	fx, _ := c19WriteFixtures(filepath.Join(c.Work, "fix"))
	for _, f := range fx {
		var docs []namedDoc
		for _, fn := range f.Files {
			docs = append(docs, namedDoc{Name: filepath.Join(f.Dir, fn)})
		}
		if p, err := safeLoad(f.Dir, f.Env, docs); err == nil {
			accepted = append(accepted, p)
			acceptedFrom = append(acceptedFrom, "fixture "+f.Name)
		}
	}
	var recs []interface{}
	for _, p := range accepted {
		recs = append(recs, map[string]interface{}{"doc": consDoc(p)})
	}
	path := filepath.Join(c.Work, "accepted.ndjson")
	if err := core.WriteNDJSON(path, recs); err != nil {
		c.Inconclusive(err.Error())
		return
	}
	rj, err := c.RunTLC(core.TLCOpts{Module: "Trace_Consistency", Env: map[string]string{"TRACE": path}, Workers: 1, Timeout: 20 * time.Minute, Name: "judge"})
	if err != nil {
		c.Inconclusive("Trace_Consistency failed: " + err.Error())
		return
	}
	c.AddTLC(rj)
	v, found := core.FindPrinted(rj.Output, "VERDICTS")
	if !found || asInt(asList(v)[1]) != len(recs) {
		c.Inconclusive("Trace_Consistency did not judge every project: " + tailStr(rj.Output, 400))
		return
	}
	for _, b := range asList(asList(v)[2]) {
		t := asList(b)
		i := asInt(t[0]) - 1
		c.Report(core.Finding{Sig: "accepted-inconsistent:" + fmt.Sprint(t[1]), Detail: fmt.Sprintf("the loader accepted a project that breaks %v: %s", t[1], acceptedFrom[i]), Replay: recs[i]})
	}
	c.AddTraces(int64(len(recs)))
	c.Set("accepted_projects_judged_by_tlc", len(recs))
	c.Set("exhaustive", true)
	c.Logf("%d accepted projects judged consistent by TLC", len(recs))
	c.Set("rule", "a case is a model obtained from a valid one by a minimal edit violating exactly one rule (TLC-verified), or a consistent variant, in three placements (single file, override file, included file); every digraph of depends_on on up to 3 (4) services; plus every accepted project projected and judged against all rules")
}
