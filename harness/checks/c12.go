//go:build verif

package checks

import (
	"context"
	"encoding/json"
	"fmt"
	"os"
	"path/filepath"
	"reflect"
	"strings"
	"time"

	"github.com/compose-spec/compose-go/v2/loader"
	"github.com/compose-spec/compose-go/v2/paths"
	"github.com/compose-spec/compose-go/v2/types"

	"verif/harness/internal/core"
)

func init() { Register("C12", "model_checking", C12) }

func c12Body(row, t string) (svc string, top string) {
	q, _ := json.Marshal(t)
	T := string(q)
	switch row {
	case "build.context":
		return "build: {context: " + T + "}", ""
	case "build.additional_contexts":
		return "build: {context: ., additional_contexts: {x: " + T + "}}", ""
	case "env_file":
		return "image: img\n    env_file: [{path: " + T + ", required: false}]", ""
	case "label_file":
		return "image: img\n    label_file: [" + T + "]", ""
	case "develop.watch.path":
		return "image: img\n    develop: {watch: [{path: " + T + ", action: rebuild}]}", ""
	case "volumes.bind.source":
		return "image: img\n    volumes: [{type: bind, source: " + T + ", target: /t}]", ""
	case "secrets.file":
		return "image: img\n    secrets: [s]", "secrets:\n  s: {file: " + T + "}\n"
	case "configs.file":
		return "image: img\n    configs: [c]", "configs:\n  c: {file: " + T + "}\n"
	case "volume.driver_opts.device":
		return "image: img\n    volumes: [{type: volume, source: v, target: /t}]", "volumes:\n  v: {driver: local, driver_opts: {type: none, o: bind, device: " + T + "}}\n"
	}
	return "image: img", ""
}

func c12Extract(p *types.Project, row, svc string) (string, bool) {
	s, ok := p.Services[svc]
	if !ok {
		return "", false
	}
	switch row {
	case "build.context":
		if s.Build != nil {
			return s.Build.Context, true
		}
	case "build.additional_contexts":
		if s.Build != nil {
			v, ok := s.Build.AdditionalContexts["x"]
			return v, ok
		}
	case "env_file":
		if len(s.EnvFiles) == 1 {
			return s.EnvFiles[0].Path, true
		}
	case "label_file":
		if len(s.LabelFiles) == 1 {
			return s.LabelFiles[0], true
		}
	case "develop.watch.path":
		if s.Develop != nil && len(s.Develop.Watch) == 1 {
			return s.Develop.Watch[0].Path, true
		}
	case "volumes.bind.source":
		if len(s.Volumes) == 1 {
			return s.Volumes[0].Source, true
		}
	case "secrets.file":
		v, ok := p.Secrets["s"]
		return v.File, ok
	case "configs.file":
		v, ok := p.Configs["c"]
		return v.File, ok
	case "volume.driver_opts.device":
		v, ok := p.Volumes["v"]
		return v.DriverOpts["device"], ok
	}
	return "", false
}

// c12Loader is a remote resource loader owning the references that start with its prefix.
type c12Loader struct{ prefix, dir string }

func (l c12Loader) Accept(p string) bool { return strings.HasPrefix(p, l.prefix) }
func (l c12Loader) Load(_ context.Context, p string) (string, error) {
	return filepath.Join(l.dir, strings.TrimPrefix(p, l.prefix)), nil
}
func (l c12Loader) Dir(string) string { return l.dir }

func C12(c *core.Ctx) {
	c.Assumption("TLC 1.8.0; spec/tree/PathsResolve.tla; HOME is pinned to /home/verifuser for the run; replay through loader.LoadWithContext on real directories")
	os.Setenv("HOME", "/home/verifuser")
	dump := filepath.Join(c.Work, "cases")
	r, err := c.RunTLC(core.TLCOpts{Module: "MC_Paths", CfgText: fmt.Sprintf("SPECIFICATION Spec\nCONSTANTS More = %s\nINVARIANTS Laws\nCHECK_DEADLOCK FALSE\n", map[bool]string{true: "FALSE", false: "TRUE"}[c.Quick()]), Dump: dump, Workers: 4, Timeout: 10 * time.Minute, Name: "paths"})
	if err != nil {
		c.Inconclusive("MC_Paths failed: " + err.Error())
		return
	}
	c.AddTLC(r)
	if r.Violated != "" {
		c.Inconclusive("PathsResolve specification violates " + r.Violated)
		return
	}
	root := filepath.Join(c.Work, "wd")
	n, skipped := 0, 0
	_, err = core.ReadDump(dump+".dump", func(vars map[string]interface{}) error {
		cs := asMap(vars["cs"])
		row, shape, class, origin := asStr(cs["row"]), asStr(cs["shape"]), asStr(cs["class"]), asStr(cs["origin"])
		enforced := asBool(cs["enforced"])
		if (row == "label_file" && (class != "rel" || shape == ".")) || (row == "env_file" && (shape == "." || shape == "/")) { // label files are read at load time: only shapes we can create
			skipped++
			return nil
		}
		topLevel := row == "secrets.file" || row == "configs.file" || row == "volume.driver_opts.device"
		if (origin == "extends" || origin == "extends-fork" || origin == "include-sibling") && topLevel {
			skipped++
			return nil
		}
		n++
		R := filepath.Join(root, fmt.Sprint(n))
		proj := filepath.Join(R, "r1", "r2", "proj")
		defer os.RemoveAll(R)
		for _, d := range []string{"", "inc", "sub", "inc/deep"} {
			_ = os.MkdirAll(filepath.Join(proj, d), 0o755)
		}
		want := asStr(cs["below"])
		if asBool(cs["anchored"]) {
			want = R + want
		}
		// the home directory is looked up at every load: it alternates between two users from case to case
		home := "/home/verifuser"
		if n%2 == 0 {
			home = "/home/otheruser"
			if class == "home" {
				want = strings.Replace(want, "/home/verifuser", home, 1)
			}
		}
		os.Setenv("HOME", home)
		if row == "label_file" {
			_ = os.MkdirAll(filepath.Dir(want), 0o755)
			_ = os.WriteFile(want, []byte("l=1\n"), 0o644)
		}
		svcBody, top := c12Body(row, shape)
		svcName := "a"
		also := "" // a second service that must carry the same resolved value
		var mainDoc string
		switch origin {
		case "include2":
			mainDoc = "include:\n  - inc/compose.yaml\nservices:\n  main: {image: img}\n"
			_ = os.WriteFile(filepath.Join(proj, "inc", "compose.yaml"), []byte("include:\n  - deep/compose.yaml\nservices:\n  mid: {image: img}\n"), 0o644)
			_ = os.WriteFile(filepath.Join(proj, "inc", "deep", "compose.yaml"), []byte("services:\n  a:\n    "+svcBody+"\n"+top), 0o644)
		case "include-sibling":
			mainDoc = "include:\n  - inc/compose.yaml\nservices:\n  main: {image: img}\n"
			_ = os.WriteFile(filepath.Join(proj, "inc", "compose.yaml"), []byte("services:\n  a:\n    "+svcBody+"\n  a2:\n    extends: {service: a}\n"), 0o644)
			also = "a2"
		case "extends-fork":
			mainDoc = "services:\n  a:\n    extends: {file: sub/base.yaml, service: b}\n  a2:\n    extends: {service: a}\n  a0:\n    extends: {service: a}\n"
			_ = os.WriteFile(filepath.Join(proj, "sub", "base.yaml"), []byte("services:\n  b:\n    "+svcBody+"\n"), 0o644)
			also = "a2"
		case "main":
			mainDoc = "services:\n  a:\n    " + svcBody + "\n" + top
		case "include":
			mainDoc = "include:\n  - inc/compose.yaml\nservices:\n  main: {image: img}\n"
			_ = os.WriteFile(filepath.Join(proj, "inc", "compose.yaml"), []byte("services:\n  a:\n    "+svcBody+"\n"+top), 0o644)
		case "extends":
			mainDoc = "services:\n  a:\n    extends: {file: sub/base.yaml, service: b}\n"
			_ = os.WriteFile(filepath.Join(proj, "sub", "base.yaml"), []byte("services:\n  b:\n    "+svcBody+"\n"), 0o644)
		}
		_ = os.WriteFile(filepath.Join(proj, "compose.yaml"), []byte(mainDoc), 0o644)
		key := fmt.Sprintf("%s %q from %s", row, shape, origin)
		c.Eval(key, enforced)
		// the resolution rules do not depend on the checks that are switched off: every third case is loaded without schema
		// validation, every third without the consistency check
		variant := [](func(*loader.Options)){func(*loader.Options) {}, func(o *loader.Options) { o.SkipValidation = true }, func(o *loader.Options) { o.SkipConsistencyCheck = true }}[n%3]
		key += []string{"", " [SkipValidation]", " [SkipConsistencyCheck]"}[n%3]
		p, lerr := safeLoad(proj, nil, []namedDoc{{Name: filepath.Join(proj, "compose.yaml")}}, variant)
		rep := map[string]interface{}{"row": row, "shape": shape, "origin": origin, "main": mainDoc, "expected": want, "variant": n % 3}
		if n%37 == 1 {
			c.Sample(rep)
		}
		if lerr != nil {
			if strings.HasPrefix(lerr.Error(), "panic") {
				c.Report(core.Finding{Sig: "panic:" + row, Detail: key + ": " + lerr.Error(), Replay: rep})
			} else if enforced {
				c.Report(core.Finding{Sig: "load-error:" + row + ":" + class, Detail: key + " does not load: " + lerr.Error(), Replay: rep})
			}
			return nil
		}
		got, ok := c12Extract(p, row, svcName)
		if !ok {
			c.Report(core.Finding{Sig: "attribute-lost:" + row, Detail: key + ": the attribute is missing from the loaded project", Replay: rep})
			return nil
		}
		if enforced && got != want {
			c.Report(core.Finding{Sig: "resolve:" + row + ":" + class + ":" + origin, Detail: fmt.Sprintf("%s resolves to %q; the rules define %q", key, got, want), Replay: rep})
		}
		if also != "" && enforced {
			if g2, ok := c12Extract(p, row, also); !ok || g2 != want {
				c.Report(core.Finding{Sig: "resolve:" + row + ":" + class + ":" + origin, Detail: fmt.Sprintf("%s: the service extending it resolves to %q; the rules define %q", key, g2, want), Replay: rep})
			}
		}
		// a relative project directory: the base directories are relative too, and every value is still joined exactly once
		if class == "rel" && enforced && row != "label_file" {
			cwd, _ := os.Getwd()
			if os.Chdir(filepath.Join(R, "r1")) == nil {
				pr, errR := safeLoad(filepath.Join("r2", "proj"), nil, []namedDoc{{Name: filepath.Join("r2", "proj", "compose.yaml")}})
				_ = os.Chdir(cwd)
				wantRel := strings.TrimPrefix(want, filepath.Join(R, "r1")+"/")
				c.Eval(key+" [relative project directory]", true)
				if errR != nil {
					c.Report(core.Finding{Sig: "load-error-relative-wd:" + row, Detail: key + " does not load from a relative project directory: " + errR.Error(), Replay: rep})
				} else {
					for _, sv := range []string{svcName, also} {
						if sv == "" {
							continue
						}
						if g, ok := c12Extract(pr, row, sv); !ok || g != wantRel {
							c.Report(core.Finding{Sig: "resolve-relative-wd:" + row + ":" + origin, Detail: fmt.Sprintf("%s with the project directory given as r2/proj: service %s resolves to %q; the rules define %q", key, sv, g, wantRel), Replay: rep})
						}
					}
				}
			}
		}
		if origin == "main" {
			// resolution off: left as written
			p2, err2 := safeLoad(proj, nil, []namedDoc{{Name: filepath.Join(proj, "compose.yaml")}}, func(o *loader.Options) { o.ResolvePaths = false })
			if err2 == nil {
				if g2, ok := c12Extract(p2, row, svcName); ok && g2 != shape && row != "label_file" {
					c.Report(core.Finding{Sig: "resolved-when-off:" + row, Detail: fmt.Sprintf("%s: with path resolution off the value becomes %q", key, g2), Replay: rep})
				}
			}
			// idempotence on the model
			m1, err3 := loader.LoadModelWithContext(context.Background(), types.ConfigDetails{WorkingDir: proj, ConfigFiles: []types.ConfigFile{{Filename: filepath.Join(proj, "compose.yaml")}}, Environment: types.Mapping{}},
				func(o *loader.Options) { o.SetProjectName("proj", true) })
			if err3 == nil {
				b1, _ := json.Marshal(m1)
				if err := paths.ResolveRelativePaths(m1, proj, nil); err == nil {
					b2, _ := json.Marshal(m1)
					if string(b1) != string(b2) {
						c.Report(core.Finding{Sig: "not-idempotent:" + row + ":" + class, Detail: fmt.Sprintf("%s: resolving the resolved model again changes it", key), Replay: rep})
					}
				}
			}
		}
		return nil
	})
	if err != nil {
		c.Inconclusive("replay: " + err.Error())
		return
	}
	// ---- non-path attributes and named volumes are never rewritten
	R := filepath.Join(root, "nonpath")
	_ = os.MkdirAll(R, 0o755)
	doc := `services:
  a:
    image: "./img"
    working_dir: ./wd
    command: ["./run.sh", "../x"]
    entrypoint: ["./entry"]
    hostname: ./h
    environment: {P: ./x, Q: "~/y"}
    labels: {p: ../x}
    volumes:
      - {type: volume, source: data, target: /d}
      - {type: tmpfs, target: /tmp}
    healthcheck: {test: ["CMD", "./check.sh"]}
    extra_hosts: {"./h": "1.2.3.4"}
volumes:
  data: {driver: other, driver_opts: {device: ./dev, o: bind}}
networks:
  default: {driver_opts: {p: ./x}}
`
	p, lerr := safeLoad(R, nil, []namedDoc{{Name: filepath.Join(R, "compose.yaml"), Content: doc}})
	c.Eval("non-path attributes", true)
	if lerr != nil {
		c.Report(core.Finding{Sig: "nonpath-load-error", Detail: lerr.Error(), Replay: doc})
	} else {
		s := p.Services["a"]
		chk := func(what, got, want string) {
			if got != want {
				c.Report(core.Finding{Sig: "nonpath-rewritten:" + what, Detail: fmt.Sprintf("%s is not a path attribute but %q became %q", what, want, got), Replay: doc})
			}
		}
		chk("image", s.Image, "./img")
		chk("working_dir", s.WorkingDir, "./wd")
		chk("hostname", s.Hostname, "./h")
		chk("labels", s.Labels["p"], "../x")
		if v := s.Environment["P"]; v == nil || *v != "./x" {
			chk("environment", deref(v), `"./x"`)
		}
		if !reflect.DeepEqual([]string(s.Command), []string{"./run.sh", "../x"}) {
			chk("command", fmt.Sprint(s.Command), "[./run.sh ../x]")
		}
		if len(s.Volumes) == 2 {
			chk("named volume source", s.Volumes[0].Source, "data")
		}
		chk("volume driver_opts (non-local driver)", p.Volumes["data"].DriverOpts["device"], "./dev")
		chk("network driver_opts", p.Networks["default"].DriverOpts["p"], "./x")
	}
	// ---- references recognised by a registered remote loader are left as written (every loader, not only the last one)
	{
		RR := filepath.Join(root, "remote")
		store := filepath.Join(RR, "store")
		_ = os.MkdirAll(filepath.Join(RR, "proj", "sub"), 0o755)
		_ = os.MkdirAll(store, 0o755)
		_ = os.WriteFile(filepath.Join(store, "base.yaml"), []byte("services:\n  x: {image: remote-img}\n"), 0o644)
		_ = os.WriteFile(filepath.Join(RR, "proj", "local.yaml"), []byte("services:\n  x: {image: local-img}\n"), 0o644)
		loaders := []loader.ResourceLoader{c12Loader{"alpha:", store}, c12Loader{"beta:", store}, c12Loader{"gamma:", store}}
		withLoaders := func(skipExtends bool) func(o *loader.Options) {
			return func(o *loader.Options) {
				o.ResourceLoaders = append(o.ResourceLoaders, loaders...)
				o.SkipExtends = skipExtends
			}
		}
		rdoc := "services:\n  a: {image: img, extends: {file: \"alpha:base.yaml\", service: x}}\n  b: {image: img, extends: {file: \"beta:base.yaml\", service: x}}\n  g: {image: img, extends: {file: \"gamma:base.yaml\", service: x}}\n  l: {image: img, extends: {file: ./local.yaml, service: x}}\n"
		c.Eval("remote references kept", true)
		pr, er := safeLoad(filepath.Join(RR, "proj"), nil, []namedDoc{{Name: filepath.Join(RR, "proj", "compose.yaml"), Content: rdoc}}, withLoaders(true))
		if er != nil {
			c.Report(core.Finding{Sig: "remote-load-error", Detail: "a model whose extends references are owned by registered remote loaders does not load (extends not applied): " + er.Error(), Replay: rdoc})
		} else {
			for svc, want := range map[string]string{"a": "alpha:base.yaml", "b": "beta:base.yaml", "g": "gamma:base.yaml", "l": filepath.Join(RR, "proj", "local.yaml")} {
				got := ""
				if e := pr.Services[svc].Extends; e != nil {
					got = e.File
				}
				if got != want {
					c.Report(core.Finding{Sig: "remote-reference-rewritten", Detail: fmt.Sprintf("extends.file of service %s is %q after path resolution; expected %q (a reference owned by a registered remote loader is left as written, a local one is resolved)", svc, got, want), Replay: rdoc})
				}
			}
		}
		// the same references inside a local extended file of another directory, extends applied
		_ = os.WriteFile(filepath.Join(RR, "proj", "sub", "mid.yaml"), []byte("services:\n  ma: {extends: {file: \"alpha:base.yaml\", service: x}}\n  mb: {extends: {file: \"beta:base.yaml\", service: x}}\n  mg: {extends: {file: \"gamma:base.yaml\", service: x}}\n"), 0o644)
		mdoc := "services:\n  a: {extends: {file: sub/mid.yaml, service: ma}}\n  b: {extends: {file: sub/mid.yaml, service: mb}}\n  g: {extends: {file: sub/mid.yaml, service: mg}}\n"
		c.Eval("remote references through a local extended file", true)
		pm, em := safeLoad(filepath.Join(RR, "proj"), nil, []namedDoc{{Name: filepath.Join(RR, "proj", "compose.yaml"), Content: mdoc}}, withLoaders(false))
		if em != nil {
			c.Report(core.Finding{Sig: "remote-reference-rewritten", Detail: "a remote reference inside a local extended file of another directory is not reachable any more: " + em.Error(), Replay: mdoc})
		} else {
			for _, svc := range []string{"a", "b", "g"} {
				if pm.Services[svc].Image != "remote-img" {
					c.Report(core.Finding{Sig: "remote-reference-rewritten", Detail: fmt.Sprintf("service %s extends a remote base through a local file but has image %q", svc, pm.Services[svc].Image), Replay: mdoc})
				}
			}
		}
		n += 2
	}
	c.AddTraces(int64(n + 1))
	c.Set("cases", n)
	c.Set("cases_skipped_not_materialisable", skipped)
	c.Set("exhaustive", true)
	c.Logf("%d path cases replayed (%d skipped)", n, skipped)
	c.Set("rule", "a case is (path-bearing attribute row, path shape, origin of the attribute: main file / included file / extended file in another directory); non-trivial when the statement fixes the outcome for that row kind and shape class")
}
