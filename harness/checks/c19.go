//go:build verif

package checks

import (
	"bytes"
	"context"
	"crypto/sha256"
	"encoding/hex"
	"encoding/json"
	"fmt"
	"github.com/compose-spec/compose-go/v2/graph"
	"io"
	"math/rand"
	"os"
	"os/exec"
	"path/filepath"
	"regexp"
	"runtime"
	"sort"
	"strings"
	"sync"
	"sync/atomic"
	"time"

	"github.com/compose-spec/compose-go/v2/loader"
	"github.com/compose-spec/compose-go/v2/types"
	"github.com/sirupsen/logrus"

	"verif/harness/internal/core"
	"verif/harness/internal/inventory"
	"verif/harness/internal/sched"
)

// c19FreeHangs counts the free-running traversals of this worker process that did not return
var c19FreeHangs int32

func init() {
	Register("C19", "model_checking", C19)
	Sub["C19-worker"] = c19Worker
}

// ---------------------------------------------------------------- fixtures for concurrent loads

type c19Fixture struct {
	Name    string            `json:"name"`
	Feature string            `json:"feature"` // version | plain
	Dir     string            `json:"dir"`
	Files   []string          `json:"files"` // compose files (relative to Dir)
	Env     map[string]string `json:"env"`
}

func c19WriteFixtures(root string) ([]c19Fixture, error) {
	w := func(p, s string) error {
		if err := os.MkdirAll(filepath.Dir(p), 0o755); err != nil {
			return err
		}
		return os.WriteFile(p, []byte(s), 0o644)
	}
	var fx []c19Fixture
	add := func(name, feature string, files map[string]string, compose []string, env map[string]string) error {
		dir := filepath.Join(root, name)
		for f, s := range files {
			if err := w(filepath.Join(dir, f), s); err != nil {
				return err
			}
		}
		fx = append(fx, c19Fixture{Name: name, Feature: feature, Dir: dir, Files: compose, Env: env})
		return nil
	}
	err := add("v1", "version", map[string]string{"compose.yaml": `version: "3.8"
services:
  web:
    image: nginx
    ports: ["8080:80", "127.0.0.1:9000-9002:9000-9002/udp"]
    environment: [A=1, B]
    labels: {com.example: "x"}
    depends_on: [db]
  db:
    image: postgres
    volumes: ["data:/var/lib/db", "./conf:/etc/conf:ro"]
volumes:
  data: {}
`}, []string{"compose.yaml"}, map[string]string{"B": "from-env"})
	if err != nil {
		return nil, err
	}
	err = add("v2", "version", map[string]string{"compose.yaml": `version: "3"
services:
  app:
    extends: {file: base/base.yaml, service: base}
    environment: {LOCAL: "1"}
    command: ["run", "--now"]
`, "base/base.yaml": `version: "2.4"
services:
  base:
    image: base:${TAG:-latest}
    build: {context: ./ctx}
    environment: {BASE: "1", LOCAL: "0"}
    env_file: [./base.env]
`, "base/base.env": "FROM_FILE=yes\nREF=${BASE_REF:-none}\n"}, []string{"compose.yaml"}, map[string]string{"TAG": "v9"})
	if err != nil {
		return nil, err
	}
	err = add("v3", "version", map[string]string{"compose.yaml": `version: "3.9"
include:
  - sub/inc.yaml
services:
  main: {image: "main:${COMPOSE_PROJECT_NAME}"}
`, "sub/inc.yaml": `version: "3.9"
services:
  inc: {image: inc, networks: [n1]}
networks:
  n1: {}
`}, []string{"compose.yaml"}, map[string]string{})
	if err != nil {
		return nil, err
	}
	err = add("p1", "plain", map[string]string{"compose.yaml": `include:
  - path: inc/inc.yaml
    env_file: inc/inc.env
services:
  a:
    image: a:${VER}
    env_file: [./a.env]
    secrets: [s1]
    configs: [{source: c1, target: /c1}]
secrets:
  s1: {environment: SECRET_ONE}
configs:
  c1: {content: "hello ${VER}"}
`, "a.env": "K1=v1\nK2=${K1}-x\n", "inc/inc.yaml": `services:
  b: {image: "b:${INCVAR}", build: ./bctx}
`, "inc/inc.env": "INCVAR=fromfile\n"}, []string{"compose.yaml"}, map[string]string{"VER": "1.2", "SECRET_ONE": "s3cr3t"})
	if err != nil {
		return nil, err
	}
	err = add("p2", "plain", map[string]string{"compose.yaml": `services:
  x: {image: x, deploy: {replicas: 2, resources: {limits: {cpus: "0.5", memory: 64M}}}}
---
services:
  x: {ports: ["80"], ulimits: {nofile: {soft: 10, hard: 20}}}
  y: {image: y, network_mode: "service:x", healthcheck: {test: "curl -f localhost", interval: 10s}}
`, "override.yaml": `services:
  x: {environment: [OVER=1], labels: [l=1]}
  y: {command: echo hi}
`}, []string{"compose.yaml", "override.yaml"}, map[string]string{})
	if err != nil {
		return nil, err
	}
	// every substitution operator, in two different mixes (tables chosen per template must not be shared between loads)
	opsDoc := func(forms []string) string {
		var sb strings.Builder
		fmt.Fprintf(&sb, "x-meta: {doc: %q, n%d: v}\nx-owner: {owner: %q, tags: {t%d: %q}}\n", forms[0], len(forms), forms[1], len(forms), forms[0])
		sb.WriteString("services:\n  app:\n    image: img\n    x-plain: {owner: svc}\n    labels:\n")
		for i := 0; i < 24; i++ {
			fmt.Fprintf(&sb, "      l%d: \"%s\"\n", i, strings.ReplaceAll(forms[i%len(forms)], "%d", fmt.Sprint(i)))
		}
		return sb.String()
	}
	err = add("o1", "plain", map[string]string{"compose.yaml": opsDoc([]string{"${SET:-d%d}", "${EMPTY:-d%d}", "${UNSET-d%d}", "${SET-d%d}", "$SET-plain%d", "${UNSET:-${SET}%d}"})}, []string{"compose.yaml"}, map[string]string{"SET": "s", "EMPTY": ""})
	if err != nil {
		return nil, err
	}
	err = add("o2", "plain", map[string]string{"compose.yaml": opsDoc([]string{"${SET:+a%d}", "${UNSET+a%d}", "${SET:?m%d}", "${SET?m%d}", "${EMPTY?m%d}", "${EMPTY+a%d}", "${SET:+${UNSET:-x}%d}"})}, []string{"compose.yaml"}, map[string]string{"SET": "s", "EMPTY": ""})
	if err != nil {
		return nil, err
	}
	err = add("p3", "plain", map[string]string{"compose.yaml": `services:
  bad: {image: x, depends_on: [missing]}
`}, []string{"compose.yaml"}, map[string]string{})
	if err != nil {
		return nil, err
	}
	return fx, nil
}

// c19Known is a caller-registered extension table shared by all loads (values of map, pointer and struct kind).
type c19Meta struct {
	Owner string            `yaml:"owner" json:"owner"`
	Tags  map[string]string `yaml:"tags" json:"tags"`
}

var c19Known = map[string]any{"x-meta": map[string]string{}, "x-owner": &c19Meta{}, "x-plain": c19Meta{}}

// c19Copy copies a fixture's directory to dir (new file names for the same contents).
func c19Copy(f c19Fixture, dir string) c19Fixture {
	_ = filepath.Walk(f.Dir, func(p string, info os.FileInfo, err error) error {
		if err != nil {
			return nil
		}
		rel, _ := filepath.Rel(f.Dir, p)
		if info.IsDir() {
			return os.MkdirAll(filepath.Join(dir, rel), 0o755)
		}
		b, err := os.ReadFile(p)
		if err != nil {
			return nil
		}
		return os.WriteFile(filepath.Join(dir, rel), b, 0o644)
	})
	g := f
	g.Dir = dir
	return g
}

func c19LoadDigest(f c19Fixture) string {
	var cfs []types.ConfigFile
	for _, n := range f.Files {
		cfs = append(cfs, types.ConfigFile{Filename: filepath.Join(f.Dir, n)})
	}
	env := types.Mapping{} // every load gets its own copy: equal inputs, no shared mutable argument
	for k, v := range f.Env {
		env[k] = v
	}
	p, err := loader.LoadWithContext(context.Background(), types.ConfigDetails{WorkingDir: f.Dir, ConfigFiles: cfs, Environment: env},
		func(o *loader.Options) {
			o.SetProjectName("proj", true)
			o.KnownExtensions = c19Known // one table registered once by the application and used by every load
		})
	if err != nil {
		return "error: " + err.Error()
	}
	y, err1 := p.MarshalYAML()
	j, err2 := p.MarshalJSON()
	if err1 != nil || err2 != nil {
		return fmt.Sprintf("marshal error: %v %v", err1, err2)
	}
	h := sha256.Sum256(append(y, j...))
	return "ok:" + hex.EncodeToString(h[:8])
}

// ---------------------------------------------------------------- worker (child process, built with -race)

type c19Task struct {
	Kind string `json:"kind"` // fanout | trav | loads
	// fanout
	N     int   `json:"n,omitempty"`
	Fails []int `json:"fails,omitempty"`
	Order []int `json:"order,omitempty"` // ranks: at each step the index into the parked list
	// trav
	Cfg  *sched.Config `json:"cfg,omitempty"`
	Seed int64         `json:"seed,omitempty"`
	// loads
	Inputs []int `json:"inputs,omitempty"` // fixture index per goroutine
	Rounds int   `json:"rounds,omitempty"`
	Cold   bool  `json:"cold,omitempty"` // the concurrent loads are the first loads of the (fresh) worker process
}

type c19Job struct {
	Procs    int          `json:"procs"`
	Fixtures []c19Fixture `json:"fixtures"`
	Tasks    []c19Task    `json:"tasks"`
}

type c19TaskResult struct {
	Violations []string    `json:"violations"`
	Detail     interface{} `json:"detail,omitempty"`
}

func c19Worker(args []string) int {
	b, err := os.ReadFile(args[0])
	if err != nil {
		fmt.Fprintln(os.Stderr, err)
		return 2
	}
	var job c19Job
	if err := json.Unmarshal(b, &job); err != nil {
		fmt.Fprintln(os.Stderr, err)
		return 2
	}
	logrus.SetOutput(io.Discard)
	runtime.GOMAXPROCS(job.Procs)
	results := make([]c19TaskResult, len(job.Tasks))
	var baseline []string
	for i, t := range job.Tasks {
		fmt.Fprintf(os.Stderr, "@@TASK %d\n", i)
		switch t.Kind {
		case "fanout":
			r := sched.RunFanout(t.N, t.Fails, func(parked []int, step int) int {
				if step < len(t.Order) {
					return t.Order[step] % len(parked)
				}
				return 0
			})
			results[i] = c19TaskResult{Violations: r.Violations, Detail: r}
		case "trav":
			rng := rand.New(rand.NewSource(t.Seed))
			var ch sched.Chooser = sched.Random{Rng: rng}
			if t.Seed%2 == 1 {
				ch = sched.NewBiased(rng)
			}
			r := sched.Run(*t.Cfg, ch)
			r.Events = nil
			results[i] = c19TaskResult{Violations: r.Violations, Detail: r}
		case "travfree":
			// the traversal running freely (no scheduler gates, whose channels would order the goroutines for the race detector):
			// every service the options select is visited exactly once
			var viol []string
			// three walks that did not return are enough to report: the remaining ones are not started (each would wait 20 s)
			if atomic.LoadInt32(&c19FreeHangs) >= 3 {
				results[i] = c19TaskResult{Detail: "not run: three free-running traversals of this job already did not return"}
				continue
			}
			for round := 0; round < 6; round++ {
				var mu sync.Mutex
				visits := map[string]int{}
				done := make(chan error, 1)
				go func() {
					done <- graph.InDependencyOrder(context.Background(), sched.BuildProject(*t.Cfg), func(_ context.Context, name string, _ types.ServiceConfig) error {
						mu.Lock()
						visits[name]++
						mu.Unlock()
						runtime.Gosched()
						return nil
					}, sched.Options(*t.Cfg)...)
				}()
				select {
				case err := <-done:
					if err != nil {
						viol = append(viol, "result: free-running traversal returns "+err.Error())
					}
				case <-time.After(20 * time.Second):
					viol = append(viol, "hang: free-running traversal does not return")
					atomic.AddInt32(&c19FreeHangs, 1)
				}
				mu.Lock()
				for n := 1; n <= t.Cfg.N; n++ {
					want := 0
					if t.Cfg.Expected(n) {
						want = 1
					}
					if visits[sched.Name(n)] != want {
						viol = append(viol, fmt.Sprintf("result: service %d visited %d times by the free-running traversal, expected %d", n, visits[sched.Name(n)], want))
					}
				}
				mu.Unlock()
				if len(viol) > 0 {
					break
				}
			}
			results[i] = c19TaskResult{Violations: viol}
		case "loads":
			var cold []string
			if t.Cold && baseline == nil {
				// nothing has been loaded in this process yet: whatever the library initialises on first use is initialised
				// by these goroutines at once
				cold = make([]string, len(t.Inputs))
				var wgc sync.WaitGroup
				startc := make(chan struct{})
				for g, fi := range t.Inputs {
					wgc.Add(1)
					go func(g, fi int) {
						defer wgc.Done()
						<-startc
						cold[g] = c19LoadDigest(job.Fixtures[fi])
					}(g, fi)
				}
				close(startc)
				wgc.Wait()
			}
			if baseline == nil {
				for _, f := range job.Fixtures {
					baseline = append(baseline, c19LoadDigest(f)) // each input loaded alone first
				}
			}
			var viol []string
			var mu sync.Mutex
			for g, d := range cold {
				if d != baseline[t.Inputs[g]] {
					viol = append(viol, fmt.Sprintf("concurrent-result-differs: input %s loaded concurrently as the first load of the process gives %s, alone %s", job.Fixtures[t.Inputs[g]].Name, d, baseline[t.Inputs[g]]))
				}
			}
			for round := 0; round < t.Rounds; round++ {
				var wg sync.WaitGroup
				start := make(chan struct{})
				for g, fi := range t.Inputs {
					wg.Add(1)
					go func(g, fi int) {
						defer wg.Done()
						<-start
						if g%3 == 1 {
							runtime.Gosched()
						}
						d := c19LoadDigest(job.Fixtures[fi])
						if d != baseline[fi] {
							mu.Lock()
							viol = append(viol, fmt.Sprintf("concurrent-result-differs: input %s loaded concurrently gives %s, alone %s", job.Fixtures[fi].Name, d, baseline[fi]))
							mu.Unlock()
						}
					}(g, fi)
				}
				close(start)
				wg.Wait()
				// every fourth round also on fresh copies of the inputs, under file names no load has seen before: each
				// goroutine loads its own copy first concurrently, the copy is loaded alone afterwards for comparison
				if round%4 == 0 {
					copies := make([]c19Fixture, len(t.Inputs))
					conc := make([]string, len(t.Inputs))
					for g, fi := range t.Inputs {
						copies[g] = c19Copy(job.Fixtures[fi], fmt.Sprintf("%s-fresh-%d-%d-%d-%d", job.Fixtures[fi].Dir, os.Getpid(), i, round, g))
					}
					var wg2 sync.WaitGroup
					start2 := make(chan struct{})
					for g := range t.Inputs {
						wg2.Add(1)
						go func(g int) {
							defer wg2.Done()
							<-start2
							conc[g] = c19LoadDigest(copies[g])
						}(g)
					}
					close(start2)
					wg2.Wait()
					for g := range t.Inputs {
						if alone := c19LoadDigest(copies[g]); alone != conc[g] {
							viol = append(viol, fmt.Sprintf("concurrent-result-differs: a fresh copy of input %s loaded concurrently gives %s, alone %s", copies[g].Name, conc[g], alone))
						}
						_ = os.RemoveAll(copies[g].Dir)
					}
				}
			}
			results[i] = c19TaskResult{Violations: viol}
		}
	}
	fmt.Fprintf(os.Stderr, "@@END\n")
	out, _ := json.Marshal(results)
	if err := os.WriteFile(args[1], out, 0o644); err != nil {
		return 2
	}
	return 0
}

var reRaceFrame = regexp.MustCompile(`(?m)^  (github\.com/compose-spec/compose-go/v2/[^\s(]+(?:\([^)]*\))?[^\s(]*)\(`)

// parseRaces splits a worker's stderr into per-task race signatures.
func parseRaces(stderr string) map[int][]string {
	res := map[int][]string{}
	parts := strings.Split(stderr, "@@TASK ")
	for _, p := range parts[1:] {
		nl := strings.IndexByte(p, '\n')
		if nl < 0 {
			continue
		}
		var idx int
		fmt.Sscanf(p[:nl], "%d", &idx)
		body := p[nl:]
		for _, rep := range strings.Split(body, "WARNING: DATA RACE")[1:] {
			if e := strings.Index(rep, "=================="); e > 0 {
				rep = rep[:e]
			}
			// the two accesses: text up to "Goroutine" creation sections
			acc := rep
			if g := strings.Index(rep, "\nGoroutine "); g > 0 {
				acc = rep[:g]
			}
			blocks := regexp.MustCompile(`(?m)^(?:Write|Read|Previous write|Previous read|Atomic|Previous atomic)[^\n]*\n`).Split(acc, -1)
			var fr []string
			for _, blk := range blocks[1:] {
				if m := reRaceFrame.FindStringSubmatch(blk); m != nil {
					fr = append(fr, strings.TrimPrefix(m[1], "github.com/compose-spec/compose-go/v2/"))
				} else {
					fr = append(fr, "outside-library")
				}
			}
			sort.Strings(fr)
			res[idx] = append(res[idx], "race:"+strings.Join(fr, "|")+"\n"+strings.TrimSpace(tailStr(acc, 1500)))
		}
	}
	return res
}

func (t c19Task) key() string { b, _ := json.Marshal(t); return string(b) }

// runJob runs one worker process and reports its findings.
func c19RunJob(c *core.Ctx, name string, job c19Job, nontrivial func(c19Task) bool) bool {
	jp := filepath.Join(c.Work, name+".job.json")
	op := filepath.Join(c.Work, name+".out.json")
	b, _ := json.Marshal(job)
	if err := os.WriteFile(jp, b, 0o644); err != nil {
		c.Inconclusive(err.Error())
		return false
	}
	exe, _ := os.Executable()
	cmd := exec.Command(exe, "C19-worker", jp, op)
	cmd.Env = append(os.Environ(), "GORACE=exitcode=0 halt_on_error=0")
	var stderr bytes.Buffer
	cmd.Stderr = &stderr
	cmd.Stdout = &stderr
	done := make(chan error, 1)
	if err := cmd.Start(); err != nil {
		c.Inconclusive("cannot start worker: " + err.Error())
		return false
	}
	go func() { done <- cmd.Wait() }()
	select {
	case err := <-done:
		if err != nil {
			c.Inconclusive(fmt.Sprintf("worker %s failed: %v: %s", name, err, tailStr(stderr.String(), 800)))
			return false
		}
	case <-time.After(40 * time.Minute):
		_ = cmd.Process.Kill()
		c.Inconclusive("worker " + name + " timed out")
		return false
	}
	var results []c19TaskResult
	ob, err := os.ReadFile(op)
	if err != nil || json.Unmarshal(ob, &results) != nil || len(results) != len(job.Tasks) {
		c.Inconclusive("worker " + name + " produced no usable result")
		return false
	}
	if !strings.Contains(stderr.String(), "@@END") {
		c.Inconclusive("worker " + name + " did not finish")
		return false
	}
	races := parseRaces(stderr.String())
	for i, t := range job.Tasks {
		c.Eval(name+t.key(), nontrivial(t))
		for _, v := range results[i].Violations {
			if (t.Kind == "trav" || t.Kind == "travfree") && !(strings.HasPrefix(v, "hang") || strings.HasPrefix(v, "result")) {
				continue // ordering/bound clauses of the traversal belong to C13
			}
			c.Report(core.Finding{Sig: t.Kind + ":" + sigOf(v), Detail: v + " — task " + t.key(), Replay: map[string]interface{}{"task": t, "result": results[i].Detail}})
		}
		for _, r := range races[i] {
			sig := r[:strings.IndexByte(r, '\n')]
			c.Report(core.Finding{Sig: sig, Detail: "data race reported by the Go race detector during task " + t.key() + ": " + r, Replay: map[string]interface{}{"task": t, "fixtures": job.Fixtures}})
		}
	}
	c.Inc("race_reports", int64(len(races)))
	return true
}

func C19(c *core.Ctx) {
	rng := rand.New(rand.NewSource(c.Seed))
	c.Assumption("data-race freedom is decided by the Go race detector on the executions driven here (happens-before based, so a race is reported whenever two conflicting accesses are unordered in an executed schedule), not by TLC; TLC decides the protocol properties of the fan-out and traversal and predicts which shared variables can race")
	c.Assumption("the harness itself is built with -race and -tags verif")

	// ---- (a) Fanout: model check
	maxN := 3
	if !c.Quick() {
		maxN = 4
	}
	if !c.Quick() {
		if !c.CoverageGuard("mc_fanout_action_coverage", core.TLCOpts{Module: "MC_Fanout", CfgText: "SPECIFICATION Spec\nCONSTANTS MinN = 0\n MaxN = 3\nINVARIANTS CalledOnce Results FirstError AllJoined NoRace\nCHECK_DEADLOCK TRUE\n", Timeout: 30 * time.Minute, Name: "fanoutcov"}) {
			return
		}
	}
	r, err := c.RunTLC(core.TLCOpts{Module: "MC_Fanout", CfgText: fmt.Sprintf("SPECIFICATION Spec\nCONSTANTS MinN = 0\n MaxN = %d\nINVARIANTS CalledOnce Results FirstError AllJoined NoRace\nPROPERTY Live\nCHECK_DEADLOCK TRUE\n", maxN), Timeout: 30 * time.Minute, Name: "fanout"})
	if err != nil {
		c.Inconclusive("Fanout model checking failed: " + err.Error())
		return
	}
	c.AddTLC(r)
	if r.Violated != "" {
		c.Inconclusive("the Fanout model violates " + r.Violated + ": " + tailStr(r.ErrorTrace(), 600))
		return
	}
	c.Set("mc_fanout", map[string]interface{}{"max_services": maxN, "distinct": r.Distinct, "generated": r.Generated})
	// ---- (a) Fanout: every completion order x every failing subset on the real code, under -race
	var ftasks []c19Task
	fmax := 4
	if !c.Quick() {
		fmax = 5
	}
	for n := 0; n <= fmax; n++ {
		var orders [][]int
		var gen func(cur []int, left int)
		gen = func(cur []int, left int) {
			if left == 0 {
				orders = append(orders, append([]int{}, cur...))
				return
			}
			for i := 0; i < left; i++ {
				gen(append(cur, i), left-1)
			}
		}
		gen(nil, n)
		for mask := 0; mask < 1<<n; mask++ {
			var fails []int
			for i := 0; i < n; i++ {
				if mask&(1<<i) != 0 {
					fails = append(fails, i+1)
				}
			}
			for _, o := range orders {
				ftasks = append(ftasks, c19Task{Kind: "fanout", N: n, Fails: fails, Order: o})
			}
		}
	}
	if !c.Quick() { // N = 6: sampled
		for i := 0; i < 3000; i++ {
			var fails []int
			for k := 1; k <= 6; k++ {
				if rng.Intn(4) == 0 {
					fails = append(fails, k)
				}
			}
			o := make([]int, 6)
			for k := range o {
				o[k] = rng.Intn(6 - k)
			}
			ftasks = append(ftasks, c19Task{Kind: "fanout", N: 6, Fails: fails, Order: o})
		}
	}
	// repeat the empty project (a race between the collector's write and main's read of the services field was found and fixed here)
	for i := 0; i < 40; i++ {
		ftasks = append(ftasks, c19Task{Kind: "fanout", N: 0})
	}
	var wg sync.WaitGroup
	shards := 8
	okAll := true
	var mu sync.Mutex
	for s := 0; s < shards; s++ {
		var part []c19Task
		for i := s; i < len(ftasks); i += shards {
			part = append(part, ftasks[i])
		}
		wg.Add(1)
		go func(s int, part []c19Task) {
			defer wg.Done()
			ok := c19RunJob(c, fmt.Sprintf("fanout%d", s), c19Job{Procs: 1, Tasks: part}, func(t c19Task) bool { return t.N >= 2 })
			mu.Lock()
			okAll = okAll && ok
			mu.Unlock()
		}(s, part)
	}
	// ---- (b) traversal under the race detector
	nTrav := 1500
	if !c.Quick() {
		nTrav = 8000
	}
	var ttasks []c19Task
	for i := 0; i < nTrav; i++ {
		cfg := randomConfig(rng, 5)
		ttasks = append(ttasks, c19Task{Kind: "trav", Cfg: &cfg, Seed: rng.Int63()})
	}
	// the same kind of configurations, without failing visitors or caller cancellation, running freely on all processors
	var freeTasks []c19Task
	for i := 0; i < nTrav/3; i++ {
		cfg := randomConfig(rng, 6)
		cfg.Fails, cfg.Ext = nil, false
		freeTasks = append(freeTasks, c19Task{Kind: "travfree", Cfg: &cfg, Seed: rng.Int63()})
	}
	wg.Add(1)
	go func() {
		defer wg.Done()
		ok := c19RunJob(c, "travfree", c19Job{Procs: 8, Tasks: freeTasks}, func(t c19Task) bool { return t.Cfg.N >= 2 })
		mu.Lock()
		okAll = okAll && ok
		mu.Unlock()
	}()
	tshards := 4
	for s := 0; s < tshards; s++ {
		var part []c19Task
		for i := s; i < len(ttasks); i += tshards {
			part = append(part, ttasks[i])
		}
		wg.Add(1)
		go func(s int, part []c19Task) {
			defer wg.Done()
			ok := c19RunJob(c, fmt.Sprintf("trav%d", s), c19Job{Procs: 1, Tasks: part}, func(t c19Task) bool { return t.Cfg.N >= 2 })
			mu.Lock()
			okAll = okAll && ok
			mu.Unlock()
		}(s, part)
	}
	wg.Wait()
	c.Set("fanout_real_executions", len(ftasks))
	c.Set("traversal_real_executions_under_race", len(ttasks))
	c.Set("traversal_free_running_executions_under_race", len(freeTasks)*6)
	c.AddTraces(int64(len(ftasks) + len(ttasks)))
	c.Logf("fan-out: %d executions, traversal: %d executions (all under -race)", len(ftasks), len(ttasks))
	if !okAll {
		return
	}

	// ---- (c) concurrent loads: inventory from the source, model, workloads, race detector
	inv, unknown, err := inventory.Scan(core.RepoRoot)
	if err != nil {
		c.Inconclusive("inventory scan failed: " + err.Error())
		return
	}
	for _, u := range unknown {
		c.Drift("package-level variable written at run time that the inventory does not classify: " + u + " (modelled as touched by every load)")
	}
	var invRecs []interface{}
	var loadVars []inventory.Var
	for _, v := range inv {
		if v.Feature != "api" {
			invRecs = append(invRecs, map[string]interface{}{"name": v.Name, "feature": v.Feature, "guarded": v.Guarded})
			loadVars = append(loadVars, v)
		}
	}
	c.Set("shared_state_inventory", inv)
	if len(invRecs) == 0 { // the module needs at least one entry: a guarded dummy keeps the workload enumeration alive
		invRecs = append(invRecs, map[string]interface{}{"name": "none", "feature": "never", "guarded": true})
	}
	invPath := filepath.Join(c.Work, "inventory.ndjson")
	wlPath := filepath.Join(c.Work, "workloads.ndjson")
	_ = core.WriteNDJSON(invPath, invRecs)
	procs := 2
	if !c.Quick() {
		procs = 3
	}
	rs, err := c.RunTLC(core.TLCOpts{Module: "SharedState", CfgText: fmt.Sprintf("SPECIFICATION Spec\nCONSTANTS P = %d\nINVARIANTS NoRace Independent\nCHECK_DEADLOCK TRUE\n", procs),
		Env: map[string]string{"INVENTORY": invPath, "OUT": wlPath}, Workers: 1, Timeout: 10 * time.Minute, Name: "shared"})
	if err != nil {
		c.Inconclusive("SharedState model checking failed: " + err.Error())
		return
	}
	c.AddTLC(rs)
	predicted := rs.Violated == "NoRace"
	if rs.Violated != "" && !predicted {
		c.Inconclusive("SharedState model violates " + rs.Violated)
		return
	}
	c.Set("mc_shared_state", map[string]interface{}{"loads": procs, "distinct": rs.Distinct, "model_predicts_race": predicted})
	// workloads: when the model stops at the race the enumeration is incomplete, so enumerate feature assignments here as well
	fixtures, err := c19WriteFixtures(filepath.Join(c.Work, "fix"))
	if err != nil {
		c.Inconclusive(err.Error())
		return
	}
	byFeature := map[string][]int{}
	for i, f := range fixtures {
		byFeature[f.Feature] = append(byFeature[f.Feature], i)
	}
	seenWl := map[string]bool{}
	var wls [][]string
	_, _ = core.ReadVectors(wlPath, func(raw json.RawMessage) error {
		var w struct {
			Inputs []string `json:"inputs"`
		}
		if json.Unmarshal(raw, &w) == nil && !seenWl[strings.Join(w.Inputs, ",")] {
			seenWl[strings.Join(w.Inputs, ",")] = true
			wls = append(wls, w.Inputs)
		}
		return nil
	})
	for _, a := range []string{"version", "plain"} {
		for _, b := range []string{"version", "plain"} {
			if k := a + "," + b; !seenWl[k] {
				seenWl[k] = true
				wls = append(wls, []string{a, b})
			}
		}
	}
	var ltasks []c19Task
	rounds := 20
	sizes := []int{2, 4, 8}
	if !c.Quick() {
		rounds = 40
		sizes = []int{2, 3, 4, 8, 16}
	}
	for _, wl := range wls {
		for _, g := range sizes {
			for variant := 0; variant < 3; variant++ {
				var inputs []int
				for k := 0; k < g; k++ {
					cands := byFeature[wl[k%len(wl)]]
					if variant == 0 { // same input everywhere per feature
						inputs = append(inputs, cands[0])
					} else {
						inputs = append(inputs, cands[rng.Intn(len(cands))])
					}
				}
				ltasks = append(ltasks, c19Task{Kind: "loads", Inputs: inputs, Rounds: rounds})
			}
		}
	}
	lshards := 4
	var wg2 sync.WaitGroup
	for s := 0; s < lshards; s++ {
		var part []c19Task
		for i := s; i < len(ltasks); i += lshards {
			part = append(part, ltasks[i])
		}
		wg2.Add(1)
		go func(s int, part []c19Task) {
			defer wg2.Done()
			c19RunJob(c, fmt.Sprintf("loads%d", s), c19Job{Procs: 4, Fixtures: fixtures, Tasks: part}, func(t c19Task) bool { return len(t.Inputs) >= 2 })
		}(s, part)
	}
	// three fresh processes whose very first loads are concurrent
	for k := 0; k < 3; k++ {
		var inputs []int
		for g := 0; g < 12; g++ {
			inputs = append(inputs, (g*(k+1)+k)%len(fixtures))
		}
		wg2.Add(1)
		go func(k int, inputs []int) {
			defer wg2.Done()
			c19RunJob(c, fmt.Sprintf("cold%d", k), c19Job{Procs: 8, Fixtures: fixtures, Tasks: []c19Task{{Kind: "loads", Inputs: inputs, Rounds: 1, Cold: true}}}, func(t c19Task) bool { return true })
		}(k, inputs)
	}
	wg2.Wait()
	c.Set("concurrent_load_workloads", map[string]interface{}{"workloads": len(ltasks), "rounds_each": rounds, "goroutines": sizes, "fixtures": len(fixtures)})
	c.AddTraces(int64(len(ltasks)))
	c.Logf("concurrent loads: %d workloads x %d rounds", len(ltasks), rounds)
	c.Sample(map[string]interface{}{"fanout_task": ftasks[len(ftasks)/2], "load_workload": ltasks[len(ltasks)/2], "traversal_config": ttasks[0].Cfg})
	c.Set("rule", "a case is one execution of the real code under -race: a fan-out with a given completion order and failing set, a traversal schedule, or a group of concurrent loads (compared with the same loads run alone); non-trivial when at least two goroutines of the library are involved")
	_ = loadVars
}
