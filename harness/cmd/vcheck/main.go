// vcheck runs one property check: vcheck <id> [--tier quick|thorough] [--replay path]
package main

import (
	"fmt"
	"os"
	"runtime/debug"
	"sort"
	"strings"

	"verif/harness/checks"
	"verif/harness/internal/core"
)

func main() {
	if len(os.Args) < 2 {
		ids := []string{}
		for id := range checks.All {
			ids = append(ids, id)
		}
		sort.Strings(ids)
		fmt.Println("usage: vcheck <id> [--tier quick|thorough] [--replay path]; ids:", ids)
		os.Exit(2)
	}
	id := os.Args[1]
	tier := os.Getenv("VERIF_TIER")
	replay := ""
	for i := 2; i < len(os.Args); i++ {
		switch os.Args[i] {
		case "--tier":
			i++
			tier = os.Args[i]
		case "--replay":
			i++
			replay = os.Args[i]
		}
	}
	if tier == "" {
		tier = "quick"
	}
	if sub, ok := checks.Sub[id]; ok { // worker sub-commands (child processes of a check)
		os.Exit(sub(os.Args[2:]))
	}
	ck, ok := checks.All[id]
	if !ok {
		fmt.Println("unknown check", id)
		os.Exit(2)
	}
	c := core.NewCtx(id, tier, ck.Level)
	c.Replay = replay
	func() {
		defer func() {
			if r := recover(); r != nil {
				st := string(debug.Stack())
				if i := strings.Index(st, "panic("); i >= 0 {
					st = st[i:]
				}
				if len(st) > 1500 {
					st = st[:1500]
				}
				c.Inconclusive(fmt.Sprintf("harness panic: %v | %s", r, strings.ReplaceAll(st, "\n", " | ")))
			}
		}()
		ck.Fn(c)
	}()
	os.Exit(c.Finish())
}
