module verif/harness

go 1.21

require (
	github.com/compose-spec/compose-go/v2 v2.0.0
	github.com/distribution/reference v0.5.0
	github.com/opencontainers/go-digest v1.0.0
	github.com/sirupsen/logrus v1.9.0
	gopkg.in/yaml.v3 v3.0.1
)

require (
	github.com/docker/go-connections v0.4.0 // indirect
	github.com/docker/go-units v0.5.0 // indirect
	github.com/go-viper/mapstructure/v2 v2.0.0 // indirect
	github.com/mattn/go-shellwords v1.0.12 // indirect
	github.com/xeipuuv/gojsonpointer v0.0.0-20180127040702-4e3ac2762d5f // indirect
	github.com/xeipuuv/gojsonreference v0.0.0-20180127040603-bd5ef7bd5415 // indirect
	github.com/xeipuuv/gojsonschema v1.2.0 // indirect
	golang.org/x/exp v0.0.0-20240112132812-db7319d0e0e3 // indirect
	golang.org/x/sync v0.3.0 // indirect
	golang.org/x/sys v0.1.0 // indirect
)

replace github.com/compose-spec/compose-go/v2 => /repo
