//go:build verif

package sched

import (
	"errors"
	"fmt"
	"runtime"
	"sort"
	"time"

	"github.com/compose-spec/compose-go/v2/types"
)

// FanoutResult is one execution of the real WithServicesTransform with the supplied function held at a gate.
type FanoutResult struct {
	N          int      `json:"n"`
	Fails      []int    `json:"fails"`
	Order      []int    `json:"order"` // order in which the calls of fn were allowed to return
	Ret        string   `json:"ret"`
	RetErr     string   `json:"ret_err,omitempty"`
	Violations []string `json:"violations"`
	Hang       bool     `json:"hang"`
}

// RunFanout drives Project.WithServicesTransform on a project with n services; the calls of fn are released in the
// order given by pick (an index into the currently parked calls).
func RunFanout(n int, fails []int, pick func(parked []int, step int) int) FanoutResult {
	if runtime.GOMAXPROCS(0) != 1 {
		panic("sched.RunFanout needs GOMAXPROCS(1)")
	}
	res := FanoutResult{N: n, Fails: fails, Order: []int{}}
	p := &types.Project{Name: "p", Services: types.Services{}}
	for i := 1; i <= n; i++ {
		p.Services[Name(i)] = types.ServiceConfig{Name: Name(i), Image: "img", Labels: types.Labels{"k": "v"}}
	}
	before := fmt.Sprintf("%#v", p)
	failing := map[int]bool{}
	for _, f := range fails {
		failing[f] = true
	}
	type arr struct {
		node    int
		release chan struct{}
	}
	arrivals := make(chan arr, 256)
	calls := map[int]int{}
	fn := func(name string, s types.ServiceConfig) (types.ServiceConfig, error) {
		a := arr{num(name), make(chan struct{})}
		arrivals <- a
		<-a.release
		if failing[num(name)] {
			return s, errors.New("boom " + name)
		}
		s.Image = "resolved-" + name
		s.Labels["k"] = "changed" // must not reach the receiver
		return s, nil
	}
	type outcome struct {
		p   *types.Project
		err error
	}
	done := make(chan outcome, 1)
	go func() {
		np, err := p.WithServicesTransform(fn)
		done <- outcome{np, err}
	}()
	self := gid()
	buf := make([]byte, 1<<18)
	var parked []arr
	finished := false
	var out outcome
	viol := func(s string) { res.Violations = append(res.Violations, s) }
	for step := 0; step < 1000; step++ {
		for {
			for i := 0; i < 3; i++ {
				runtime.Gosched()
			}
			drained := false
			for more := true; more; {
				select {
				case a := <-arrivals:
					calls[a.node]++
					if calls[a.node] > 1 {
						viol(fmt.Sprintf("fn called %d times for %s", calls[a.node], Name(a.node)))
					}
					parked = append(parked, a)
					drained = true
				case out = <-done:
					finished = true
					if len(parked) > 0 {
						viol("returned while calls of fn were still running")
					}
					drained = true
				default:
					more = false
				}
			}
			if drained {
				continue
			}
			if len(parked) == 0 && !finished {
				QuiesceChecks++
				if !allBlocked(self, buf) {
					QuiesceDisagree++
					time.Sleep(50 * time.Microsecond)
					continue
				}
			}
			break
		}
		if len(parked) == 0 {
			if !finished {
				res.Hang = true
				viol("hang: no goroutine can make progress and the call has not returned")
			}
			break
		}
		sort.Slice(parked, func(i, j int) bool { return parked[i].node < parked[j].node })
		nodes := make([]int, len(parked))
		for i := range parked {
			nodes[i] = parked[i].node
		}
		i := pick(nodes, step)
		if i < 0 || i >= len(parked) {
			i = 0
		}
		a := parked[i]
		parked = append(parked[:i], parked[i+1:]...)
		res.Order = append(res.Order, a.node)
		close(a.release)
	}
	if !finished {
		return res
	}
	anyFailedRan := false
	for k := range calls {
		if failing[k] {
			anyFailedRan = true
		}
	}
	if out.err == nil {
		res.Ret = "nil"
	} else {
		res.Ret = "err"
		res.RetErr = out.err.Error()
	}
	if (out.err != nil) != anyFailedRan {
		viol(fmt.Sprintf("first-error: returned %v although a failing call ran = %v", out.err, anyFailedRan))
	}
	if out.err != nil {
		ok := false
		for k := range calls {
			if failing[k] && out.err.Error() == "boom "+Name(k) {
				ok = true
			}
		}
		if !ok {
			viol("first-error: returned error is not an error of fn: " + out.err.Error())
		}
		// the first failing call to return is the one errgroup keeps
		for _, k := range res.Order {
			if failing[k] {
				if out.err.Error() != "boom "+Name(k) {
					viol(fmt.Sprintf("first-error: the first failing call was %s but the error is %q", Name(k), out.err.Error()))
				}
				break
			}
		}
	} else {
		if out.p == nil || len(out.p.Services) != n {
			viol(fmt.Sprintf("results: %d services returned, expected %d", lenServices(out.p), n))
		} else {
			for i := 1; i <= n; i++ {
				s, ok := out.p.Services[Name(i)]
				if !ok || s.Image != "resolved-"+Name(i) || s.Name != Name(i) {
					viol(fmt.Sprintf("results: service %s is not what fn returned for it (%q)", Name(i), s.Image))
				}
				if calls[i] != 1 {
					viol(fmt.Sprintf("results: fn called %d times for %s", calls[i], Name(i)))
				}
			}
		}
	}
	if after := fmt.Sprintf("%#v", p); after != before {
		viol("receiver-modified: the receiver differs after WithServicesTransform")
	}
	return res
}

func lenServices(p *types.Project) int {
	if p == nil {
		return -1
	}
	return len(p.Services)
}
