//go:build verif

// Package sched drives graph.CollectInDependencyOrder of the real library under a gate scheduler: every yield
// point of the traversal (guard `verif`) and the visitor itself park the calling goroutine until the scheduler
// releases it; exactly one goroutine is released at a time and the scheduler waits until every goroutine of the
// process is blocked again (decided from runtime.Stack, no timeouts) before it looks at the next choice. The
// recorded release order therefore *is* the execution order of the critical sections.
package sched

import (
	"bytes"
	"context"
	"encoding/json"
	"errors"
	"fmt"
	"math/rand"
	"runtime"
	"sort"
	"strconv"
	"strings"
	"time"

	"github.com/compose-spec/compose-go/v2/graph"
	"github.com/compose-spec/compose-go/v2/types"
)

// Config is one traversal configuration (node ids are 1-based; Deps[i-1] lists the dependencies of node i).
type Config struct {
	N       int     `json:"n"`
	Deps    [][]int `json:"deps"`
	Inverse bool    `json:"inverse"`
	Limit   int     `json:"limit"`
	After   []int   `json:"after"`
	Fails   []int   `json:"fails"`
	Ext     bool    `json:"ext"` // the caller may cancel the context it passed in (an action the chooser can pick)
}

func (c Config) Key() string {
	k := fmt.Sprintf("n%d d%v inv%v l%d a%v f%v", c.N, c.Deps, c.Inverse, c.Limit, c.After, c.Fails)
	if c.Ext {
		k += " ext"
	}
	return k
}

// Event is one released gate (or the return of the call).
type Event struct {
	Kind  string `json:"kind"` // cfg | ev | ret
	Role  string `json:"role,omitempty"`
	Point string `json:"point,omitempty"`
	Node  int    `json:"node"`
	Ret   string `json:"ret,omitempty"`
	// cfg line only
	N       int     `json:"n,omitempty"`
	Deps    [][]int `json:"deps,omitempty"`
	Inverse bool    `json:"inverse"`
	Limit   int     `json:"limit"`
	After   []int   `json:"after"`
	Fails   []int   `json:"fails"`
	Ext     bool    `json:"ext"` // the caller may cancel the context it passed in (an action the chooser can pick)
}

// MarshalJSON writes only the fields of the line's kind (TLC's JSON reader rejects null).
func (e Event) MarshalJSON() ([]byte, error) {
	switch e.Kind {
	case "cfg":
		nz := func(x []int) []int {
			if x == nil {
				return []int{}
			}
			return x
		}
		d := make([][]int, len(e.Deps))
		for i := range e.Deps {
			d[i] = nz(e.Deps[i])
		}
		return json.Marshal(map[string]interface{}{"kind": "cfg", "n": e.N, "deps": d, "inverse": e.Inverse, "limit": e.Limit, "after": nz(e.After), "fails": nz(e.Fails), "ext": e.Ext})
	case "ret":
		return json.Marshal(map[string]interface{}{"kind": "ret", "ret": e.Ret})
	}
	return json.Marshal(map[string]interface{}{"kind": "ev", "role": e.Role, "point": e.Point, "node": e.Node})
}

func (e Event) Label() string { return e.Role + ":" + e.Point + ":" + strconv.Itoa(e.Node) }

type Arrival struct {
	Gid     int64
	Role    string // main | coord | w
	Point   string
	Node    int
	release chan struct{}
}

func (a *Arrival) Label() string { return a.Role + ":" + a.Point + ":" + strconv.Itoa(a.Node) }

// Chooser picks which parked goroutine runs next. It returns an index into parked.
type Chooser interface {
	Choose(parked []*Arrival, step int) int
}

type Result struct {
	Cfg        Config   `json:"cfg"`
	Events     []Event  `json:"events"`
	Ret        string   `json:"ret"` // nil | err | "" (did not return)
	RetErr     string   `json:"ret_err,omitempty"`
	MaxRunning int      `json:"max_running"`
	Violations []string `json:"violations"` // property monitors on real visitor events
	Hang       bool     `json:"hang"`
	Reordered  bool     `json:"reordered"` // at least one choice was made among >1 parked goroutines
	Steps      int      `json:"steps"`
}

func Name(i int) string { return "s" + strconv.Itoa(i) }
func num(k string) int {
	if len(k) < 2 {
		return 0
	}
	n, _ := strconv.Atoi(k[1:])
	return n
}

func gid() int64 {
	var buf [64]byte
	n := runtime.Stack(buf[:], false)
	f := bytes.Fields(buf[:n])
	id, _ := strconv.ParseInt(string(f[1]), 10, 64)
	return id
}

// allBlocked reports whether every goroutine other than self is blocked (not running / runnable).
// QuiesceChecks / QuiesceDisagree count the cross-checks of the cheap quiescence rule.
var QuiesceChecks, QuiesceDisagree int
var totalSteps int
var StackCalls int
var StackTime time.Duration

func allBlocked(self int64, buf []byte) bool {
	t0 := time.Now()
	n := runtime.Stack(buf, true)
	StackCalls++
	StackTime += time.Since(t0)
	b := buf[:n]
	for len(b) > 0 {
		i := bytes.Index(b, []byte("goroutine "))
		if i < 0 {
			break
		}
		b = b[i+10:]
		j := bytes.IndexByte(b, ' ')
		if j < 0 {
			break
		}
		id, err := strconv.ParseInt(string(b[:j]), 10, 64)
		if err != nil { // "goroutine " inside a frame, not a header
			continue
		}
		k := bytes.IndexByte(b, ']')
		if k < 0 || b[j+1] != '[' {
			continue
		}
		state := string(b[j+2 : k])
		b = b[k:]
		if id == self {
			continue
		}
		if strings.HasPrefix(state, "running") || strings.HasPrefix(state, "runnable") || strings.HasPrefix(state, "syscall") ||
			strings.HasPrefix(state, "copystack") || strings.HasPrefix(state, "preempted") || strings.HasPrefix(state, "waiting") {
			return false
		}
	}
	return true
}

// BuildProject makes the real project for a configuration.
func BuildProject(cfg Config) *types.Project {
	p := &types.Project{Name: "p", Services: types.Services{}}
	for i := 1; i <= cfg.N; i++ {
		s := types.ServiceConfig{Name: Name(i), Image: "img" + strconv.Itoa(i)}
		if len(cfg.Deps[i-1]) > 0 {
			s.DependsOn = types.DependsOnConfig{}
		}
		for _, d := range cfg.Deps[i-1] {
			s.DependsOn[Name(d)] = types.ServiceDependency{Condition: types.ServiceConditionStarted, Required: true}
		}
		// an optional dependency on a service that is not there (absent, or disabled by a profile) is no edge of the
		// graph; it must still be in the project after the walk
		if i%2 == 1 {
			if s.DependsOn == nil {
				s.DependsOn = types.DependsOnConfig{}
			}
			s.DependsOn["ghost"] = types.ServiceDependency{Condition: types.ServiceConditionStarted, Required: false}
			s.DependsOn["off"] = types.ServiceDependency{Condition: types.ServiceConditionHealthy, Required: false}
		}
		p.Services[Name(i)] = s
	}
	p.DisabledServices = types.Services{"off": types.ServiceConfig{Name: "off", Image: "img-off", Profiles: []string{"never"}}}
	return p
}

func Options(cfg Config) []func(*graph.Options) {
	var opts []func(*graph.Options)
	if cfg.Inverse {
		opts = append(opts, graph.InReverseOrder)
	}
	// variation that the configuration does not fix: how "unbounded" is spelled, and the order in which roots are listed
	h := 0
	for _, ch := range cfg.Key() {
		h = (h*31 + int(ch)) & 0xffff
	}
	if cfg.Limit > 0 {
		opts = append(opts, graph.WithMaxConcurrency(cfg.Limit))
	} else if spell := []int{1, 0, -1, -100}[h%4]; spell <= 0 { // no option at all, 0, -1 and any negative number all mean "no limit"
		opts = append(opts, graph.WithMaxConcurrency(spell))
	}
	if len(cfg.After) > 0 {
		var r []string
		for _, a := range cfg.After {
			r = append(r, Name(a))
		}
		if (h/4)%2 == 1 { // the roots in descending order
			for i, j := 0, len(r)-1; i < j; i, j = i+1, j-1 {
				r[i], r[j] = r[j], r[i]
			}
		}
		opts = append(opts, graph.WithRootNodesAndDown(r))
	}
	return opts
}

// closure helpers for the monitors (independent of the library and of the spec)
func (c Config) desc(n int, seen map[int]bool) {
	for _, d := range c.Deps[n-1] {
		if !seen[d] {
			seen[d] = true
			c.desc(d, seen)
		}
	}
}

// Expected says whether node n must be visited (roots semantics of the statement).
func (c Config) Expected(n int) bool {
	if len(c.After) == 0 {
		return true
	}
	seen := map[int]bool{n: true}
	c.desc(n, seen)
	for _, a := range c.After {
		if seen[a] {
			return true
		}
	}
	return false
}

func (c Config) waits(n int) []int {
	if !c.Inverse {
		return c.Deps[n-1]
	}
	var r []int
	for m := 1; m <= c.N; m++ {
		for _, d := range c.Deps[m-1] {
			if d == n {
				r = append(r, m)
			}
		}
	}
	return r
}

const maxSteps = 4000

// Run executes one traversal of the real library under the gate scheduler.
func Run(cfg Config, ch Chooser) Result {
	res := Result{Cfg: cfg}
	p := BuildProject(cfg)
	before := fmt.Sprintf("%#v", p)
	fails := map[int]bool{}
	for _, f := range cfg.Fails {
		fails[f] = true
	}
	arrivals := make(chan *Arrival, 1024)
	park := func(point, key string) {
		a := &Arrival{Gid: gid(), Point: point, Node: num(key), release: make(chan struct{})}
		arrivals <- a
		<-a.release
	}
	graph.VerifYield = park
	defer func() { graph.VerifYield = nil }()
	visitor := func(_ context.Context, name string, svc types.ServiceConfig) (string, error) {
		park("visit", name)
		if svc.Name != name {
			return "", errors.New("wrong service passed")
		}
		if fails[num(name)] {
			return "", errors.New("boom " + name)
		}
		return "token-" + name, nil
	}
	type outcome struct {
		m   map[string]string
		err error
	}
	done := make(chan outcome, 1)
	mainReady := make(chan int64)
	ctx, cancel := context.WithCancel(context.Background())
	defer cancel()
	callerCancelled := false
	cancelAction := &Arrival{Role: "env", Point: "cancel"} // offered to the chooser next to the parked goroutines
	go func() {
		mainReady <- gid()
		m, err := graph.CollectInDependencyOrder(ctx, p, visitor, Options(cfg)...)
		done <- outcome{m, err}
	}()
	mainG := <-mainReady
	self := gid()
	if runtime.GOMAXPROCS(0) != 1 {
		panic("sched.Run needs GOMAXPROCS(1)")
	}
	var coordG int64
	workers := map[int64]int{}
	role := func(a *Arrival) string {
		switch {
		case a.Gid == mainG:
			return "main"
		case a.Point == "coord.recv" || a.Point == "coord.ctxdone":
			coordG = a.Gid
			return "coord"
		case a.Gid == coordG:
			return "coord"
		case a.Point == "worker.start":
			workers[a.Gid] = a.Node
			return "w"
		}
		if _, ok := workers[a.Gid]; ok {
			return "w"
		}
		return "?"
	}
	var parked []*Arrival
	entered := map[int]int{}
	returned := map[int]bool{}
	running := 0
	finished := false
	var out outcome
	viol := func(s string) { res.Violations = append(res.Violations, s) }
	buf := make([]byte, 1<<18)
	onArrive := func(a *Arrival) {
		a.Role = role(a)
		parked = append(parked, a)
		if a.Point != "visit" {
			return
		}
		n := a.Node
		entered[n]++
		running++
		if running > res.MaxRunning {
			res.MaxRunning = running
		}
		if entered[n] > 1 {
			viol(fmt.Sprintf("once-each: visitor of %s invoked %d times", Name(n), entered[n]))
		}
		if !cfg.Expected(n) {
			viol(fmt.Sprintf("roots: %s visited although it is neither a root nor depends on one", Name(n)))
		}
		for _, d := range cfg.waits(n) {
			if cfg.Expected(d) && !returned[d] {
				viol(fmt.Sprintf("deps-first: visitor of %s started before the visit of %s returned", Name(n), Name(d)))
			}
		}
		if cfg.Limit > 0 && running > cfg.Limit {
			if len(returnedFailing(returned, fails)) > 0 {
				viol(fmt.Sprintf("bound-after-error: %d visitors running, limit %d (a visitor had already failed)", running, cfg.Limit))
			} else {
				viol(fmt.Sprintf("bound: %d visitors running, limit %d", running, cfg.Limit))
			}
		}
		if finished {
			viol("return-before-all: visitor of " + Name(n) + " started after the call returned")
		}
	}
	for res.Steps < maxSteps {
		// Wait until the whole process is quiescent, collecting arrivals. The process runs with GOMAXPROCS(1):
		// a goroutine that calls Gosched goes to the global run queue and is resumed only when the local run
		// queue is empty (or at a 1-in-61 fairness tick - hence three calls), i.e. when every other goroutine
		// is blocked. The cheap rule is cross-checked against the goroutine states reported by runtime.Stack
		// on every 64th step and before a hang is declared.
		for {
			for i := 0; i < 3; i++ {
				runtime.Gosched()
			}
			drained := false
			for more := true; more; {
				select {
				case a := <-arrivals:
					onArrive(a)
					drained = true
				case out = <-done:
					finished = true
					if running > 0 {
						viol(fmt.Sprintf("return-before-all: call returned while %d visitors were running", running))
					}
					drained = true
				default:
					more = false
				}
			}
			if drained {
				continue
			}
			totalSteps++
			if totalSteps%64 == 0 || (len(parked) == 0 && !finished) {
				QuiesceChecks++
				if !allBlocked(self, buf) {
					QuiesceDisagree++
					time.Sleep(50 * time.Microsecond)
					continue
				}
			}
			break
		}
		if len(parked) == 0 {
			if !finished {
				res.Hang = true
			}
			break
		}
		offer := cfg.Ext && !callerCancelled && !finished
		if offer {
			parked = append(parked, cancelAction)
		}
		if len(parked) > 1 {
			res.Reordered = true
		}
		sort.SliceStable(parked, func(i, j int) bool { return parked[i].Label() < parked[j].Label() })
		i := ch.Choose(parked, res.Steps)
		if i < 0 || i >= len(parked) {
			i = 0
		}
		a := parked[i]
		parked = append(parked[:i], parked[i+1:]...)
		if offer && a != cancelAction {
			for k, x := range parked {
				if x == cancelAction {
					parked = append(parked[:k], parked[k+1:]...)
					break
				}
			}
		}
		if a == cancelAction { // the caller cancels: nothing is released, goroutines selecting on ctx.Done wake up
			callerCancelled = true
			cancel()
			res.Events = append(res.Events, Event{Kind: "ev", Role: "env", Point: "cancel", Node: 0})
			res.Steps++
			continue
		}
		res.Events = append(res.Events, Event{Kind: "ev", Role: a.Role, Point: a.Point, Node: a.Node})
		res.Steps++
		if a.Point == "visit" {
			returned[a.Node] = true
			running--
		}
		close(a.release)
	}
	if res.Steps >= maxSteps {
		res.Hang = true
	}
	if finished {
		if out.err == nil {
			res.Ret = "nil"
		} else {
			res.Ret = "err"
			res.RetErr = out.err.Error()
		}
		res.Events = append(res.Events, Event{Kind: "ret", Ret: res.Ret})
		anyFailed := false
		for n := range entered {
			if fails[n] {
				anyFailed = true
			}
		}
		if (out.err == nil) == anyFailed && !(callerCancelled && out.err != nil) {
			viol(fmt.Sprintf("result: returned %v although failing visitor ran = %v", out.err, anyFailed))
		}
		if out.err != nil {
			ok := callerCancelled && errors.Is(out.err, context.Canceled) // the context's error, when the caller cancelled
			for n := range entered {
				if fails[n] && out.err.Error() == "boom "+Name(n) {
					ok = true
				}
			}
			if !ok {
				viol("result: returned error is not the error of a visitor that ran: " + out.err.Error())
			}
		}
		if out.err == nil { // nil only when all services were visited, whoever cancelled
			for n := 1; n <= cfg.N; n++ {
				want := 0
				if cfg.Expected(n) {
					want = 1
				}
				if entered[n] != want {
					viol(fmt.Sprintf("once-each: %s visited %d times, expected %d (call returned nil)", Name(n), entered[n], want))
				}
			}
		}
		// per-service results are exactly what the supplied function returned (C19 b)
		for n := range entered {
			if !fails[n] && returned[n] {
				if got := out.m[Name(n)]; got != "token-"+Name(n) {
					viol(fmt.Sprintf("results: result of %s is %q", Name(n), got))
				}
			}
		}
		if after := fmt.Sprintf("%#v", p); after != before {
			viol("project-modified: the project differs after the walk")
		}
	}
	if res.Hang {
		viol("hang: no goroutine can make progress and the call has not returned")
	}
	return res
}

func returnedFailing(returned map[int]bool, fails map[int]bool) []int {
	var r []int
	for n := range returned {
		if fails[n] {
			r = append(r, n)
		}
	}
	return r
}

// ---------------------------------------------------------------- choosers

// CancelAt lets Inner choose among the parked goroutines and takes the caller's cancellation (when it is on offer)
// at step At: uniformly chosen cancel steps would almost always fall before the first visit.
type CancelAt struct {
	Inner Chooser
	At    int
}

func (c CancelAt) Choose(parked []*Arrival, step int) int {
	ci := -1
	for i, a := range parked {
		if a.Role == "env" {
			ci = i
		}
	}
	if ci < 0 {
		return c.Inner.Choose(parked, step)
	}
	if step >= c.At || len(parked) == 1 {
		return ci
	}
	rest := append(append([]*Arrival{}, parked[:ci]...), parked[ci+1:]...)
	i := c.Inner.Choose(rest, step)
	if i >= ci {
		i++
	}
	return i
}

// Random releases a uniformly random parked goroutine.
type Random struct{ Rng *rand.Rand }

func (r Random) Choose(parked []*Arrival, _ int) int { return r.Rng.Intn(len(parked)) }

// Biased prefers (with probability 3/4) goroutines of a role drawn per run: it produces long runs of one
// process, the schedules uniform choice rarely makes (visitors all held, coordinator starved, ...).
type Biased struct {
	Rng   *rand.Rand
	Order []string // role/point prefixes by decreasing priority
}

func NewBiased(rng *rand.Rand) *Biased {
	o := []string{"main:", "coord:", "w:visit", "w:worker.start", "w:worker.done", "w:worker.send"}
	rng.Shuffle(len(o), func(i, j int) { o[i], o[j] = o[j], o[i] })
	return &Biased{Rng: rng, Order: o}
}

func (b *Biased) Choose(parked []*Arrival, _ int) int {
	if b.Rng.Intn(4) == 0 {
		return b.Rng.Intn(len(parked))
	}
	for _, pre := range b.Order {
		var c []int
		for i, a := range parked {
			if strings.HasPrefix(a.Label(), pre) {
				c = append(c, i)
			}
		}
		if len(c) > 0 {
			return c[b.Rng.Intn(len(c))]
		}
	}
	return 0
}

// Trie is a prefix tree of model behaviours (sequences of visible event labels) produced by TLC.
type Trie struct {
	Next    map[string]*Trie
	Visits  int
	EndHere bool
}

func NewTrie() *Trie { return &Trie{Next: map[string]*Trie{}} }

func (t *Trie) Add(labels []string) {
	cur := t
	for _, l := range labels {
		n, ok := cur.Next[l]
		if !ok {
			n = NewTrie()
			cur.Next[l] = n
		}
		cur = n
	}
	cur.EndHere = true
}

func (t *Trie) Size() (nodes, visited int) {
	for _, c := range t.Next {
		a, b := c.Size()
		nodes += a + 1
		visited += b
		if c.Visits > 0 {
			visited++
		}
	}
	return
}

// Guided walks the trie on the real code: among the parked goroutines it releases one whose label is a child of
// the current trie node (least visited first); when the real execution leaves the trie it continues at random.
type Guided struct {
	Rng  *rand.Rand
	Cur  *Trie
	Lost bool
	Off  int // step at which the trie was left (-1: never)
}

func NewGuided(t *Trie, rng *rand.Rand) *Guided { return &Guided{Rng: rng, Cur: t, Off: -1} }

func (g *Guided) Choose(parked []*Arrival, step int) int {
	if !g.Lost {
		best, bestV := -1, 0
		perm := g.Rng.Perm(len(parked))
		for _, i := range perm {
			if c, ok := g.Cur.Next[parked[i].Label()]; ok {
				if best < 0 || c.Visits < bestV {
					best, bestV = i, c.Visits
				}
			}
		}
		if best >= 0 {
			c := g.Cur.Next[parked[best].Label()]
			c.Visits++
			g.Cur = c
			return best
		}
		g.Lost = true
		g.Off = step
	}
	return g.Rng.Intn(len(parked))
}
