// Package proj holds reflection helpers over the library's model types: populate every field, canonical deep dump,
// reachable heap objects, and one-step mutation of an object. None of it uses the library's own copy or marshal code.
package proj

import (
	"fmt"
	"reflect"
	"sort"
	"strings"
)

// Populate fills every settable field reachable from v (a pointer) with a non-zero value; maps get one entry,
// slices one element, pointers are allocated. ctr makes scalar values distinct.
func Populate(v interface{}) {
	ctr := 0
	populate(reflect.ValueOf(v).Elem(), &ctr, 0, "")
}

func populate(v reflect.Value, ctr *int, depth int, name string) {
	if depth > 12 || !v.CanSet() {
		return
	}
	*ctr++
	switch v.Kind() {
	case reflect.String:
		v.SetString(fmt.Sprintf("v%d", *ctr))
	case reflect.Bool:
		v.SetBool(true)
	case reflect.Int, reflect.Int8, reflect.Int16, reflect.Int32, reflect.Int64:
		v.SetInt(int64(3 + *ctr%50))
	case reflect.Uint, reflect.Uint8, reflect.Uint16, reflect.Uint32, reflect.Uint64:
		v.SetUint(uint64(3 + *ctr%50))
	case reflect.Float32, reflect.Float64:
		v.SetFloat(1.5)
	case reflect.Ptr:
		n := reflect.New(v.Type().Elem())
		populate(n.Elem(), ctr, depth+1, name)
		v.Set(n)
	case reflect.Slice:
		s := reflect.MakeSlice(v.Type(), 2, 2)
		populate(s.Index(0), ctr, depth+1, name)
		populate(s.Index(1), ctr, depth+1, name)
		v.Set(s)
	case reflect.Map:
		m := reflect.MakeMap(v.Type())
		k := reflect.New(v.Type().Key()).Elem()
		populate(k, ctr, depth+1, name)
		e := reflect.New(v.Type().Elem()).Elem()
		populate(e, ctr, depth+1, name)
		m.SetMapIndex(k, e)
		v.Set(m)
	case reflect.Struct:
		for i := 0; i < v.NumField(); i++ {
			f := v.Field(i)
			if !f.CanSet() {
				continue
			}
			populate(f, ctr, depth+1, v.Type().Field(i).Name)
		}
	case reflect.Interface:
		if v.NumMethod() == 0 {
			v.Set(reflect.ValueOf(fmt.Sprintf("any%d", *ctr)))
		}
	}
}

// Dump renders v deeply and canonically (map keys sorted, pointers followed, no addresses).
func Dump(v interface{}) string {
	var sb strings.Builder
	dump(&sb, reflect.ValueOf(v), 0)
	return sb.String()
}

// loose makes an empty map print like a nil map (used where only the meaning of a model matters)
var loose bool

func dump(sb *strings.Builder, v reflect.Value, depth int) {
	if depth > 40 {
		sb.WriteString("<deep>")
		return
	}
	if !v.IsValid() {
		sb.WriteString("<invalid>")
		return
	}
	switch v.Kind() {
	case reflect.Ptr, reflect.Interface:
		if v.IsNil() {
			sb.WriteString("nil")
			return
		}
		sb.WriteString("&")
		dump(sb, v.Elem(), depth+1)
	case reflect.Struct:
		sb.WriteString(v.Type().Name() + "{")
		for i := 0; i < v.NumField(); i++ {
			sb.WriteString(v.Type().Field(i).Name + ":")
			dump(sb, v.Field(i), depth+1)
			sb.WriteString(",")
		}
		sb.WriteString("}")
	case reflect.Map:
		if v.IsNil() || (loose && v.Len() == 0) {
			sb.WriteString("nilmap")
			return
		}
		type kv struct {
			k string
			v reflect.Value
		}
		var es []kv
		it := v.MapRange()
		for it.Next() {
			var kb strings.Builder
			dump(&kb, it.Key(), depth+1)
			es = append(es, kv{kb.String(), it.Value()})
		}
		sort.Slice(es, func(i, j int) bool { return es[i].k < es[j].k })
		sb.WriteString("map[")
		for _, e := range es {
			sb.WriteString(e.k + ":")
			dump(sb, e.v, depth+1)
			sb.WriteString(",")
		}
		sb.WriteString("]")
	case reflect.Slice:
		if v.IsNil() {
			sb.WriteString("nilslice")
			return
		}
		fallthrough
	case reflect.Array:
		sb.WriteString("[")
		for i := 0; i < v.Len(); i++ {
			dump(sb, v.Index(i), depth+1)
			sb.WriteString(",")
		}
		sb.WriteString("]")
	case reflect.String:
		fmt.Fprintf(sb, "%q", v.String())
	case reflect.Bool:
		fmt.Fprintf(sb, "%v", v.Bool())
	case reflect.Int, reflect.Int8, reflect.Int16, reflect.Int32, reflect.Int64:
		fmt.Fprintf(sb, "%d", v.Int())
	case reflect.Uint, reflect.Uint8, reflect.Uint16, reflect.Uint32, reflect.Uint64:
		fmt.Fprintf(sb, "%d", v.Uint())
	case reflect.Float32, reflect.Float64:
		fmt.Fprintf(sb, "%g", v.Float())
	case reflect.Func:
		if v.IsNil() {
			sb.WriteString("nilfunc")
		} else {
			sb.WriteString("func")
		}
	default:
		fmt.Fprintf(sb, "<%s>", v.Kind())
	}
}

// Object is one mutable heap object reachable from a value.
type Object struct {
	Addr  uintptr
	Kind  string // map | slice | ptr
	Path  string
	Value reflect.Value
	InExt bool // inside an Extensions payload (exempt from the no-sharing rule)
}

// Reach lists the maps, slices (with capacity) and pointers reachable from v.
func Reach(v interface{}) []Object {
	var out []Object
	seen := map[string]bool{}
	reach(reflect.ValueOf(v), "", false, &out, seen, 0)
	return out
}

func reach(v reflect.Value, path string, inExt bool, out *[]Object, seen map[string]bool, depth int) {
	if !v.IsValid() || depth > 40 {
		return
	}
	add := func(kind string) bool {
		k := fmt.Sprintf("%s@%x", kind, v.Pointer())
		if seen[k] {
			return false
		}
		seen[k] = true
		*out = append(*out, Object{Addr: v.Pointer(), Kind: kind, Path: path, Value: v, InExt: inExt})
		return true
	}
	switch v.Kind() {
	case reflect.Ptr:
		if v.IsNil() {
			return
		}
		if add("ptr") {
			reach(v.Elem(), path, inExt, out, seen, depth+1)
		}
	case reflect.Interface:
		if !v.IsNil() {
			reach(v.Elem(), path, inExt, out, seen, depth+1)
		}
	case reflect.Struct:
		for i := 0; i < v.NumField(); i++ {
			n := v.Type().Field(i).Name
			reach(v.Field(i), path+"."+n, inExt || n == "Extensions", out, seen, depth+1)
		}
	case reflect.Map:
		if v.IsNil() {
			return
		}
		if add("map") {
			it := v.MapRange()
			for it.Next() {
				reach(it.Value(), fmt.Sprintf("%s[%v]", path, it.Key()), inExt, out, seen, depth+1)
			}
		}
	case reflect.Slice:
		if v.IsNil() || v.Cap() == 0 {
			return
		}
		if add("slice") {
			for i := 0; i < v.Len(); i++ {
				reach(v.Index(i), fmt.Sprintf("%s[%d]", path, i), inExt, out, seen, depth+1)
			}
		}
	}
}

// Mutate changes the object in place (adds/changes a map entry, overwrites the first slice element, changes a
// scalar under a pointer). It reports whether it could change anything.
func Mutate(o Object) bool {
	v := o.Value
	switch o.Kind {
	case "map":
		k := reflect.New(v.Type().Key()).Elem()
		if k.Kind() == reflect.String {
			k.SetString("verif-mutation-key")
		}
		e := reflect.New(v.Type().Elem()).Elem()
		setScalar(e)
		v.SetMapIndex(k, e)
		return true
	case "slice":
		if v.Len() == 0 {
			return false
		}
		return setScalar(v.Index(0))
	case "ptr":
		return setScalar(v.Elem())
	}
	return false
}

func setScalar(v reflect.Value) bool {
	if !v.CanSet() {
		return false
	}
	switch v.Kind() {
	case reflect.String:
		v.SetString(v.String() + "-mutated")
		return true
	case reflect.Bool:
		v.SetBool(!v.Bool())
		return true
	case reflect.Int, reflect.Int8, reflect.Int16, reflect.Int32, reflect.Int64:
		v.SetInt(v.Int() + 1)
		return true
	case reflect.Uint, reflect.Uint8, reflect.Uint16, reflect.Uint32, reflect.Uint64:
		v.SetUint(v.Uint() + 1)
		return true
	case reflect.Float32, reflect.Float64:
		v.SetFloat(v.Float() + 1)
		return true
	case reflect.Struct:
		for i := 0; i < v.NumField(); i++ {
			if setScalar(v.Field(i)) {
				return true
			}
		}
	case reflect.Ptr:
		if !v.IsNil() {
			return setScalar(v.Elem())
		}
		n := reflect.New(v.Type().Elem())
		v.Set(n)
		return true
	case reflect.Slice:
		if v.Len() > 0 {
			return setScalar(v.Index(0))
		}
		v.Set(reflect.MakeSlice(v.Type(), 1, 1))
		return true
	case reflect.Map:
		if v.IsNil() {
			v.Set(reflect.MakeMap(v.Type()))
			return true
		}
		k := reflect.New(v.Type().Key()).Elem()
		if k.Kind() == reflect.String {
			k.SetString("verif-mutation-key")
		}
		v.SetMapIndex(k, reflect.New(v.Type().Elem()).Elem())
		return true
	case reflect.Interface:
		if v.NumMethod() == 0 {
			v.Set(reflect.ValueOf("mutated"))
			return true
		}
	}
	return false
}

// FieldDumps returns the canonical dump of every top-level field of a struct (by name).
func FieldDumps(v interface{}) map[string]string {
	rv := reflect.Indirect(reflect.ValueOf(v))
	out := map[string]string{}
	for i := 0; i < rv.NumField(); i++ {
		var sb strings.Builder
		dump(&sb, rv.Field(i), 0)
		out[rv.Type().Field(i).Name] = sb.String()
	}
	return out
}

// FieldDumpsLoose is FieldDumps with empty maps rendered like nil maps. Not safe for concurrent use.
func FieldDumpsLoose(v interface{}) map[string]string {
	loose = true
	defer func() { loose = false }()
	return FieldDumps(v)
}
