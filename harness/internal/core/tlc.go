package core

import (
	"bufio"
	"bytes"
	"context"
	"crypto/sha256"
	"encoding/hex"
	"encoding/json"
	"fmt"
	"io"
	"os"
	"os/exec"
	"path/filepath"
	"regexp"
	"runtime"
	"sort"
	"strconv"
	"strings"
	"time"
)

func HashStr(s string) string {
	h := sha256.Sum256([]byte(s))
	return hex.EncodeToString(h[:12])
}

type TLCOpts struct {
	Module    string            // root module, e.g. MC_Traversal (file <Module>.tla in the scratch dir)
	Cfg       string            // config file name (default <Module>.cfg)
	CfgText   string            // if set, written to Cfg before the run
	Workers   int               // 0 = all cores
	Simulate  string            // e.g. "num=100" -> -simulate num=100
	Depth     int               // -depth
	Env       map[string]string // extra environment (read by specs through IOEnv)
	Timeout   time.Duration
	Coverage  bool
	DFS       bool // StateDeque queue (trace validation with silent steps)
	Xss       string
	Heap      string
	ExtraArgs []string
	Name      string // label for the run directory
	Dump      string // -dump <file>: every distinct state as text (TLC appends ".dump")
}

type TLCResult struct {
	Generated, Distinct, Queue int64
	Depth                      int
	OK                         bool   // finished without any error
	Violated                   string // name of the violated invariant/property ("" if none)
	ViolationKind              string // invariant | temporal | deadlock | postcondition | assumption | error
	Output                     string
	Dir                        string
	Wall                       time.Duration
	TimedOut                   bool
}

// SpecDir copies every .tla/.cfg under /verif/spec into a fresh scratch directory (flat) and returns it.
func (c *Ctx) SpecDir(name string) (string, error) {
	dir := filepath.Join(c.Work, name)
	if err := os.MkdirAll(dir, 0o755); err != nil {
		return "", err
	}
	root := filepath.Join(VerifRoot, "spec")
	err := filepath.Walk(root, func(p string, info os.FileInfo, err error) error {
		if err != nil || info.IsDir() {
			return err
		}
		if strings.HasSuffix(p, ".tla") || strings.HasSuffix(p, ".cfg") {
			b, err := os.ReadFile(p)
			if err != nil {
				return err
			}
			return os.WriteFile(filepath.Join(dir, filepath.Base(p)), b, 0o644)
		}
		return nil
	})
	return dir, err
}

var reStates = regexp.MustCompile(`(\d+) states generated, (\d+) distinct states found, (\d+) states left on queue`)
var reDepth = regexp.MustCompile(`The depth of the complete state graph search is (\d+)`)
var reInv = regexp.MustCompile(`Error: Invariant (\S+) is violated`)
var reProp = regexp.MustCompile(`Error: Action property (\S+) is violated`)

// RunTLC runs TLC in a scratch copy of the spec tree.
func (c *Ctx) RunTLC(o TLCOpts) (*TLCResult, error) {
	name := o.Name
	if name == "" {
		name = o.Module
	}
	dir, err := c.SpecDir("tlc-" + name + "-" + strconv.FormatInt(time.Now().UnixNano()%1e9, 10))
	if err != nil {
		return nil, err
	}
	cfg := o.Cfg
	if cfg == "" {
		cfg = o.Module + ".cfg"
	}
	if o.CfgText != "" {
		if err := os.WriteFile(filepath.Join(dir, cfg), []byte(o.CfgText), 0o644); err != nil {
			return nil, err
		}
	}
	workers := o.Workers
	if workers == 0 { // TLC's shared queue/fingerprint set contend beyond ~8 workers on this machine (measured)
		workers = runtime.NumCPU() / 2
		if workers < 1 {
			workers = 1
		}
	}
	// a moderate heap and few GC threads: with the JVM defaults (25% of RAM, 16 GC threads) TLC spends most of
	// its wall time in the kernel on this machine (measured: 3m41 vs 23s for the same run)
	args := []string{"-XX:+UseParallelGC", "-XX:ParallelGCThreads=4"}
	if o.Xss != "" {
		args = append(args, "-Xss"+o.Xss)
	}
	heap := o.Heap
	if heap == "" {
		heap = "6g"
	}
	args = append(args, "-Xmx"+heap)
	if o.DFS {
		args = append(args, "-Dtlc2.tool.queue.IStateQueue=StateDeque")
	}
	args = append(args, "-cp", "/opt/veriftools/tla/tla2tools.jar:/opt/veriftools/tla/CommunityModules-deps.jar", "tlc2.TLC",
		"-workers", strconv.Itoa(workers), "-metadir", filepath.Join(dir, "meta"), "-config", cfg, "-noGenerateSpecTE")
	if o.Simulate != "" {
		args = append(args, "-simulate", o.Simulate)
	}
	if o.Depth > 0 {
		args = append(args, "-depth", strconv.Itoa(o.Depth))
	}
	if o.Coverage {
		args = append(args, "-coverage", "1")
	}
	if o.Dump != "" {
		args = append(args, "-dump", o.Dump)
	}
	args = append(args, "-seed", strconv.FormatInt(c.Seed, 10))
	args = append(args, o.ExtraArgs...)
	args = append(args, o.Module+".tla")
	to := o.Timeout
	if to == 0 {
		to = 10 * time.Minute
	}
	cctx, cancel := context.WithTimeout(context.Background(), to)
	defer cancel()
	cmd := exec.CommandContext(cctx, "java", args...)
	cmd.Dir = dir
	cmd.Env = os.Environ()
	for k, v := range o.Env {
		cmd.Env = append(cmd.Env, k+"="+v)
	}
	var out bytes.Buffer
	cmd.Stdout = &out
	cmd.Stderr = &out
	start := time.Now()
	runErr := cmd.Run()
	res := &TLCResult{Output: out.String(), Dir: dir, Wall: time.Since(start)}
	if cctx.Err() == context.DeadlineExceeded {
		res.TimedOut = true
	}
	if m := reStates.FindAllStringSubmatch(res.Output, -1); len(m) > 0 {
		l := m[len(m)-1]
		res.Generated, _ = strconv.ParseInt(l[1], 10, 64)
		res.Distinct, _ = strconv.ParseInt(l[2], 10, 64)
		res.Queue, _ = strconv.ParseInt(l[3], 10, 64)
	}
	if m := reDepth.FindStringSubmatch(res.Output); m != nil {
		res.Depth, _ = strconv.Atoi(m[1])
	}
	switch {
	case reInv.MatchString(res.Output):
		res.Violated = reInv.FindStringSubmatch(res.Output)[1]
		res.ViolationKind = "invariant"
	case reProp.MatchString(res.Output):
		res.Violated = reProp.FindStringSubmatch(res.Output)[1]
		res.ViolationKind = "action-property"
	case strings.Contains(res.Output, "Temporal properties were violated"):
		res.Violated = "temporal"
		res.ViolationKind = "temporal"
	case strings.Contains(res.Output, "Deadlock reached"):
		res.Violated = "deadlock"
		res.ViolationKind = "deadlock"
	case strings.Contains(res.Output, "Postcondition") && (strings.Contains(res.Output, "violated") || strings.Contains(res.Output, "is false")):
		res.Violated = "postcondition"
		res.ViolationKind = "postcondition"
	case strings.Contains(res.Output, "Assumption") && strings.Contains(res.Output, "is false"):
		res.Violated = "assumption"
		res.ViolationKind = "assumption"
	case strings.Contains(res.Output, "Error:") || strings.Contains(res.Output, "Exception"):
		res.ViolationKind = "error"
	}
	finished := strings.Contains(res.Output, "Model checking completed. No error has been found") ||
		(o.Simulate != "" && strings.Contains(res.Output, "Finished in") && res.ViolationKind == "") ||
		(o.Simulate != "" && runErr == nil && res.ViolationKind == "")
	res.OK = finished && res.ViolationKind == "" && !res.TimedOut
	if !res.OK && res.ViolationKind == "" && !res.TimedOut {
		res.ViolationKind = "error"
	}
	if res.ViolationKind == "error" || res.TimedOut {
		return res, fmt.Errorf("TLC %s failed (timeout=%v): %s", o.Module, res.TimedOut, tail(res.Output, 1500))
	}
	return res, nil
}

func tail(s string, n int) string {
	if len(s) > n {
		return s[len(s)-n:]
	}
	return s
}

// ErrorTrace extracts the textual counterexample of a TLC output (States "State N: <...>").
func (r *TLCResult) ErrorTrace() string {
	i := strings.Index(r.Output, "Error:")
	if i < 0 {
		return ""
	}
	return tail(r.Output[i:], 20000)
}

// ReadVectors reads a file produced by CSVWrite("%1$s", <<ToJson(rec)>>, file): one JSON value per line; the
// callback gets each line's raw JSON.
func ReadVectors(path string, fn func(raw json.RawMessage) error) (int, error) {
	f, err := os.Open(path)
	if err != nil {
		return 0, err
	}
	defer f.Close()
	rd := bufio.NewReaderSize(f, 1<<20)
	n := 0
	for {
		line, err := rd.ReadBytes('\n')
		line = bytes.TrimSpace(line)
		if len(line) > 0 {
			raw := json.RawMessage(line)
			if line[0] == '"' { // TLA-quoted string containing JSON
				var s string
				if e := json.Unmarshal(line, &s); e != nil {
					// TLC does not escape like JSON does in every case: strip the outer quotes and unescape \" and \\
					s = string(line[1 : len(line)-1])
					s = strings.ReplaceAll(s, `\"`, `"`)
					s = strings.ReplaceAll(s, `\\`, `\`)
				}
				raw = json.RawMessage(s)
			}
			n++
			if e := fn(raw); e != nil {
				return n, e
			}
		}
		if err == io.EOF {
			return n, nil
		}
		if err != nil {
			return n, err
		}
	}
}

// WriteNDJSON writes one JSON value per line.
func WriteNDJSON(path string, recs []interface{}) error {
	f, err := os.Create(path)
	if err != nil {
		return err
	}
	w := bufio.NewWriter(f)
	enc := json.NewEncoder(w)
	enc.SetEscapeHTML(false)
	for _, r := range recs {
		if err := enc.Encode(r); err != nil {
			return err
		}
	}
	if err := w.Flush(); err != nil {
		return err
	}
	return f.Close()
}

var reCovAction = regexp.MustCompile(`(?m)^<([A-Za-z_0-9]+) line \d+, col \d+ to line \d+, col \d+ of module ([A-Za-z_0-9]+)>: (\d+):(\d+)`)

// ActionCoverage parses the per-action counts of a `-coverage` run: action -> distinct states it produced.
func ActionCoverage(output string) map[string]int64 {
	res := map[string]int64{}
	for _, m := range reCovAction.FindAllStringSubmatch(output, -1) {
		n, _ := strconv.ParseInt(m[3], 10, 64)
		if old, ok := res[m[2]+"."+m[1]]; !ok || n > old { // the statistics are printed more than once: keep the last (largest)
			res[m[2]+"."+m[1]] = n
		}
	}
	return res
}

// CoverageGuard model-checks with -coverage and reports the actions that never produced a state (vacuity: a property
// was not exercised on that action). It records the counts in the evidence under key.
func (c *Ctx) CoverageGuard(key string, o TLCOpts, ignore ...string) bool {
	o.Coverage = true
	r, err := c.RunTLC(o)
	if err != nil {
		c.Inconclusive("coverage run of " + o.Module + " failed: " + err.Error())
		return false
	}
	cov := ActionCoverage(r.Output)
	if len(cov) == 0 {
		c.Inconclusive("coverage run of " + o.Module + " printed no per-action statistics")
		return false
	}
	skip := map[string]bool{}
	for _, s := range ignore {
		skip[s] = true
	}
	var zero []string
	for a, n := range cov {
		if n == 0 && !skip[a] && !strings.HasSuffix(a, ".Init") {
			zero = append(zero, a)
		}
	}
	sort.Strings(zero)
	c.Set(key, map[string]interface{}{"actions": cov, "never_taken": zero})
	if len(zero) > 0 {
		c.Inconclusive(fmt.Sprintf("vacuity: actions of %s never taken in the bounded model: %v", o.Module, zero))
		return false
	}
	return true
}
