package core

import (
	"bufio"
	"fmt"
	"os"
	"strconv"
	"strings"
	"sync"
)

// ParseTLA parses a TLA+ value as printed by TLC (state dumps, error traces) into Go values:
// records and functions -> map[string]interface{} (function keys are rendered as text), sequences and sets ->
// []interface{}, strings -> string, TRUE/FALSE -> bool, integers -> int64, anything else (model values) -> string.
func ParseTLA(s string) (interface{}, error) {
	p := &tlaParser{s: s}
	v, err := p.value()
	if err != nil {
		return nil, err
	}
	p.ws()
	if p.i != len(p.s) {
		return nil, fmt.Errorf("trailing text at %d: %q", p.i, tailN(p.s[p.i:], 40))
	}
	return v, nil
}

// ParseTLAPrefix parses the TLA+ value at the start of s and ignores what follows it.
func ParseTLAPrefix(s string) (interface{}, error) {
	p := &tlaParser{s: s}
	return p.value()
}

// FindPrinted returns the value of a tuple TLC printed with PrintT(<<tag, ...>>), searched by its string tag.
func FindPrinted(output, tag string) (interface{}, bool) {
	i := strings.LastIndex(output, "\""+tag+"\"")
	if i < 0 {
		return nil, false
	}
	j := strings.LastIndex(output[:i], "<<")
	if j < 0 {
		return nil, false
	}
	v, err := ParseTLAPrefix(output[j:])
	return v, err == nil
}

func tailN(s string, n int) string {
	if len(s) > n {
		return s[:n]
	}
	return s
}

type tlaParser struct {
	s string
	i int
}

func (p *tlaParser) ws() {
	for p.i < len(p.s) && (p.s[p.i] == ' ' || p.s[p.i] == '\n' || p.s[p.i] == '\t' || p.s[p.i] == '\r') {
		p.i++
	}
}

func (p *tlaParser) has(t string) bool { return strings.HasPrefix(p.s[p.i:], t) }

func (p *tlaParser) value() (interface{}, error) {
	p.ws()
	if p.i >= len(p.s) {
		return nil, fmt.Errorf("unexpected end")
	}
	switch {
	case p.has("<<"):
		p.i += 2
		return p.list(">>")
	case p.has("{"):
		p.i++
		return p.list("}")
	case p.has("["):
		p.i++
		m := map[string]interface{}{}
		p.ws()
		if p.has("]") {
			p.i++
			return m, nil
		}
		for {
			p.ws()
			var k string
			if p.has("\"") {
				kv, err := p.value()
				if err != nil {
					return nil, err
				}
				k = kv.(string)
			} else {
				j := p.i
				for j < len(p.s) && p.s[j] != ' ' && p.s[j] != '|' {
					j++
				}
				k = p.s[p.i:j]
				p.i = j
			}
			p.ws()
			if !p.has("|->") {
				return nil, fmt.Errorf("expected |-> at %d", p.i)
			}
			p.i += 3
			v, err := p.value()
			if err != nil {
				return nil, err
			}
			m[k] = v
			p.ws()
			if p.has(",") {
				p.i++
				continue
			}
			if p.has("]") {
				p.i++
				return m, nil
			}
			return nil, fmt.Errorf("expected , or ] at %d", p.i)
		}
	case p.has("("):
		// function: (k :> v @@ k :> v)
		p.i++
		m := map[string]interface{}{}
		for {
			k, err := p.value()
			if err != nil {
				return nil, err
			}
			p.ws()
			if !p.has(":>") {
				return nil, fmt.Errorf("expected :> at %d", p.i)
			}
			p.i += 2
			v, err := p.value()
			if err != nil {
				return nil, err
			}
			m[fmt.Sprint(k)] = v
			p.ws()
			if p.has("@@") {
				p.i += 2
				continue
			}
			if p.has(")") {
				p.i++
				return m, nil
			}
			return nil, fmt.Errorf("expected @@ or ) at %d", p.i)
		}
	case p.s[p.i] == '"':
		p.i++
		var sb strings.Builder
		for p.i < len(p.s) {
			c := p.s[p.i]
			if c == '\\' && p.i+1 < len(p.s) {
				n := p.s[p.i+1]
				switch n {
				case 'n':
					sb.WriteByte('\n')
				case 't':
					sb.WriteByte('\t')
				case 'r':
					sb.WriteByte('\r')
				case 'f':
					sb.WriteByte('\f')
				default:
					sb.WriteByte(n)
				}
				p.i += 2
				continue
			}
			if c == '"' {
				p.i++
				return sb.String(), nil
			}
			sb.WriteByte(c)
			p.i++
		}
		return nil, fmt.Errorf("unterminated string")
	default:
		j := p.i
		for j < len(p.s) && !strings.ContainsRune(" ,]}>)\n", rune(p.s[j])) {
			j++
		}
		tok := p.s[p.i:j]
		if tok == "" {
			return nil, fmt.Errorf("unexpected %q at %d", p.s[p.i], p.i)
		}
		p.i = j
		switch tok {
		case "TRUE":
			return true, nil
		case "FALSE":
			return false, nil
		}
		if n, err := strconv.ParseInt(tok, 10, 64); err == nil {
			return n, nil
		}
		return tok, nil
	}
}

func (p *tlaParser) list(end string) (interface{}, error) {
	l := []interface{}{}
	p.ws()
	if p.has(end) {
		p.i += len(end)
		return l, nil
	}
	for {
		v, err := p.value()
		if err != nil {
			return nil, err
		}
		l = append(l, v)
		p.ws()
		if p.has(",") {
			p.i++
			continue
		}
		if p.has(end) {
			p.i += len(end)
			return l, nil
		}
		return nil, fmt.Errorf("expected , or %s at %d", end, p.i)
	}
}

// ReadDump streams a TLC state dump (-dump file): fn is called with the variables of each state.
func ReadDump(path string, fn func(vars map[string]interface{}) error) (int, error) {
	f, err := os.Open(path)
	if err != nil {
		return 0, err
	}
	defer f.Close()
	rd := bufio.NewReaderSize(f, 1<<20)
	n := 0
	var cur strings.Builder
	flush := func() error {
		txt := strings.TrimSpace(cur.String())
		cur.Reset()
		if txt == "" {
			return nil
		}
		vars := map[string]interface{}{}
		// split on lines starting with "/\ " (or a single "x = v" when there is one variable)
		var parts []string
		if strings.HasPrefix(txt, "/\\ ") {
			for _, ln := range strings.Split(txt, "\n/\\ ") {
				parts = append(parts, strings.TrimPrefix(ln, "/\\ "))
			}
		} else {
			parts = []string{txt}
		}
		for _, pt := range parts {
			eq := strings.Index(pt, " = ")
			if eq < 0 {
				return fmt.Errorf("bad state line %q", tailN(pt, 60))
			}
			v, err := ParseTLA(pt[eq+3:])
			if err != nil {
				return fmt.Errorf("%v in %q", err, tailN(pt, 200))
			}
			vars[strings.TrimSpace(pt[:eq])] = v
		}
		n++
		return fn(vars)
	}
	for {
		line, err := rd.ReadString('\n')
		if strings.HasPrefix(line, "State ") && strings.HasSuffix(strings.TrimSpace(line), ":") {
			if e := flush(); e != nil {
				return n, e
			}
		} else {
			cur.WriteString(line)
		}
		if err != nil {
			break
		}
	}
	if e := flush(); e != nil {
		return n, e
	}
	return n, nil
}

// ReadDumpParallel reads the states of a TLC dump in order and hands each to fn on one of `workers` goroutines
// (i is the 1-based position of the state in the dump). fn must be safe for concurrent use.
func ReadDumpParallel(path string, workers int, fn func(i int, vars map[string]interface{}) error) (int, error) {
	if workers < 1 {
		workers = 1
	}
	type item struct {
		i    int
		vars map[string]interface{}
	}
	ch := make(chan item, 4*workers)
	errs := make(chan error, workers)
	var wg sync.WaitGroup
	for w := 0; w < workers; w++ {
		wg.Add(1)
		go func() {
			defer wg.Done()
			var first error
			for it := range ch {
				if first != nil {
					continue
				}
				if err := fn(it.i, it.vars); err != nil {
					first = err
				}
			}
			errs <- first
		}()
	}
	i := 0
	n, err := ReadDump(path, func(vars map[string]interface{}) error {
		i++
		ch <- item{i, vars}
		return nil
	})
	close(ch)
	wg.Wait()
	close(errs)
	for e := range errs {
		if e != nil && err == nil {
			err = e
		}
	}
	return n, err
}
