// Package core holds what every check shares: run context, evidence writer, known findings, verdicts.
package core

import (
	"encoding/json"
	"fmt"
	"os"
	"path/filepath"
	"regexp"
	"sort"
	"strconv"
	"strings"
	"sync"
	"time"
)

// VerifRoot is the framework directory (bin/check exports VERIF_ROOT: the directory it lives in).
var VerifRoot = func() string {
	if v := os.Getenv("VERIF_ROOT"); v != "" {
		return v
	}
	return "/verif"
}()

// RepoRoot is the compose-go tree under test (/repo; bin/check exports VERIF_REPO when a background run uses a snapshot).
var RepoRoot = func() string {
	if v := os.Getenv("VERIF_REPO"); v != "" {
		return v
	}
	return "/repo"
}()

// Exit codes of a check.
const (
	ExitOK           = 0
	ExitViolation    = 1
	ExitInconclusive = 2
)

type KnownFinding struct {
	Property string `json:"property"`
	ID       string `json:"id"`
	Status   string `json:"status"` // known | fixed
	Match    string `json:"match"`  // regular expression over a finding signature
	Commit   string `json:"commit,omitempty"`
	What     string `json:"what"`
}

// Finding is one real-code witness that the property is broken.
type Finding struct {
	Sig    string      // stable signature of the failing class (matched against known-findings.json)
	Detail string      // human readable
	Replay interface{} // whatever reproduces it (written as JSON)
}

type Ctx struct {
	ID     string
	Tier   string
	Seed   int64
	Work   string // scratch directory of this run (removed at the end)
	Start  time.Time
	Level  string
	Replay string // --replay path, if any

	mu        sync.Mutex
	Cov       map[string]interface{}
	Assume    []string
	findings  []Finding
	known     []KnownFinding
	samples   []interface{}
	drift     []string
	ndrift    int
	inconcl   []string
	distinct  map[string]struct{}
	evals     int64
	tlcStates int64
	tlcTrans  int64
	traces    int64
}

func NewCtx(id, tier string, level string) *Ctx {
	seed := int64(1)
	if s := os.Getenv("VERIF_SEED"); s != "" {
		if v, err := strconv.ParseInt(s, 10, 64); err == nil {
			seed = v
		}
	}
	work := filepath.Join(VerifRoot, ".work", fmt.Sprintf("%s-%s-%d-%d", id, tier, seed, os.Getpid()))
	_ = os.RemoveAll(work)
	if err := os.MkdirAll(work, 0o755); err != nil {
		panic(err)
	}
	c := &Ctx{ID: id, Tier: tier, Seed: seed, Work: work, Start: time.Now(), Level: level,
		Cov: map[string]interface{}{}, distinct: map[string]struct{}{}}
	c.loadKnown()
	return c
}

func (c *Ctx) Quick() bool { return c.Tier != "thorough" }

func (c *Ctx) loadKnown() {
	b, err := os.ReadFile(filepath.Join(VerifRoot, "known-findings.json"))
	if err != nil {
		return
	}
	var all []KnownFinding
	if err := json.Unmarshal(b, &all); err != nil {
		c.Inconclusive("known-findings.json unreadable: " + err.Error())
		return
	}
	for _, k := range all {
		if k.Property == c.ID {
			c.known = append(c.known, k)
		}
	}
}

func (c *Ctx) Logf(format string, a ...interface{}) {
	fmt.Fprintf(os.Stderr, "[%s %6.1fs] %s\n", c.ID, time.Since(c.Start).Seconds(), fmt.Sprintf(format, a...))
}

// Eval counts one evaluated case; key identifies it for the distinct count; nontrivial says whether it counts as non-trivial.
func (c *Ctx) Eval(key string, nontrivial bool) {
	c.mu.Lock()
	c.evals++
	if nontrivial {
		if len(key) > 96 {
			key = HashStr(key)
		}
		c.distinct[key] = struct{}{}
	}
	c.mu.Unlock()
}

func (c *Ctx) Sample(s interface{}) {
	c.mu.Lock()
	if len(c.samples) < 6 {
		c.samples = append(c.samples, s)
	}
	c.mu.Unlock()
}

func (c *Ctx) AddTLC(r *TLCResult) {
	c.mu.Lock()
	c.tlcStates += r.Distinct
	c.tlcTrans += r.Generated
	c.mu.Unlock()
}

func (c *Ctx) AddTraces(n int64) { c.mu.Lock(); c.traces += n; c.mu.Unlock() }

func (c *Ctx) Set(k string, v interface{}) { c.mu.Lock(); c.Cov[k] = v; c.mu.Unlock() }

func (c *Ctx) Inc(k string, d int64) {
	c.mu.Lock()
	if v, ok := c.Cov[k].(int64); ok {
		c.Cov[k] = v + d
	} else {
		c.Cov[k] = d
	}
	c.mu.Unlock()
}

func (c *Ctx) Assumption(s string) { c.Assume = append(c.Assume, s) }

func (c *Ctx) Drift(s string) {
	c.mu.Lock()
	c.ndrift++
	show := c.ndrift <= 20
	if len(c.drift) < 50 {
		c.drift = append(c.drift, s)
	}
	c.mu.Unlock()
	if show {
		fmt.Printf("DRIFT property=%s %s\n", c.ID, s)
	}
}

func (c *Ctx) Inconclusive(s string) {
	c.mu.Lock()
	c.inconcl = append(c.inconcl, s)
	c.mu.Unlock()
	fmt.Printf("INCONCLUSIVE property=%s %s\n", c.ID, s)
}

func (c *Ctx) Report(f Finding) {
	c.mu.Lock()
	defer c.mu.Unlock()
	for _, g := range c.findings {
		if g.Sig == f.Sig {
			return // one witness per signature is enough
		}
	}
	c.findings = append(c.findings, f)
}

func (c *Ctx) NumFindings() int { c.mu.Lock(); defer c.mu.Unlock(); return len(c.findings) }

func (c *Ctx) matchKnown(sig string) *KnownFinding {
	for i := range c.known {
		k := &c.known[i]
		if k.Status != "known" {
			continue
		}
		if re, err := regexp.Compile(k.Match); err == nil && re.MatchString(sig) {
			return k
		}
	}
	return nil
}

// Finish writes the evidence file, prints verdict lines and returns the exit code.
func (c *Ctx) Finish() int {
	c.mu.Lock()
	defer c.mu.Unlock()
	violations := 0
	var knownHit []string
	sort.Slice(c.findings, func(i, j int) bool { return c.findings[i].Sig < c.findings[j].Sig })
	replayDir := filepath.Join(VerifRoot, ".work", "replay")
	_ = os.MkdirAll(replayDir, 0o755)
	seenKnown := map[string]bool{}
	for i, f := range c.findings {
		if k := c.matchKnown(f.Sig); k != nil {
			if !seenKnown[k.ID] {
				fmt.Printf("KNOWN-FINDING: property=%s %s [%s] witness: %s\n", c.ID, k.What, k.ID, oneLine(f.Detail))
				seenKnown[k.ID] = true
				knownHit = append(knownHit, k.ID)
			}
			continue
		}
		violations++
		p := filepath.Join(replayDir, fmt.Sprintf("%s-%s-%d-%d.json", c.ID, c.Tier, c.Seed, i))
		b, _ := json.MarshalIndent(map[string]interface{}{"property": c.ID, "sig": f.Sig, "detail": f.Detail, "replay": f.Replay}, "", " ")
		_ = os.WriteFile(p, b, 0o644)
		fmt.Printf("VIOLATION property=%s replay=%s\n", c.ID, p)
		fmt.Printf("  sig=%s\n  %s\n", f.Sig, oneLine(f.Detail))
	}
	cov := c.Cov
	cov["evaluations"] = c.evals
	cov["distinct_nontrivial"] = int64(len(c.distinct))
	if c.tlcStates > 0 {
		cov["states"] = c.tlcStates
		cov["transitions"] = c.tlcTrans
	}
	cov["traces_validated_against_impl"] = c.traces
	if len(c.samples) == 0 {
		c.samples = append(c.samples, "no sample recorded")
	}
	cov["samples"] = c.samples
	if len(c.drift) > 0 {
		cov["drift"] = c.drift
	}
	if len(knownHit) > 0 {
		cov["known_findings_hit"] = knownHit
	}
	if len(c.inconcl) > 0 {
		cov["inconclusive"] = c.inconcl
	}
	ev := map[string]interface{}{
		"property_id": c.ID, "tier": c.Tier, "seed": c.Seed, "level": c.Level, "coverage": cov,
		"assumptions": c.Assume, "wall_s": float64(int(time.Since(c.Start).Seconds()*10)) / 10, "violations": violations,
	}
	if c.Assume == nil {
		ev["assumptions"] = []string{}
	}
	if c.Replay == "" {
		b, _ := json.MarshalIndent(ev, "", " ")
		// evidence/ describes runs against /repo itself; a run against a scratch copy of the tree (VERIF_REPO, development and
		// regression runs) leaves it alone and writes under .work/
		evDir := filepath.Join(VerifRoot, "evidence")
		if RepoRoot != "/repo" && VerifRoot == "/verif" {
			evDir = filepath.Join(VerifRoot, ".work", "evidence-scratch")
		}
		_ = os.MkdirAll(evDir, 0o755)
		if err := os.WriteFile(filepath.Join(evDir, c.ID+".json"), append(b, '\n'), 0o644); err != nil {
			fmt.Printf("INCONCLUSIVE property=%s cannot write evidence: %v\n", c.ID, err)
			return ExitInconclusive
		}
	}
	if os.Getenv("VERIF_KEEP") == "" {
		_ = os.RemoveAll(c.Work)
	}
	switch {
	case violations > 0:
		return ExitViolation
	case len(c.inconcl) > 0:
		return ExitInconclusive
	}
	fmt.Printf("OK property=%s tier=%s seed=%d evaluations=%d distinct=%d states=%d traces=%d wall=%.1fs\n",
		c.ID, c.Tier, c.Seed, c.evals, len(c.distinct), c.tlcStates, c.traces, time.Since(c.Start).Seconds())
	return ExitOK
}

func oneLine(s string) string {
	s = strings.ReplaceAll(s, "\n", " | ")
	if len(s) > 600 {
		s = s[:600] + "…"
	}
	return s
}
