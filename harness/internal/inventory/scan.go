// Package inventory scans /repo's source (go/parser) for package-level variables that are written after package
// initialisation, and whether every function touching them takes a lock. It binds SharedState.tla's inventory to the code.
package inventory

import (
	"go/ast"
	"go/parser"
	"go/token"
	"os"
	"path/filepath"
	"sort"
	"strings"
)

type Var struct {
	Name    string   `json:"name"` // pkgdir.var
	Feature string   `json:"feature"`
	Guarded bool     `json:"guarded"`
	Writers []string `json:"writers"`
}

// features maps a run-time written variable to the input feature that makes a load reach it.
var features = map[string]string{
	"loader.versionWarning":   "version",
	"dotenv.formats":          "api",    // written only by dotenv.RegisterFormat, a registration API, never by a load
	"graph.VerifYield":        "api",    // verification hook (guard verif)
	"paths.verifResolverKeys": "always", // verification hook (guard verif), written under verifMu by every load
	"loader.verifPhaseHook":   "api",    // verification hook (guard verif), atomic pointer set by the harness
}

func rootIdent(e ast.Expr) *ast.Ident {
	for {
		switch x := e.(type) {
		case *ast.Ident:
			return x
		case *ast.IndexExpr:
			e = x.X
		case *ast.SelectorExpr:
			e = x.X
		case *ast.StarExpr:
			e = x.X
		case *ast.ParenExpr:
			e = x.X
		default:
			return nil
		}
	}
}

// Scan returns the variables written at run time (outside init and package-level initialisers) and the list of
// written variables the feature table does not know (to be reported as drift).
func Scan(root string) (vars []Var, unknown []string, err error) {
	fset := token.NewFileSet()
	byPkg := map[string][]*ast.File{}
	err = filepath.Walk(root, func(p string, info os.FileInfo, err error) error {
		if err != nil {
			return err
		}
		if info.IsDir() {
			if n := info.Name(); n == ".git" || n == "cmd" || n == "testdata" || n == "ci" || n == "scripts" {
				return filepath.SkipDir
			}
			return nil
		}
		if !strings.HasSuffix(p, ".go") || strings.HasSuffix(p, "_test.go") {
			return nil
		}
		f, perr := parser.ParseFile(fset, p, nil, 0)
		if perr != nil {
			return nil
		}
		rel, _ := filepath.Rel(root, filepath.Dir(p))
		byPkg[rel] = append(byPkg[rel], f)
		return nil
	})
	if err != nil {
		return nil, nil, err
	}
	for pkg, files := range byPkg {
		globals := map[string]bool{}
		for _, f := range files {
			for _, d := range f.Decls {
				if g, ok := d.(*ast.GenDecl); ok && g.Tok == token.VAR {
					for _, s := range g.Specs {
						for _, n := range s.(*ast.ValueSpec).Names {
							globals[n.Name] = true
						}
					}
				}
			}
		}
		written := map[string]map[string]bool{} // var -> writer funcs
		touch := map[string]map[string]bool{}   // var -> funcs that mention it
		locks := map[string]bool{}              // funcs that call .Lock()
		for _, f := range files {
			for _, d := range f.Decls {
				fd, ok := d.(*ast.FuncDecl)
				if !ok || fd.Body == nil {
					continue
				}
				fn := fd.Name.Name
				if fn == "init" {
					continue
				}
				locals := map[string]bool{}
				if fd.Recv != nil {
					for _, r := range fd.Recv.List {
						for _, n := range r.Names {
							locals[n.Name] = true
						}
					}
				}
				for _, p := range fd.Type.Params.List {
					for _, n := range p.Names {
						locals[n.Name] = true
					}
				}
				mark := func(e ast.Expr) {
					if id := rootIdent(e); id != nil && globals[id.Name] && !locals[id.Name] {
						if written[id.Name] == nil {
							written[id.Name] = map[string]bool{}
						}
						written[id.Name][fn] = true
					}
				}
				ast.Inspect(fd.Body, func(n ast.Node) bool {
					switch x := n.(type) {
					case *ast.AssignStmt:
						if x.Tok == token.DEFINE {
							for _, l := range x.Lhs {
								if id, ok := l.(*ast.Ident); ok {
									locals[id.Name] = true
								}
							}
						} else {
							for _, l := range x.Lhs {
								mark(l)
							}
						}
					case *ast.IncDecStmt:
						mark(x.X)
					case *ast.CallExpr:
						if id, ok := x.Fun.(*ast.Ident); ok && id.Name == "delete" && len(x.Args) > 0 {
							mark(x.Args[0])
						}
						if id, ok := x.Fun.(*ast.Ident); ok && id.Name == "copy" && len(x.Args) > 0 {
							mark(x.Args[0])
						}
						if se, ok := x.Fun.(*ast.SelectorExpr); ok && (se.Sel.Name == "Lock" || se.Sel.Name == "RLock") {
							locks[fn] = true
						}
						// in-place library mutators: sort.Slice(v, ..), sort.Strings(v), slices.Sort(v), slices.Reverse(v), ...
						if se, ok := x.Fun.(*ast.SelectorExpr); ok && len(x.Args) > 0 {
							if pk, ok := se.X.(*ast.Ident); ok && (pk.Name == "sort" || pk.Name == "slices") &&
								(strings.HasPrefix(se.Sel.Name, "Sort") || strings.HasPrefix(se.Sel.Name, "Slice") || strings.HasPrefix(se.Sel.Name, "Stable") ||
									se.Sel.Name == "Strings" || se.Sel.Name == "Ints" || se.Sel.Name == "Reverse") {
								mark(x.Args[0])
							}
						}
						// the address of a package-level variable handed to a callee
						for _, a := range x.Args {
							if u, ok := a.(*ast.UnaryExpr); ok && u.Op == token.AND {
								mark(u.X)
							}
						}
					case *ast.Ident:
						if globals[x.Name] && !locals[x.Name] {
							if touch[x.Name] == nil {
								touch[x.Name] = map[string]bool{}
							}
							touch[x.Name][fn] = true
						}
					}
					return true
				})
			}
		}
		for v, ws := range written {
			name := filepath.Base(pkg) + "." + v
			guarded := true
			for fn := range touch[v] {
				if !locks[fn] {
					guarded = false
				}
			}
			var wl []string
			for w := range ws {
				wl = append(wl, w)
			}
			sort.Strings(wl)
			feat, ok := features[name]
			if !ok {
				feat = "always"
				unknown = append(unknown, name)
			}
			vars = append(vars, Var{Name: name, Feature: feat, Guarded: guarded, Writers: wl})
		}
	}
	sort.Slice(vars, func(i, j int) bool { return vars[i].Name < vars[j].Name })
	sort.Strings(unknown)
	return vars, unknown, nil
}
