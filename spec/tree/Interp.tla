------------------------------- MODULE Interp -------------------------------
(***************************************************************************)
(* Interpolation of a document (interpolation/interpolation.go,            *)
(* loader/interpolate.go): only string scalar values change - each is      *)
(* evaluated with the Compose interpolation grammar (Template.tla);        *)
(* mapping keys, non-string scalars and the shape are preserved.           *)
(* String leaves of generated documents are template ASTs:                 *)
(*   [t |-> "tpl", ast |-> T]                                              *)
(* RenderDoc writes them as text, EvalDoc gives the interpolated document, *)
(* EscapeDoc writes every `$` of the rendered text as `$$`.                *)
(* Typed positions: Cast(kind, text) says whether a text is a valid value  *)
(* of the kind (boolean incl. YAML-1.1 spellings, integer, number).        *)
(***************************************************************************)
EXTENDS Template, Val

RECURSIVE RenderDoc(_), EvalDoc(_, _), EscapeText(_, _)
IsTpl(x) == x.t = "tpl"
RenderDoc(x) ==
  IF IsTpl(x) THEN S(Render(x.ast))
  ELSE IF IsM(x) THEN M([k \in Keys(x) |-> RenderDoc(Get(x, k))])
  ELSE IF IsL(x) THEN L([i \in 1..Len(x.v) |-> RenderDoc(x.v[i])])
  ELSE x
\* [ok, doc] - the first failing leaf makes the whole interpolation fail
RECURSIVE LeavesR(_)
LeavesR(x) == IF IsTpl(x) THEN {x} ELSE IF IsM(x) THEN UNION {LeavesR(Get(x, k)) : k \in Keys(x)} ELSE IF IsL(x) THEN UNION {LeavesR(x.v[i]) : i \in 1..Len(x.v)} ELSE {}
EvalOK(x, env) == \A lf \in LeavesR(x) : Eval(lf.ast, env).ok
EvalDoc(x, env) ==
  IF IsTpl(x) THEN S(Eval(x.ast, env).v)
  ELSE IF IsM(x) THEN M([k \in Keys(x) |-> EvalDoc(Get(x, k), env)])
  ELSE IF IsL(x) THEN L([i \in 1..Len(x.v) |-> EvalDoc(x.v[i], env)])
  ELSE x
EscapeText(s, i) == IF i > Len(s) THEN "" ELSE (IF Char(s, i) = "$" THEN "$$" ELSE Char(s, i)) \o EscapeText(s, i + 1)
RECURSIVE EscapeDoc(_)
EscapeDoc(x) ==
  IF x.t = "s" THEN S(EscapeText(x.v, 1))
  ELSE IF IsM(x) THEN M([k \in Keys(x) |-> EscapeDoc(Get(x, k))])      \* keys are not interpolated: left as they are
  ELSE IF IsL(x) THEN L([i \in 1..Len(x.v) |-> EscapeDoc(x.v[i])])
  ELSE x
\* shape and keys are preserved by interpolation
RECURSIVE SameShape(_, _)
SameShape(a, b) ==
  IF IsM(a) THEN IsM(b) /\ Keys(a) = Keys(b) /\ \A k \in Keys(a) : SameShape(Get(a, k), Get(b, k))
  ELSE IF IsL(a) THEN IsL(b) /\ Len(a.v) = Len(b.v) /\ \A i \in 1..Len(a.v) : SameShape(a.v[i], b.v[i])
  ELSE IF IsTpl(a) THEN b.t = "s"
  ELSE a = b

\* ---- typed positions
BoolTexts == {"true", "false", "True", "FALSE", "yes", "no", "on", "off", "y", "n", "Yes", "OFF"}
BoolValue(s) == s \in {"true", "True", "yes", "on", "y", "Yes"}
Cast(kind, text) ==
  CASE kind = "boolean" -> text \in BoolTexts
    [] kind = "integer" -> text \in {"0", "3", "42", "7"}
    [] kind = "number"  -> text \in {"0", "3", "42", "7", "0.5", "1.5", "0.3"}
\* texts that are no value of the kind under any reading (cross-type texts such as "0.5" in an integer position that is a
\* byte size are neither valid nor clearly invalid: not enforced)
ClearlyInvalid(kind, text) ==
  CASE kind = "boolean" -> text \in {"maybe", "3x", "x.y", "1", "0", "t", "f", "T", "F", "2"}     \* Go's ParseBool spellings are no Compose booleans
    [] OTHER -> text \in {"maybe", "3x", "x.y"}
=============================================================================
