----------------------------- MODULE MC_Defaults -----------------------------
(* Documents in which each default-able attribute is left implicit, written with its default, or written with a      *)
(* different value; the explicit document is computed by MakeExplicit.  The harness loads both: equal projects.       *)
EXTENDS Defaults
Sq1(a) == L(<<a>>)
Sq2(a, b) == L(<<a, b>>)
Absent == [t |-> "absent"]
\* per dimension: key (of service a, or of the document when top) and alternatives
Dims == <<
  [n |-> "networks", top |-> FALSE, k |-> "networks", alts |-> {Absent, Sq1(S("n1")), Sq1(S("default")), M1("default", M1("aliases", Sq1(S("al")))), EmptyM}],
  [n |-> "network_mode", top |-> FALSE, k |-> "network_mode", alts |-> {Absent, S("host"), S("service:db"), S("none")}],
  [n |-> "links", top |-> FALSE, k |-> "links", alts |-> {Absent, Sq1(S("db")), Sq2(S("db:database"), S("cache"))}],
  [n |-> "volumes_from", top |-> FALSE, k |-> "volumes_from", alts |-> {Absent, Sq1(S("db")), Sq2(S("cache:ro"), S("container:ext"))}],
  [n |-> "ipc", top |-> FALSE, k |-> "ipc", alts |-> {Absent, S("service:cache"), S("host")}],
  [n |-> "pid", top |-> FALSE, k |-> "pid", alts |-> {Absent, S("service:db")}],
  [n |-> "depends_on", top |-> FALSE, k |-> "depends_on", alts |-> {Absent, Sq1(S("db")), Sq2(S("db"), S("cache")), M1("db", M1("condition", S("service_healthy"))), M1("db", M3("condition", S("service_started"), "restart", B(FALSE), "required", B(FALSE)))}],
  [n |-> "build", top |-> FALSE, k |-> "build", alts |-> {Absent, S("./ctx"), M1("target", S("prod")), M2("context", S("./c"), "dockerfile", S("Other.df")), M1("dockerfile_inline", S("FROM scratch"))}],
  [n |-> "ports", top |-> FALSE, k |-> "ports", alts |-> {Absent, Sq1(M1("target", I(80))), Sq1(M3("target", I(80), "protocol", S("udp"), "mode", S("host"))), Sq1(M2("target", I(80), "protocol", S("tcp")))}],
  [n |-> "secrets", top |-> FALSE, k |-> "secrets", alts |-> {Absent, Sq1(S("s1")), Sq1(M1("source", S("s1"))), Sq1(M2("source", S("s1"), "target", S("/custom/t")))}],
  [n |-> "env_file", top |-> FALSE, k |-> "env_file", alts |-> {Absent, S("./a.env"), Sq1(M1("path", S("./a.env"))), Sq1(M2("path", S("./a.env"), "required", B(FALSE)))}],
  [n |-> "gpus", top |-> FALSE, k |-> "gpus", alts |-> {Absent, Sq1(M1("driver", S("nvidia"))), Sq1(M2("driver", S("nvidia"), "count", I(0))), Sq1(M2("driver", S("nvidia"), "count", I(2))), Sq1(M2("driver", S("nvidia"), "count", S("all"))), Sq1(M2("driver", S("nvidia"), "device_ids", Sq1(S("0"))))}],
  [n |-> "pull_policy", top |-> FALSE, k |-> "pull_policy", alts |-> {Absent, S("if_not_present"), S("missing"), S("always")}],
  [n |-> "top networks", top |-> TRUE, k |-> "networks", alts |-> {Absent, M1("n1", EmptyM), M2("n1", Null, "default", M1("driver", S("bridge"))), M1("n1", M1("name", S("custom"))), M1("n1", M1("external", B(TRUE))), M1("n1", M1("external", B(FALSE))), M1("default", M1("name", S("mynet")))}],
  [n |-> "top volumes", top |-> TRUE, k |-> "volumes", alts |-> {Absent, M1("data", Null), M1("data", M1("name", S("named"))), M1("data", M1("external", B(TRUE))), M1("data", M1("external", B(FALSE)))}],
  [n |-> "top secrets", top |-> TRUE, k |-> "secrets", alts |-> {M1("s1", M1("file", S("./s"))), M1("s1", M2("file", S("./s"), "name", S("sn"))), M1("s1", M1("external", B(TRUE))), M1("s1", M2("file", S("./s"), "external", B(FALSE)))}]
>>
NDims == Len(Dims)
\* a choice picks one alternative per dimension; cases vary one dimension (others at their first listed "plain" choice) or a pair of them
Plain(i) == IF Dims[i].n = "top secrets" THEN M1("s1", M1("file", S("./s"))) ELSE IF Dims[i].n = "top networks" THEN M1("n1", EmptyM) ELSE Absent
Doc(choice) ==
  LET svcA == M([k \in {"image"} \cup {Dims[i].k : i \in {j \in 1..NDims : ~Dims[j].top /\ choice[j] # Absent}} |->
                  IF k = "image" THEN S("img") ELSE choice[CHOOSE i \in 1..NDims : ~Dims[i].top /\ Dims[i].k = k]])
      tops == {i \in 1..NDims : Dims[i].top /\ choice[i] # Absent}
  IN M([k \in {"services"} \cup {Dims[i].k : i \in tops} |->
        IF k = "services" THEN M([s \in {"a", "db", "cache"} |-> IF s = "a" THEN svcA ELSE M1("image", S("img"))])
        ELSE choice[CHOOSE i \in tops : Dims[i].k = k]])
\* combinations the model itself forbids (network_mode together with networks) or that dangle (network n1 used but not declared)
Valid(choice) ==
  /\ (choice[2] # Absent => choice[1] = Absent)
  /\ (choice[1] = Sq1(S("n1")) => (choice[14] # Absent /\ Has(choice[14], "n1")))
VARIABLE cs
Init == \E i \in 1..NDims : cs = [seed |-> i]
IsSeed == "seed" \in DOMAIN cs
Next == /\ IsSeed
        /\ \E j \in cs.seed..NDims : \E a \in Dims[cs.seed].alts : \E b \in Dims[j].alts :
             LET choice == [i \in 1..NDims |-> IF i = cs.seed THEN a ELSE IF i = j THEN b ELSE Plain(i)]
                 d == Doc(choice) IN
             /\ Valid(choice)
             /\ cs' = [dims |-> <<Dims[cs.seed].n, Dims[j].n>>, implicit |-> d, explicit |-> MakeExplicit(d, "proj")]
Spec == Init /\ [][Next]_cs
Idempotent == IsSeed \/ MakeExplicit(cs.explicit, "proj") = cs.explicit
NeverOverwrites == IsSeed \/ Within(cs.implicit, cs.explicit)
Laws == Idempotent /\ NeverOverwrites
=============================================================================
