------------------------------ MODULE MC_Interp ------------------------------
EXTENDS Interp
Tpl(ast) == [t |-> "tpl", ast |-> ast]
Lit(c) == [k |-> "lit", c |-> c]
VarA == [k |-> "var", n |-> "A", b |-> TRUE]
Asts == { <<Lit("plain")>>, <<VarA>>, <<[k |-> "var", n |-> "A", b |-> FALSE]>>, <<[k |-> "op", n |-> "U", op |-> ":-", t |-> <<Lit("dflt")>>]>>,
          <<[k |-> "esc"], Lit("x")>>, <<Lit("pre-"), VarA, Lit("-post")>>, <<[k |-> "op", n |-> "A", op |-> ":+", t |-> <<Lit("set")>>]>>,
          <<[k |-> "var", n |-> "E", b |-> TRUE], Lit("e")>> }
Env == [n \in {"A", "U", "E", "b_1"} |-> CASE n = "A" -> [set |-> TRUE, v |-> "va"] [] n = "E" -> [set |-> TRUE, v |-> ""] [] OTHER -> [set |-> FALSE, v |-> ""]]
\* a service document whose string leaves at three positions are templates; a key containing `$`, non-string scalars
Doc(a, b, c) ==
  M1("services", M1("a", M([k \in {"image", "command", "environment", "labels", "init", "scale", "hostname"} |->
     CASE k = "image" -> Tpl(<<Lit("img-")>> \o a)
       [] k = "command" -> L(<<Tpl(b), S("fixed"), Tpl(a)>>)
       [] k = "environment" -> M2("K1", Tpl(c), "K2", I(5))
       [] k = "labels" -> M2("$A-key", Tpl(b), "plain", B(TRUE))
       [] k = "init" -> B(TRUE)
       [] k = "scale" -> I(2)
       [] k = "hostname" -> Tpl(c)])))
VARIABLE cs
Init == \/ \E a \in Asts : \E b \in Asts : \E c \in Asts :
             LET d == Doc(a, b, c) IN
             cs = [kind |-> "tree", rendered |-> RenderDoc(d), expected |-> EvalDoc(d, Env), escaped |-> EscapeDoc(RenderDoc(d)),
                   shape |-> SameShape(d, EvalDoc(d, Env))]
        \/ \E kind \in {"boolean", "integer", "number"} : \E text \in BoolTexts \cup {"0", "1", "2", "3", "42", "0.5", "1.5", "0.3", "maybe", "3x", "x.y", "", "t", "f", "T", "F"} :
           \E style \in {"var", "default", "split", "quoted"} :
             cs = [kind |-> "typed", ty |-> kind, text |-> text, style |-> style, valid |-> Cast(kind, text), invalid |-> ClearlyInvalid(kind, text),
                   boolValue |-> (kind = "boolean" /\ Cast(kind, text) /\ BoolValue(text))]
Next == UNCHANGED cs
Spec == Init /\ [][Next]_cs
Laws == cs.kind # "tree" \/ cs.shape
=============================================================================
