------------------------------- MODULE Merge -------------------------------
(***************************************************************************)
(* The Compose override rules (merge.md; override/merge.go,                *)
(* override/uncity.go, loader/reset.go) on tagged trees.                   *)
(*                                                                         *)
(* Override(acc, doc) is the document equivalent to loading acc then doc:  *)
(*   - scalars are replaced, mappings merge key by key, sequences append   *)
(*   - KEY=VALUE attributes merge by key whichever spelling either side    *)
(*     uses (result in mapping spelling)                                   *)
(*   - command / entrypoint / healthcheck.test are replaced wholesale      *)
(*   - keyed lists keep one entry per key, the later one winning, at the   *)
(*     position of the first                                               *)
(*   - string-or-list attributes (dns, tmpfs, label_file ...) append,      *)
(*     env_file entries are keyed by path                                  *)
(*   - depends_on / networks accept the list spelling on either side       *)
(*   - logging options merge only for the same (or an unnamed) driver      *)
(*   - ulimits entries are replaced                                        *)
(*   - !reset removes the attribute, !override replaces without merging    *)
(* Rules are data: RuleAt(path) looks the path up in Rules.                *)
(***************************************************************************)
EXTENDS Val

Svc(rest) == <<"services", "*">> \o rest
Rules == <<
  [p |-> Svc(<<"command">>), r |-> "replace"],
  [p |-> Svc(<<"entrypoint">>), r |-> "replace"],
  [p |-> Svc(<<"healthcheck", "test">>), r |-> "replace"],
  [p |-> Svc(<<"ulimits", "*">>), r |-> "replace"],
  [p |-> Svc(<<"environment">>), r |-> "kv"],
  [p |-> Svc(<<"labels">>), r |-> "kv"],
  [p |-> Svc(<<"annotations">>), r |-> "kv"],
  [p |-> Svc(<<"sysctls">>), r |-> "kv"],
  [p |-> Svc(<<"build", "args">>), r |-> "kv"],
  [p |-> Svc(<<"build", "labels">>), r |-> "kv"],
  [p |-> Svc(<<"deploy", "labels">>), r |-> "kv"],
  [p |-> <<"networks", "*", "labels">>, r |-> "kv"],
  [p |-> <<"volumes", "*", "labels">>, r |-> "kv"],
  [p |-> <<"secrets", "*", "labels">>, r |-> "kv"],
  [p |-> <<"configs", "*", "labels">>, r |-> "kv"],
  [p |-> Svc(<<"build", "ssh">>), r |-> "kv"],
  [p |-> Svc(<<"build", "ulimits", "*">>), r |-> "replace"],
  [p |-> Svc(<<"extra_hosts">>), r |-> "hosts"],
  [p |-> Svc(<<"dns">>), r |-> "strlist-unique"],
  [p |-> Svc(<<"dns_search">>), r |-> "strlist-unique"],
  [p |-> Svc(<<"dns_opt">>), r |-> "strlist-unique"],
  [p |-> Svc(<<"tmpfs">>), r |-> "strlist-unique"],
  [p |-> Svc(<<"cap_add">>), r |-> "strlist-unique"],
  [p |-> Svc(<<"cap_drop">>), r |-> "strlist-unique"],
  [p |-> Svc(<<"profiles">>), r |-> "strlist-unique"],
  [p |-> Svc(<<"links">>), r |-> "strlist-unique"],
  [p |-> Svc(<<"expose">>), r |-> "strlist-unique"],
  [p |-> Svc(<<"env_file">>), r |-> "keyed-envfile"],
  [p |-> Svc(<<"label_file">>), r |-> "strlist"],
  [p |-> Svc(<<"depends_on">>), r |-> "depends_on"],
  [p |-> Svc(<<"networks">>), r |-> "networks"],
  [p |-> Svc(<<"build">>), r |-> "build"],
  [p |-> Svc(<<"logging">>), r |-> "logging"],
  [p |-> Svc(<<"ports">>), r |-> "keyed-port"],
  [p |-> Svc(<<"volumes">>), r |-> "keyed-target"],
  [p |-> Svc(<<"devices">>), r |-> "keyed-device"],
  [p |-> Svc(<<"secrets">>), r |-> "keyed-mount-secret"],
  [p |-> Svc(<<"configs">>), r |-> "keyed-mount-config"],
  [p |-> <<"networks", "*", "ipam", "config">>, r |-> "ipam-config"]
>>
RuleAt(path) == IF \E i \in 1..Len(Rules) : Matches(path, Rules[i].p)
                THEN Rules[CHOOSE i \in 1..Len(Rules) : Matches(path, Rules[i].p)].r
                ELSE "default"
\* no concrete path is matched by two rules (so the lookup is a function)
RulesDisjoint == \A i, j \in 1..Len(Rules) : i # j =>
   ~(Len(Rules[i].p) = Len(Rules[j].p) /\ \A k \in 1..Len(Rules[i].p) :
        Rules[i].p[k] = "*" \/ Rules[j].p[k] = "*" \/ Rules[i].p[k] = Rules[j].p[k])

\* ------------------------------------------------------------ KEY=VALUE family
\* a list item "K=V" | "K" or a mapping K: V | K: null  ->  function K -> value (Null for a valueless key)
ItemKey(s) == Before(s, "=")
ItemVal(s) == IF IndexOf(s, "=") = 0 THEN Null ELSE S(After(s, "="))
RECURSIVE SeqToKV(_)
SeqToKV(sq) == IF sq = <<>> THEN <<>>
               ELSE LET rest == SeqToKV(Tail(sq))  k == ItemKey(Head(sq).v) IN
                    \* a later item of the same list wins
                    IF k \in DOMAIN rest THEN rest ELSE [kk \in DOMAIN rest \cup {k} |-> IF kk = k THEN ItemVal(Head(sq).v) ELSE rest[kk]]
ToKV(x) == IF IsM(x) THEN x.v ELSE IF IsL(x) THEN SeqToKV(x.v) ELSE <<>>
OverKV(b, o) == [k \in DOMAIN b \cup DOMAIN o |-> IF k \in DOMAIN o THEN o[k] ELSE b[k]]

\* ------------------------------------------------------------ host lists: HOST=ADDRESS items, or a mapping HOST: address | [addresses]
\* the addresses of one host, in the order they are written
RECURSIVE ItemsOfHost(_, _)
ItemsOfHost(sq, h) == IF sq = <<>> THEN <<>>
                      ELSE (IF ItemKey(Head(sq).v) = h THEN <<ItemVal(Head(sq).v)>> ELSE <<>>) \o ItemsOfHost(Tail(sq), h)
HostsIn(x) == IF IsM(x) THEN Keys(x) ELSE IF IsL(x) THEN {ItemKey(x.v[i].v) : i \in 1..Len(x.v)} ELSE {}
AddrsOf(x, h) == IF IsM(x) THEN (IF h \in Keys(x) THEN (IF IsL(Get(x, h)) THEN Get(x, h).v ELSE <<Get(x, h)>>) ELSE <<>>)
                 ELSE IF IsL(x) THEN ItemsOfHost(x.v, h) ELSE <<>>
RECURSIVE NotIn(_, _)
NotIn(sq, have) == IF sq = <<>> THEN <<>>
                   ELSE (IF \E i \in 1..Len(have) : have[i] = Head(sq) THEN <<>> ELSE <<Head(sq)>>) \o NotIn(Tail(sq), have)
\* what the base lists is kept as it is, in its order; the override adds the addresses the base does not have
HostsOver(b, o) == M([h \in HostsIn(b) \cup HostsIn(o) |-> L(AddrsOf(b, h) \o NotIn(AddrsOf(o, h), AddrsOf(b, h)))])

\* ------------------------------------------------------------ string-or-list, unique by value
ToList(x) == IF IsL(x) THEN x.v ELSE IF IsNull(x) THEN <<>> ELSE <<x>>
RECURSIVE Uniq(_)
Uniq(sq) == IF sq = <<>> THEN <<>>
            ELSE LET init == Uniq(SubSeq(sq, 1, Len(sq) - 1))  last == sq[Len(sq)] IN
                 IF \E i \in 1..Len(init) : init[i] = last THEN init ELSE Append(init, last)

\* ------------------------------------------------------------ keyed lists
\* the key of an entry, per list kind (short spellings are strings, long ones mappings)
LastColonPart(s) == s     \* generators use long spellings for keyed lists except where noted
KeyOf(kind, e) ==
  CASE kind = "keyed-port" ->
         IF IsM(e) THEN <<(IF Has(e, "host_ip") THEN Get(e, "host_ip").v ELSE ""), (IF Has(e, "published") THEN Get(e, "published").v ELSE ""),
                          Get(e, "target").v, (IF Has(e, "protocol") THEN Get(e, "protocol").v ELSE "tcp")>>
         ELSE <<"short", e.v>>
    [] kind = "keyed-envfile" -> IF IsM(e) THEN Get(e, "path").v ELSE e.v
    [] kind = "keyed-target" -> IF IsM(e) THEN Get(e, "target").v ELSE <<"short", e.v>>
    \* a device mapping SRC[:TARGET[:PERMISSIONS]] is keyed by its target (the source when there is no target)
    [] kind = "keyed-device" -> IF IsM(e) THEN Get(e, "target").v
                                ELSE IF IndexOf(e.v, ":") = 0 THEN e.v ELSE Before(After(e.v, ":"), ":")
    [] kind = "keyed-mount-secret" -> IF IsM(e) THEN (IF Has(e, "target") THEN Get(e, "target").v ELSE "/run/secrets/" \o Get(e, "source").v) ELSE "/run/secrets/" \o e.v
    [] kind = "keyed-mount-config" -> IF IsM(e) THEN (IF Has(e, "target") THEN Get(e, "target").v ELSE "/" \o Get(e, "source").v) ELSE "/" \o e.v
\* later entry wins, at the position of the first entry with that key
RECURSIVE Dedup(_, _)
Dedup(kind, sq) ==
  IF sq = <<>> THEN <<>>
  ELSE LET init == Dedup(kind, SubSeq(sq, 1, Len(sq) - 1))  last == sq[Len(sq)] IN
       IF \E i \in 1..Len(init) : KeyOf(kind, init[i]) = KeyOf(kind, last)
       THEN [i \in 1..Len(init) |-> IF KeyOf(kind, init[i]) = KeyOf(kind, last) THEN last ELSE init[i]]
       ELSE Append(init, last)

\* ------------------------------------------------------------ list-or-mapping attributes
DependsDefault == M2("condition", S("service_started"), "required", B(TRUE))
ListToMap(x, dflt) == IF IsL(x) THEN M([k \in {x.v[i].v : i \in 1..Len(x.v)} |-> dflt]) ELSE x

\* ------------------------------------------------------------ the override of one node
RECURSIVE Over(_, _, _), IpamFold(_, _, _)
MapOver(b, o, path) ==
  M([k \in Keys(b) \cup Keys(o) |->
       IF k \in Keys(b) /\ k \in Keys(o) THEN Over(Get(b, k), Get(o, k), Append(path, k))
       ELSE IF k \in Keys(o) THEN Get(o, k) ELSE Get(b, k)])
Over(b, o, path) ==
  IF HasTag(o, "override") THEN Untag(o)
  ELSE LET r == RuleAt(path) IN
  CASE r = "replace" -> o
    [] r = "kv" -> M(OverKV(ToKV(b), ToKV(o)))
    [] r = "hosts" -> HostsOver(b, o)
    [] r = "strlist-unique" -> L(Uniq(ToList(b) \o ToList(o)))
    [] r = "strlist" -> L(ToList(b) \o ToList(o))
    [] r \in {"keyed-port", "keyed-target", "keyed-device", "keyed-mount-secret", "keyed-mount-config"} -> L(Dedup(r, b.v \o o.v))
    [] r = "keyed-envfile" -> L(Dedup(r, ToList(b) \o ToList(o)))
    [] r = "depends_on" -> MapOver(ListToMap(b, DependsDefault), ListToMap(o, DependsDefault), path)
    [] r = "networks" -> MapOver(ListToMap(b, Null), ListToMap(o, Null), path)
    [] r = "build" -> MapOver(IF IsM(b) THEN b ELSE M1("context", b), IF IsM(o) THEN o ELSE M1("context", o), path)
    [] r = "ipam-config" -> IF IsL(b) /\ IsL(o) THEN L(IpamFold(b.v, o.v, path)) ELSE o
    [] r = "logging" -> IF Has(b, "driver") /\ Has(o, "driver") /\ Get(b, "driver") # Get(o, "driver") THEN o ELSE MapOver(b, o, path)
    [] OTHER ->
         IF IsNull(o) THEN b
         ELSE IF IsM(b) /\ IsM(o) THEN MapOver(b, o, path)
         ELSE IF IsL(b) /\ IsL(o) THEN L(b.v \o o.v)
         ELSE o

\* ipam configs: an override with the subnet of an existing config is merged into it, any other one is appended
SubnetOf(e) == IF IsM(e) /\ Has(e, "subnet") THEN Get(e, "subnet") ELSE Null
IpamFold(acc, os, path) ==
  IF os = <<>> THEN acc
  ELSE LET e == Head(os)
           hit == {i \in 1..Len(acc) : IsM(acc[i]) /\ IsM(e) /\ SubnetOf(acc[i]) = SubnetOf(e)} IN
       IF hit = {} THEN IpamFold(Append(acc, e), Tail(os), path)
       ELSE LET i == CHOOSE x \in hit : \A y \in hit : x <= y IN
            IpamFold([acc EXCEPT ![i] = MapOver(acc[i], e, path)], Tail(os), path)

\* !reset: the attribute is removed from the accumulated model (and from the overriding document)
RECURSIVE ResetPaths(_, _), Strip(_), DelPath(_, _)
ResetPaths(x, path) ==
  IF HasTag(x, "reset") THEN {path}
  ELSE IF IsM(x) THEN UNION {ResetPaths(Get(x, k), Append(path, k)) : k \in Keys(x)}
  ELSE {}
Strip(x) == IF IsM(x) THEN [x EXCEPT !.v = [k \in {kk \in Keys(x) : ~HasTag(Get(x, kk), "reset")} |-> Strip(Get(x, k))]] ELSE x
DelPath(x, path) ==
  IF path = <<>> \/ ~IsM(x) \/ Head(path) \notin Keys(x) THEN x
  ELSE IF Len(path) = 1 THEN Del(x, Head(path))
  ELSE Put(x, Head(path), DelPath(Get(x, Head(path)), Tail(path)))
RECURSIVE DelAll(_, _)
DelAll(x, paths) == IF paths = {} THEN x ELSE LET p == CHOOSE q \in paths : TRUE IN DelAll(DelPath(x, p), paths \ {p})

\* the same below a path (extends: the base service overridden by the extending service's own attributes)
OverrideAt(acc, doc, path) == Over(DelAll(acc, ResetPaths(doc, <<>>)), Strip(doc), path)
\* loading acc then doc
Override(acc, doc) == Over(DelAll(acc, ResetPaths(doc, <<>>)), Strip(doc), <<>>)
RECURSIVE OverrideAll(_, _)
OverrideAll(acc, docs) == IF docs = <<>> THEN acc ELSE OverrideAll(Override(acc, Head(docs)), Tail(docs))
=============================================================================
