---------------------------- MODULE MC_Canonical ----------------------------
(* Every short form of the bounded grammars, paired with its long form (or marked invalid), plus the table of the   *)
(* remaining spelling alternatives.  The harness loads the document with the short spelling and the document with   *)
(* the long spelling: the typed projects must be equal; an invalid short form must be rejected.                    *)
EXTENDS Canonical
CONSTANTS Wide,    \* BOOLEAN: the wider port/volume alphabets
          BigLists \* BOOLEAN: the larger pool of port specifications for the port lists

IPs == IF Wide THEN {"", "127.0.0.1", "0.0.0.0", "[::1]", "[fe80::1]"} ELSE {"", "127.0.0.1", "[::1]"}
Protos == IF Wide THEN {"", "tcp", "udp", "sctp", "TCP", "icmp"} ELSE {"", "udp", "TCP", "icmp"}
Ranges(b) == {<<b, b>>, <<b, b + 1>>, <<b, b + 2>>} \cup (IF Wide THEN {<<b + 2, b>>} ELSE {})
HostRanges == {<<>>} \cup Ranges(8000) \cup {<<9000, 9001>>}
CtrRanges == Ranges(80)
PortCases == [ip : IPs, host : HostRanges, ctr : CtrRanges, proto : Protos]

Sources == {"", "data", "./rel", "/abs", "~/home", "../up", "data.v1"}
ModeWords == {"ro", "rw", "z", "Z", "nocopy", "rshared", "private"}
ModeSeqs == {<<>>} \cup {<<w>> : w \in ModeWords} \cup (IF Wide THEN {<<a, b>> : a \in ModeWords, b \in ModeWords} ELSE {<<"ro", "z">>, <<"rw", "ro">>, <<"Z", "rshared">>})
\* an anonymous volume takes no options: TARGET:MODE would read as SOURCE:TARGET
VolCases == {v \in [src : Sources, tgt : {"/t", "/target/dir"}, modes : ModeSeqs] : v.src = "" => v.modes = <<>>}

Sq1(a) == L(<<a>>)
Sq2(a, b) == L(<<a, b>>)
Dep(c) == M2("condition", S(c), "required", B(TRUE))
\* [n, path below services.a (or from the root when top), short, long]
Table == <<
  [n |-> "build", top |-> FALSE, p |-> <<"build">>, short |-> S("./ctx"), long |-> M1("context", S("./ctx")),
     under |-> M3("context", S("./base"), "dockerfile", S("Dockerfile.dev"), "target", S("prod"))],
  [n |-> "env_file string", top |-> FALSE, p |-> <<"env_file">>, short |-> S("./a.env"), long |-> Sq1(M2("path", S("./a.env"), "required", B(TRUE)))],
  [n |-> "env_file list", top |-> FALSE, p |-> <<"env_file">>, short |-> Sq2(S("./a.env"), S("./b.env")),
     long |-> Sq2(M2("path", S("./a.env"), "required", B(TRUE)), M2("path", S("./b.env"), "required", B(TRUE))),
     over |-> Sq1(M2("path", S("./a.env"), "required", B(FALSE)))],
  [n |-> "label_file string", top |-> FALSE, p |-> <<"label_file">>, short |-> S("./a.label"), long |-> Sq1(S("./a.label"))],
  [n |-> "depends_on list", top |-> FALSE, p |-> <<"depends_on">>, short |-> Sq2(S("db"), S("cache")), long |-> M2("db", Dep("service_started"), "cache", Dep("service_started")),
     over |-> M1("db", M2("condition", S("service_healthy"), "restart", B(TRUE))),
     under |-> M2("db", M3("condition", S("service_healthy"), "required", B(FALSE), "restart", B(TRUE)), "cache", M1("condition", S("service_completed_successfully")))],
  [n |-> "networks list", top |-> FALSE, p |-> <<"networks">>, short |-> Sq2(S("n1"), S("n2")), long |-> M2("n1", Null, "n2", Null),
     over |-> M1("n1", M1("aliases", Sq1(S("alias1")))),
     under |-> M2("n1", M2("aliases", Sq1(S("alias0")), "priority", I(7)), "n2", M1("priority", I(3)))],
  [n |-> "extends string", top |-> FALSE, p |-> <<"extends">>, short |-> S("db"), long |-> M1("service", S("db"))],
  [n |-> "healthcheck test string", top |-> FALSE, p |-> <<"healthcheck", "test">>, short |-> S("curl -f http://localhost"), long |-> Sq2(S("CMD-SHELL"), S("curl -f http://localhost"))],
  [n |-> "secrets short", top |-> FALSE, p |-> <<"secrets">>, short |-> Sq2(S("s1"), S("s2")), long |-> Sq2(M1("source", S("s1")), M1("source", S("s2"))),
     over |-> Sq1(M2("source", S("s1"), "mode", I(256))),
     under |-> Sq2(M3("source", S("s1"), "target", S("/run/secrets/s1"), "mode", I(288)), M2("source", S("s2"), "target", S("elsewhere")))],
  [n |-> "configs short", top |-> FALSE, p |-> <<"configs">>, short |-> Sq1(S("c1")), long |-> Sq1(M1("source", S("c1")))],
  [n |-> "dns string", top |-> FALSE, p |-> <<"dns">>, short |-> S("1.1.1.1"), long |-> Sq1(S("1.1.1.1"))],
  [n |-> "dns_search string", top |-> FALSE, p |-> <<"dns_search">>, short |-> S("example.com"), long |-> Sq1(S("example.com"))],
  [n |-> "tmpfs string", top |-> FALSE, p |-> <<"tmpfs">>, short |-> S("/run"), long |-> Sq1(S("/run"))],
  [n |-> "command shell words", top |-> FALSE, p |-> <<"command">>, short |-> S("run --flag 'two words' x"), long |-> L(<<S("run"), S("--flag"), S("two words"), S("x")>>)],
  [n |-> "entrypoint shell words", top |-> FALSE, p |-> <<"entrypoint">>, short |-> S("/bin/sh -c \"a b\""), long |-> L(<<S("/bin/sh"), S("-c"), S("a b")>>)],
  [n |-> "environment list", top |-> FALSE, p |-> <<"environment">>, short |-> L(<<S("A=1"), S("B="), S("C"), S("D=x=y")>>), long |-> M([k \in {"A", "B", "C", "D"} |-> CASE k = "A" -> S("1") [] k = "B" -> S("") [] k = "C" -> Null [] k = "D" -> S("x=y")])],
  [n |-> "labels list", top |-> FALSE, p |-> <<"labels">>, short |-> Sq2(S("com.x=1"), S("bare")), long |-> M2("com.x", S("1"), "bare", S(""))],
  [n |-> "build args list", top |-> FALSE, p |-> <<"build">>, short |-> M2("context", S("."), "args", Sq2(S("V=1"), S("W"))), long |-> M2("context", S("."), "args", M2("V", S("1"), "W", Null))],
  [n |-> "build args list with = in the value", top |-> FALSE, p |-> <<"build">>, short |-> M2("context", S("."), "args", Sq2(S("A=b=c"), S("B=="))), long |-> M2("context", S("."), "args", M2("A", S("b=c"), "B", S("=")))],
  [n |-> "build args bare keys, one empty in the environment", top |-> FALSE, p |-> <<"build">>, short |-> M2("context", S("."), "args", Sq2(S("EMPTYVAR"), S("SETVAR"))), long |-> M2("context", S("."), "args", M2("EMPTYVAR", Null, "SETVAR", Null))],
  [n |-> "environment bare keys, one empty in the environment", top |-> FALSE, p |-> <<"environment">>, short |-> Sq2(S("EMPTYVAR"), S("SETVAR")), long |-> M2("EMPTYVAR", Null, "SETVAR", Null)],
  [n |-> "additional_contexts list", top |-> FALSE, p |-> <<"build">>, short |-> M2("context", S("."), "additional_contexts", Sq2(S("src=https://example.com/r.git?ref=v1&depth=1"), S("img=docker-image://x:1"))),
     long |-> M2("context", S("."), "additional_contexts", M2("src", S("https://example.com/r.git?ref=v1&depth=1"), "img", S("docker-image://x:1")))],
  \* keys of free-form mappings are the user's: one that starts with x- is a key like any other, not an extension of the attribute
  [n |-> "environment key starting with x-", top |-> FALSE, p |-> <<"environment">>, short |-> Sq2(S("x-trace=1"), S("A=2")), long |-> M2("x-trace", S("1"), "A", S("2"))],
  [n |-> "labels key starting with x-", top |-> FALSE, p |-> <<"labels">>, short |-> Sq2(S("x-team=core"), S("tier=1")), long |-> M2("x-team", S("core"), "tier", S("1"))],
  [n |-> "build args key starting with x-", top |-> FALSE, p |-> <<"build">>, short |-> M2("context", S("."), "args", Sq1(S("x-arg=1"))), long |-> M2("context", S("."), "args", M1("x-arg", S("1")))],
  [n |-> "sysctls key starting with x-", top |-> FALSE, p |-> <<"sysctls">>, short |-> Sq1(S("x-y.z=1")), long |-> M1("x-y.z", S("1"))],
  [n |-> "extra_hosts name starting with x-", top |-> FALSE, p |-> <<"extra_hosts">>, short |-> Sq1(S("x-host=10.0.0.1")), long |-> M1("x-host", S("10.0.0.1"))],
  \* several devices in the three-field form with the same permissions: each is an entry of its own (the key is the target)
  [n |-> "devices with equal permissions", top |-> FALSE, p |-> <<"devices">>, short |-> L(<<S("/dev/a:/dev/x:rw"), S("/dev/b:/dev/y:rw"), S("/dev/c:/dev/z:rw")>>),
     long |-> L(<<M3("source", S("/dev/a"), "target", S("/dev/x"), "permissions", S("rw")), M3("source", S("/dev/b"), "target", S("/dev/y"), "permissions", S("rw")), M3("source", S("/dev/c"), "target", S("/dev/z"), "permissions", S("rw"))>>)],
  \* a byte size written as digits only is a decimal number of bytes, leading zeros or not
  [n |-> "byte size with a leading zero", top |-> FALSE, p |-> <<"mem_limit">>, short |-> S("010"), long |-> I(10)],
  [n |-> "shm_size with leading zeros", top |-> FALSE, p |-> <<"shm_size">>, short |-> S("0100"), long |-> I(100)],
  [n |-> "labels list with = in the value", top |-> FALSE, p |-> <<"labels">>, short |-> Sq2(S("k=a=b"), S("q==")), long |-> M2("k", S("a=b"), "q", S("="))],
  [n |-> "sysctls list", top |-> FALSE, p |-> <<"sysctls">>, short |-> Sq1(S("net.core.somaxconn=1024")), long |-> M1("net.core.somaxconn", S("1024"))],
  [n |-> "annotations list", top |-> FALSE, p |-> <<"annotations">>, short |-> Sq1(S("k=v")), long |-> M1("k", S("v"))],
  [n |-> "extra_hosts list =", top |-> FALSE, p |-> <<"extra_hosts">>, short |-> Sq2(S("h1=10.0.0.1"), S("h2:10.0.0.2")), long |-> M2("h1", S("10.0.0.1"), "h2", S("10.0.0.2"))],
  [n |-> "duration", top |-> FALSE, p |-> <<"stop_grace_period">>, short |-> S("1m30s"), long |-> S("90s")],
  [n |-> "healthcheck interval", top |-> FALSE, p |-> <<"healthcheck">>, short |-> M2("test", Sq2(S("CMD"), S("true")), "interval", S("1h")), long |-> M2("test", Sq2(S("CMD"), S("true")), "interval", S("60m"))],
  [n |-> "byte size", top |-> FALSE, p |-> <<"mem_limit">>, short |-> S("64M"), long |-> I(67108864)],
  [n |-> "byte size k", top |-> FALSE, p |-> <<"shm_size">>, short |-> S("2gb"), long |-> S("2048m")],
  [n |-> "devices", top |-> FALSE, p |-> <<"devices">>, short |-> Sq1(S("/dev/a:/dev/b:rw")), long |-> Sq1(M3("source", S("/dev/a"), "target", S("/dev/b"), "permissions", S("rw")))],
  [n |-> "devices two", top |-> FALSE, p |-> <<"devices">>, short |-> Sq1(S("/dev/a:/dev/b")), long |-> Sq1(M3("source", S("/dev/a"), "target", S("/dev/b"), "permissions", S("rwm")))],
  [n |-> "devices one", top |-> FALSE, p |-> <<"devices">>, short |-> Sq1(S("/dev/a")), long |-> Sq1(M3("source", S("/dev/a"), "target", S("/dev/a"), "permissions", S("rwm")))],
  [n |-> "external name", top |-> TRUE, p |-> <<"volumes", "data">>, short |-> M1("external", M1("name", S("realname"))), long |-> M2("external", B(TRUE), "name", S("realname"))],
  [n |-> "network external name", top |-> TRUE, p |-> <<"networks", "n1">>, short |-> M1("external", M1("name", S("realnet"))), long |-> M2("external", B(TRUE), "name", S("realnet"))],
  [n |-> "include short", top |-> TRUE, p |-> <<"x-unused">>, short |-> S("a"), long |-> S("a")]
>>

DevCases == {<<"/dev/a">>, <<"/dev/a", "/dev/b">>, <<"/dev/a", "/dev/b", "rw">>, <<"/dev/a", "/dev/b", "r">>, <<"/dev/a", "/dev/b", "rw", "extra">>,
             <<"/dev/a", "/dev/b", "rwm", "/dev/c">>}
VARIABLE cs
\* lists of port specifications whose expansions overlap: the list is the union, one entry per (host ip, published, target, protocol)
PP(host, ctr, proto) == [ip |-> "", host |-> host, ctr |-> ctr, proto |-> proto]
PortPool == {PP(<<>>, <<3000, 3002>>, ""), PP(<<>>, <<3001, 3001>>, ""), PP(<<>>, <<4000, 4002>>, ""), PP(<<>>, <<4001, 4001>>, ""),
             PP(<<8000, 8001>>, <<80, 81>>, "")} \cup (IF BigLists THEN {PP(<<8001, 8001>>, <<81, 81>>, ""), PP(<<>>, <<3002, 3002>>, "udp")} ELSE {})
PortLists == UNION {[1..k -> PortPool] : k \in {2, 4}}
RECURSIVE Flatten(_)
Flatten(ss) == IF ss = <<>> THEN <<>> ELSE Head(ss) \o Flatten(Tail(ss))
RECURSIVE DedupFirst(_)
DedupFirst(seq) == IF seq = <<>> THEN <<>>
                   ELSE LET rest == DedupFirst(SubSeq(seq, 1, Len(seq) - 1))  last == seq[Len(seq)] IN
                        IF \E i \in 1..Len(rest) : rest[i] = last THEN rest ELSE Append(rest, last)
Init == \E k \in {"ports", "volumes", "table", "devices", "portlists"} : cs = [seed |-> k]
IsSeed == "seed" \in DOMAIN cs
Next == /\ IsSeed
        /\ \/ cs.seed = "ports" /\ \E p \in PortCases :
                cs' = [family |-> "ports", short |-> Sq1(S(PortShort(p))), valid |-> PortValid(p), long |-> (IF PortValid(p) THEN PortLong(p) ELSE EmptyL),
                       path |-> <<"services", "a", "ports">>, n |-> "ports"]
           \/ cs.seed = "volumes" /\ \E v \in VolCases :
                cs' = [family |-> "volumes", short |-> Sq1(S(VolShort(v))), valid |-> VolValid(v), long |-> (IF VolValid(v) THEN Sq1(VolLong(v)) ELSE EmptyL),
                       path |-> <<"services", "a", "volumes">>, n |-> "volumes", indomain |-> VolValid(v)]
           \/ cs.seed = "devices" /\ \E d \in DevCases :
                cs' = [family |-> "devices", short |-> Sq1(S(DevShort(d))), valid |-> DevValid(d), long |-> (IF DevValid(d) THEN Sq1(DevLong(d)) ELSE EmptyL),
                       path |-> <<"services", "a", "devices">>, n |-> "devices"]
           \/ cs.seed = "table" /\ \E i \in 1..Len(Table) :
                cs' = [family |-> "table", short |-> Table[i].short, valid |-> TRUE, long |-> Table[i].long,
                       path |-> (IF Table[i].top THEN <<>> ELSE <<"services", "a">>) \o Table[i].p, n |-> Table[i].n,
                       \* a later file that refines one element in long syntax: the two spellings must still agree
                       over |-> (IF "over" \in DOMAIN Table[i] THEN Table[i].over ELSE Null),
                       \* an earlier file (or an extended base) with a richer long-syntax value, which the two spellings refine alike
                       under |-> (IF "under" \in DOMAIN Table[i] THEN Table[i].under ELSE Null)]
           \/ cs.seed = "portlists" /\ \E ps \in PortLists :
                cs' = [family |-> "ports", short |-> L([i \in 1..Len(ps) |-> S(PortShort(ps[i]))]), valid |-> TRUE,
                       long |-> L(DedupFirst(Flatten([i \in 1..Len(ps) |-> PortLong(ps[i]).v]))),
                       path |-> <<"services", "a", "ports">>, n |-> "port list"]
Spec == Init /\ [][Next]_cs

\* laws on the specification: a port range expands to one entry per container port, paired one to one with the host range
PortLaws == IsSeed \/ cs.family # "ports" \/ cs.n # "ports" \/ ~cs.valid \/
   (\A i, j \in 1..Len(cs.long.v) : i # j => Get(cs.long.v[i], "target") # Get(cs.long.v[j], "target"))
\* KEY=VALUE rows: both spellings denote the same key/value function (the function Merge.tla merges by)
KVLaws == IsSeed \/ cs.family # "table" \/ cs.n \notin {"environment list", "sysctls list", "annotations list"} \/ ToKV(cs.short) = ToKV(cs.long)
Laws == PortLaws /\ KVLaws
=============================================================================
