------------------------------ MODULE Defaults ------------------------------
(***************************************************************************)
(* Implicit defaults made explicit (transform/defaults.go,                 *)
(* loader/normalize.go), on tagged trees: MakeExplicit(doc, project) is    *)
(* the document that spells out every default the specification defines.  *)
(*   - a service without network_mode and without (non-empty) networks     *)
(*     joins `default`; `default` is declared iff some service uses it     *)
(*   - networks/volumes/secrets/configs get name <project>_<key> unless    *)
(*     named, or external (then the key)                                   *)
(*   - links, `service:` namespaces (network_mode, ipc, pid, uts, cgroup)  *)
(*     and volumes_from add a depends_on entry unless one is declared      *)
(*   - build: context ".", dockerfile "Dockerfile" unless inline           *)
(*   - ports: protocol tcp, mode ingress; secrets: target                  *)
(*     /run/secrets/<source>; depends_on: condition service_started,       *)
(*     required true; env_file: required true;                             *)
(*     pull_policy if_not_present is missing; a device reservation         *)
(*     without count and without device_ids reserves `all`                 *)
(* Explicit values are never overwritten.                                  *)
(***************************************************************************)
EXTENDS Merge

Default(m, k, val) == IF Has(m, k) THEN m ELSE Put(m, k, val)
MapSeq(f(_), x) == L([i \in 1..Len(x.v) |-> f(x.v[i])])
MapVals(f(_), x) == M([k \in Keys(x) |-> f(Get(x, k))])

DepEntry(restart) == M3("condition", S("service_started"), "restart", B(restart), "required", B(TRUE))
\* the service a namespace value refers to ("service:db" -> "db"), or "" when it is not a service reference
SvcRef(x) == IF x.t = "s" /\ Len(x.v) > 8 /\ SubSeq(x.v, 1, 8) = "service:" THEN SubSeq(x.v, 9, Len(x.v)) ELSE ""
LinkTarget(x) == Before(x.v, ":")
Implied(svc) ==
  LET links == IF Has(svc, "links") THEN {LinkTarget(Get(svc, "links").v[i]) : i \in 1..Len(Get(svc, "links").v)} ELSE {}
      spaces == {SvcRef(Get(svc, k)) : k \in {"network_mode", "ipc", "pid", "uts", "cgroup"} \cap Keys(svc)} \ {""}
      vfrom == IF Has(svc, "volumes_from") THEN {Before(Get(svc, "volumes_from").v[i].v, ":") : i \in {j \in 1..Len(Get(svc, "volumes_from").v) : Before(Get(svc, "volumes_from").v[j].v, ":") # "container"}} ELSE {}
  IN [restart |-> links \cup spaces, norestart |-> vfrom \ (links \cup spaces)]
DependsExplicit(svc) ==
  LET declared == IF Has(svc, "depends_on") THEN ListToMap(Get(svc, "depends_on"), DependsDefault) ELSE EmptyM
      filled == MapVals(LAMBDA e : Default(Default(IF IsNull(e) THEN EmptyM ELSE e, "condition", S("service_started")), "required", B(TRUE)), declared)
      imp == Implied(svc)
      all == Keys(filled) \cup imp.restart \cup imp.norestart
  IN M([k \in all |-> IF k \in Keys(filled) THEN Get(filled, k) ELSE DepEntry(k \in imp.restart)])

BuildExplicit(b) ==
  LET m == IF IsM(b) THEN b ELSE M1("context", b)
      c == Default(m, "context", S(".")) IN
  IF Has(c, "dockerfile_inline") THEN c ELSE Default(c, "dockerfile", S("Dockerfile"))
PortExplicit(p) == IF IsM(p) THEN Default(Default(p, "protocol", S("tcp")), "mode", S("ingress")) ELSE p
SecretExplicit(s) == LET m == IF IsM(s) THEN s ELSE M1("source", s) IN Default(m, "target", S("/run/secrets/" \o Get(m, "source").v))
EnvFileExplicit(e) == IF IsM(e) THEN Default(e, "required", B(TRUE)) ELSE M2("path", e, "required", B(TRUE))

\* device reservations (deploy.resources.reservations.devices[], gpus[]): count "all" unless a count or device ids are given
DeviceExplicit(d) == IF IsM(d) /\ ~Has(d, "count") /\ ~Has(d, "device_ids") THEN Put(d, "count", S("all")) ELSE d
ServiceExplicit(svc) ==
  LET s1 == IF Has(svc, "network_mode") THEN svc
            ELSE IF ~Has(svc, "networks") \/ Get(svc, "networks") \in {EmptyM, EmptyL, Null} THEN Put(svc, "networks", M1("default", Null))
            ELSE Put(svc, "networks", ListToMap(Get(svc, "networks"), Null))
      s2 == IF Has(s1, "build") THEN Put(s1, "build", BuildExplicit(Get(s1, "build"))) ELSE s1
      s3 == IF Has(s2, "ports") THEN Put(s2, "ports", MapSeq(PortExplicit, Get(s2, "ports"))) ELSE s2
      s4 == IF Has(s3, "secrets") THEN Put(s3, "secrets", MapSeq(SecretExplicit, Get(s3, "secrets"))) ELSE s3
      s5 == IF Has(s4, "env_file") THEN Put(s4, "env_file", MapSeq(EnvFileExplicit, L(ToList(Get(s4, "env_file"))))) ELSE s4
      s6a == IF Has(s5, "pull_policy") /\ Get(s5, "pull_policy") = S("if_not_present") THEN Put(s5, "pull_policy", S("missing")) ELSE s5
      s6 == IF Has(s6a, "gpus") /\ IsL(Get(s6a, "gpus")) THEN Put(s6a, "gpus", MapSeq(DeviceExplicit, Get(s6a, "gpus"))) ELSE s6a
      deps == DependsExplicit(s6)
  IN IF Keys(deps) = {} THEN s6 ELSE Put(s6, "depends_on", deps)

IsExternal(r) == IsM(r) /\ Has(r, "external") /\ Get(r, "external") = B(TRUE)
NameExplicit(r, key, project) ==
  LET m == IF IsNull(r) THEN EmptyM ELSE r IN
  Default(m, "name", S(IF IsExternal(m) THEN key ELSE project \o "_" \o key))
UsesDefault(svc) == ~Has(svc, "network_mode") /\ Has(svc, "networks") /\ Has(Get(svc, "networks"), "default")

MakeExplicit(doc, project) ==
  LET svcs == MapVals(ServiceExplicit, Get(doc, "services"))
      needDefault == \E k \in Keys(svcs) : UsesDefault(Get(svcs, k))
      nets0 == IF Has(doc, "networks") THEN Get(doc, "networks") ELSE EmptyM
      nets == IF needDefault /\ ~Has(nets0, "default") THEN Put(nets0, "default", Null) ELSE nets0
      named(kind, x) == M([k \in Keys(x) |-> NameExplicit(Get(x, k), k, project)])
      d1 == Put(doc, "services", svcs)
      d2 == IF Keys(nets) = {} THEN d1 ELSE Put(d1, "networks", named("networks", nets))
      d3 == IF Has(d2, "volumes") THEN Put(d2, "volumes", named("volumes", Get(d2, "volumes"))) ELSE d2
      d4 == IF Has(d3, "secrets") THEN Put(d3, "secrets", named("secrets", Get(d3, "secrets"))) ELSE d3
      d5 == IF Has(d4, "configs") THEN Put(d4, "configs", named("configs", Get(d4, "configs"))) ELSE d4
  IN d5

\* ---- laws
RECURSIVE Within(_, _)
\* every value written in d is still there in e (mappings may have gained keys; lists entry by entry)
Within(d, e) ==
  IF IsM(d) /\ IsM(e) THEN \A k \in Keys(d) : k \in Keys(e) /\ Within(Get(d, k), Get(e, k))
  ELSE IF IsL(d) /\ IsL(e) THEN Len(d.v) = Len(e.v) /\ \A i \in 1..Len(d.v) : Within(d.v[i], e.v[i])
  ELSE IF IsL(d) /\ IsM(e) THEN TRUE          \* list spelling made a mapping (depends_on, networks): keys checked by the differential
  ELSE IF d.t = "s" /\ (IsM(e) \/ IsL(e)) THEN TRUE       \* short spelling made long (build, secrets, env_file)
  ELSE IF IsNull(d) THEN TRUE
  ELSE d = e \/ (d = S("if_not_present") /\ e = S("missing"))
=============================================================================
