---------------------------- MODULE MC_RenderDocs ----------------------------
(* Models for the marshal / reload round trip: a table of values for every custom marshaller and renderer of the typed   *)
(* model, each placed on the skeleton document.  (The harness adds the base and target documents of MC_Merge's cases,   *)
(* the long forms of MC_Canonical and the explicit documents of MC_Defaults, so that every attribute alternative of      *)
(* those tables is round-tripped as well.)                                                                              *)
EXTENDS Merge
Sq1(a) == L(<<a>>)
Sq2(a, b) == L(<<a, b>>)
RECURSIVE Nest(_, _)
Nest(path, val) == IF path = <<>> THEN val ELSE M1(Head(path), Nest(Tail(path), val))
Img == M1("image", S("img"))
Skeleton ==
  M([k \in {"services", "networks", "volumes", "secrets", "configs"} |->
     CASE k = "services" -> M([s \in {"a", "db", "cache"} |-> Img])
       [] k = "networks" -> M([s \in {"n1", "n2"} |-> EmptyM])
       [] k = "volumes"  -> M([s \in {"data", "other"} |-> EmptyM])
       [] k = "secrets"  -> M([s \in {"s1", "s2"} |-> M1("file", S("./sec"))])
       [] k = "configs"  -> M([s \in {"c1", "c2"} |-> M1("file", S("./cfg"))])])
Place(a, val) == Nest((IF a.top THEN <<>> ELSE <<"services", "a">>) \o a.p, val)
Base(a, val) == Over(Skeleton, Place(a, val), <<>>)
Dur(s) == S(s)
Extra == <<
  [n |-> "durations", top |-> FALSE, p |-> <<"healthcheck">>, v |-> M([k \in {"test", "interval", "timeout", "start_period", "start_interval", "retries"} |->
       CASE k = "test" -> Sq2(S("CMD"), S("true")) [] k = "interval" -> S("1m30s") [] k = "timeout" -> S("10s") [] k = "start_period" -> S("40s") [] k = "start_interval" -> S("5s") [] k = "retries" -> I(3)])],
  [n |-> "stop_grace_period", top |-> FALSE, p |-> <<"stop_grace_period">>, v |-> S("1m30s")],
  [n |-> "byte sizes", top |-> FALSE, p |-> <<"deploy">>, v |-> M1("resources", M2("limits", M2("memory", S("64M"), "cpus", S("0.5")), "reservations", M1("memory", S("32M"))))],
  [n |-> "mem_limit", top |-> FALSE, p |-> <<"mem_limit">>, v |-> S("1g")],
  [n |-> "shm_size", top |-> FALSE, p |-> <<"shm_size">>, v |-> S("64m")],
  [n |-> "ulimits", top |-> FALSE, p |-> <<"ulimits">>, v |-> M2("nproc", I(65535), "nofile", M2("soft", I(20000), "hard", I(40000)))],
  [n |-> "ulimits equal", top |-> FALSE, p |-> <<"ulimits">>, v |-> M2("nofile", M2("soft", I(20000), "hard", I(20000)), "core", M2("soft", I(0), "hard", I(0)))],
  [n |-> "depends_on optional", top |-> FALSE, p |-> <<"depends_on">>, v |-> M2("db", M3("condition", S("service_healthy"), "required", B(FALSE), "restart", B(TRUE)), "cache", M2("condition", S("service_started"), "required", B(TRUE)))],
  [n |-> "env_file", top |-> FALSE, p |-> <<"env_file">>, v |-> Sq2(S("./a.env"), M2("path", S("./b.env"), "required", B(FALSE)))],
  [n |-> "ssh default", top |-> FALSE, p |-> <<"build">>, v |-> M2("context", S("."), "ssh", Sq1(S("default")))],
  [n |-> "env_file same file spelled twice", top |-> FALSE, p |-> <<"env_file">>, v |-> L(<<S("./a.env"), S("b.env"), S("a.env")>>)],
  [n |-> "x- keys in free-form mappings", top |-> FALSE, p |-> <<"environment">>, v |-> Sq2(S("x-trace=1"), S("A=2"))],
  [n |-> "x- label", top |-> FALSE, p |-> <<"labels">>, v |-> Sq1(S("x-team=core"))],
  [n |-> "x- network of a service", top |-> TRUE, p |-> <<"networks", "x-net">>, v |-> M1("driver", S("bridge"))],
  [n |-> "published port range", top |-> FALSE, p |-> <<"ports">>, v |-> Sq1(S("8080-8090:80"))],
  [n |-> "byte size beyond 2^53", top |-> FALSE, p |-> <<"mem_limit">>, v |-> S("@int:9007199254740993")],   \* (the harness writes it as a bare integer: beyond what TLC holds)
  [n |-> "mem_swappiness", top |-> FALSE, p |-> <<"mem_swappiness">>, v |-> I(60)],
  [n |-> "zero stop_grace_period", top |-> FALSE, p |-> <<"stop_grace_period">>, v |-> S("0s")],
  [n |-> "zero healthcheck durations", top |-> FALSE, p |-> <<"healthcheck">>, v |-> M([k \in {"test", "interval", "timeout", "start_period", "start_interval"} |-> IF k = "test" THEN Sq2(S("CMD"), S("true")) ELSE S("0s")])],
  [n |-> "zero restart_policy durations", top |-> FALSE, p |-> <<"deploy">>, v |-> M1("restart_policy", M3("condition", S("on-failure"), "delay", S("0s"), "window", S("0s")))],
  [n |-> "ssh key without path", top |-> FALSE, p |-> <<"build">>, v |-> M2("context", S("."), "ssh", M2("mykey", Null, "default", Null))],
  [n |-> "ssh key path", top |-> FALSE, p |-> <<"build">>, v |-> M2("context", S("."), "ssh", Sq1(S("k1=/p1")))],
  [n |-> "ssh keys", top |-> FALSE, p |-> <<"build">>, v |-> M2("context", S("."), "ssh", Sq2(S("k1=/p1"), S("k2=/p2")))],
  [n |-> "extra_hosts", top |-> FALSE, p |-> <<"extra_hosts">>, v |-> Sq2(S("h1=10.0.0.1"), S("h2=::1"))],
  [n |-> "build extra_hosts", top |-> FALSE, p |-> <<"build">>, v |-> M2("context", S("."), "extra_hosts", M1("h1", S("10.0.0.1")))],
  [n |-> "command empty", top |-> FALSE, p |-> <<"command">>, v |-> EmptyL],
  [n |-> "entrypoint empty", top |-> FALSE, p |-> <<"entrypoint">>, v |-> EmptyL],
  [n |-> "command quoting", top |-> FALSE, p |-> <<"command">>, v |-> L(<<S("sh"), S("-c"), S("echo \"a b\" $$HOME")>>)],
  [n |-> "devices", top |-> FALSE, p |-> <<"devices">>, v |-> Sq1(S("/dev/a:/dev/b:rw"))],
  [n |-> "device requests", top |-> FALSE, p |-> <<"deploy">>, v |-> M1("resources", M1("reservations", M1("devices", Sq1(M3("capabilities", Sq1(S("gpu")), "count", I(2), "driver", S("nvidia"))))))],
  [n |-> "device request by ids", top |-> FALSE, p |-> <<"deploy">>, v |-> M1("resources", M1("reservations", M1("devices", Sq1(M3("capabilities", Sq1(S("gpu")), "device_ids", Sq2(S("0"), S("3")), "driver", S("nvidia"))))))],
  [n |-> "gpus by ids", top |-> FALSE, p |-> <<"gpus">>, v |-> Sq1(M2("driver", S("nvidia"), "device_ids", Sq1(S("GPU-1"))))],
  [n |-> "gpus all", top |-> FALSE, p |-> <<"gpus">>, v |-> Sq1(M2("driver", S("nvidia"), "count", S("all")))],
  [n |-> "develop watch", top |-> FALSE, p |-> <<"develop">>, v |-> M1("watch", Sq1(M3("path", S("./src"), "action", S("sync"), "target", S("/app"))))],
  [n |-> "credential_spec", top |-> FALSE, p |-> <<"credential_spec">>, v |-> M1("file", S("spec.json"))],
  [n |-> "blkio", top |-> FALSE, p |-> <<"blkio_config">>, v |-> M2("weight", I(300), "device_read_bps", Sq1(M2("path", S("/dev/sda"), "rate", S("12mb"))))],
  [n |-> "tmpfs volume", top |-> FALSE, p |-> <<"volumes">>, v |-> Sq1(M3("type", S("tmpfs"), "target", S("/tmp"), "tmpfs", M2("size", S("64m"), "mode", I(493))))],
  [n |-> "logging", top |-> FALSE, p |-> <<"logging">>, v |-> M2("driver", S("json-file"), "options", M1("max-size", S("1m")))],
  [n |-> "network config", top |-> FALSE, p |-> <<"networks">>, v |-> M1("n1", M3("aliases", Sq1(S("al")), "ipv4_address", S("10.0.0.5"), "priority", I(7)))],
  [n |-> "secret long", top |-> FALSE, p |-> <<"secrets">>, v |-> Sq1(M([k \in {"source", "target", "uid", "gid", "mode"} |-> CASE k = "source" -> S("s1") [] k = "target" -> S("/run/secrets/x") [] k = "uid" -> S("103") [] k = "gid" -> S("103") [] k = "mode" -> I(288)]))],
  [n |-> "service extension", top |-> FALSE, p |-> <<"x-svc-ext">>, v |-> M1("k", S("v"))],
  [n |-> "top extension", top |-> TRUE, p |-> <<"x-top-ext">>, v |-> M2("k", S("v"), "n", I(3))],
  [n |-> "ipam", top |-> TRUE, p |-> <<"networks", "n1">>, v |-> M2("driver", S("bridge"), "ipam", M2("driver", S("default"), "config", Sq1(M2("subnet", S("10.0.0.0/24"), "gateway", S("10.0.0.1")))))],
  [n |-> "external network", top |-> TRUE, p |-> <<"networks", "n2">>, v |-> M2("external", B(TRUE), "name", S("realnet"))],
  [n |-> "volume driver", top |-> TRUE, p |-> <<"volumes", "data">>, v |-> M3("driver", S("local"), "driver_opts", M1("type", S("nfs")), "labels", M1("l", S("1")))],
  [n |-> "config content", top |-> TRUE, p |-> <<"configs", "c9">>, v |-> M1("content", S("hello\nworld"))],
  [n |-> "secret environment", top |-> TRUE, p |-> <<"secrets", "s9">>, v |-> M1("environment", S("SECVAR"))],
  [n |-> "profiles", top |-> FALSE, p |-> <<"profiles">>, v |-> Sq1(S("debug"))],
  \* an extension whose value holds x- keys of its own, in a mapping and inside a list of mappings: user data, kept as written
  [n |-> "nested extension", top |-> TRUE, p |-> <<"x-deploy-hints">>, v |-> M3("region", S("eu"), "x-owner", S("team-a"), "targets", Sq1(M2("zone", S("a"), "x-weight", S("heavy"))))],
  \* values at the edge of their range: "unlimited" is written -1
  [n |-> "memswap unlimited", top |-> FALSE, p |-> <<"memswap_limit">>, v |-> I(0 - 1)],
  [n |-> "ulimit single unlimited", top |-> FALSE, p |-> <<"ulimits">>, v |-> M2("memlock", I(0 - 1), "nofile", M2("soft", I(0 - 1), "hard", I(0 - 1)))],
  [n |-> "negative scalars", top |-> FALSE, p |-> <<"oom_score_adj">>, v |-> I(0 - 500)],
  [n |-> "mem_swappiness zero", top |-> FALSE, p |-> <<"mem_swappiness">>, v |-> I(0)],
  \* two mounts whose targets differ only by a trailing slash are the same mount point
  [n |-> "volume targets trailing slash", top |-> FALSE, p |-> <<"volumes">>, v |-> Sq2(M3("type", S("volume"), "source", S("data"), "target", S("/data")), M3("type", S("volume"), "source", S("other"), "target", S("/data/")))],
  [n |-> "extra_hosts several addresses", top |-> FALSE, p |-> <<"extra_hosts">>, v |-> L(<<S("h=10.0.0.2"), S("h=10.0.0.1"), S("g=::1")>>)],
  [n |-> "env_file format", top |-> FALSE, p |-> <<"env_file">>, v |-> Sq2(M3("path", S("./a.env"), "required", B(FALSE), "format", S("raw")), M2("path", S("./b.env"), "format", S("raw")))],
  [n |-> "device request count zero", top |-> FALSE, p |-> <<"deploy">>, v |-> M1("resources", M1("reservations", M1("devices", Sq1(M2("capabilities", Sq1(S("gpu")), "count", I(0))))))],
  [n |-> "ports published int and string", top |-> FALSE, p |-> <<"ports">>, v |-> Sq2(M2("target", I(80), "published", I(8080)), M2("target", I(80), "published", S("8080")))],
  [n |-> "command empty string", top |-> FALSE, p |-> <<"command">>, v |-> S("")],
  [n |-> "nested service extension", top |-> FALSE, p |-> <<"x-hints">>, v |-> M2("x-inner", M1("x-deep", I(1)), "plain", Sq1(M1("x-in-list", B(TRUE))))]
>>
\* each non-empty set of top-level sections absent while the others are present
Sections == {"networks", "volumes", "secrets", "configs"}
RECURSIVE DropAll(_, _)
DropAll(d, ks) == IF ks = {} THEN d ELSE LET k == CHOOSE x \in ks : TRUE IN DropAll(Del(d, k), ks \ {k})
RECURSIVE SectNames(_)
SectNames(ks) == IF ks = {} THEN "" ELSE LET k == CHOOSE x \in ks : TRUE IN " " \o k \o SectNames(ks \ {k})
Partial == {[n |-> "without" \o SectNames(ks), d |-> DropAll(Skeleton, ks)] : ks \in SUBSET Sections \ {{}}}
VARIABLE doc
RInit == \/ \E i \in 1..Len(Extra) : doc = [n |-> Extra[i].n, d |-> Base(Extra[i], Extra[i].v)]
         \/ doc \in Partial
RNext == UNCHANGED doc
RSpec == RInit /\ [][RNext]_doc
=============================================================================
