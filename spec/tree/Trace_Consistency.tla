-------------------------- MODULE Trace_Consistency --------------------------
(* "Accepted implies consistent": every project the real loader accepted (with consistency checks on) is projected by the *)
(* harness into a tagged long-form document; TLC evaluates every rule of Consistency.tla on it.                          *)
EXTENDS Consistency, Json, IOUtils
Trace == ndJsonDeserialize(IOEnv.TRACE)
VARIABLES l, bad
Init == l = 1 /\ bad = <<>>
Next == /\ l <= Len(Trace) /\ l' = l + 1
        /\ LET br == Broken(Trace[l].doc) IN
           bad' = (IF br # {} /\ Len(bad) < 100 THEN Append(bad, <<l, br>>) ELSE bad)
Spec == Init /\ [][Next]_<<l, bad>>
Report == l <= Len(Trace) \/ PrintT(<<"VERDICTS", l - 1, bad>>)
=============================================================================
