----------------------------- MODULE Canonical -----------------------------
(***************************************************************************)
(* Short and long syntaxes (transform/*.go, format/volume.go,              *)
(* types.ParsePortConfig): for each attribute with alternative spellings   *)
(* an abstract value, its short rendering and the equivalent long form as  *)
(* the Compose specification grammar defines it.                           *)
(***************************************************************************)
EXTENDS Merge, Integers

\* ------------------------------------------------------------ ports  [IP:][HOST[-HOST]:]CONTAINER[-CONTAINER][/PROTO]
\* p = [ip, host (<<lo, hi>> or <<>>), ctr <<lo, hi>>, proto]
R(r) == IF r[1] = r[2] THEN ToString(r[1]) ELSE ToString(r[1]) \o "-" \o ToString(r[2])
Span(r) == r[2] - r[1]
PortShort(p) == (IF p.ip # "" THEN p.ip \o ":" ELSE "")
             \o (IF p.host # <<>> THEN R(p.host) \o ":" ELSE IF p.ip # "" THEN ":" ELSE "")
             \o R(p.ctr)
             \o (IF p.proto # "" THEN "/" \o p.proto ELSE "")
LowerProto(s) == CASE s = "TCP" -> "tcp" [] s = "UDP" -> "udp" [] OTHER -> s
StripBrackets(ip) == IF ip # "" /\ Char(ip, 1) = "[" THEN SubSeq(ip, 2, Len(ip) - 1) ELSE ip
\* a host range must be as long as the container range, unless the container port is single (then the range is kept)
PortValid(p) == /\ Span(p.ctr) >= 0 /\ (p.host = <<>> \/ Span(p.host) >= 0)
                /\ (p.host = <<>> \/ Span(p.ctr) = 0 \/ Span(p.host) = Span(p.ctr))
                /\ LowerProto(p.proto) \in {"", "tcp", "udp", "sctp"}
PortLongEntry(p, i) ==
  LET pub == IF p.host = <<>> THEN "" ELSE IF Span(p.ctr) = 0 THEN R(p.host) ELSE ToString(p.host[1] + i)
      base == [k \in {"target", "protocol", "mode"} |->
                 IF k = "target" THEN I(p.ctr[1] + i) ELSE IF k = "protocol" THEN S(IF p.proto = "" THEN "tcp" ELSE LowerProto(p.proto)) ELSE S("ingress")]
      withPub == IF pub = "" THEN base ELSE [k \in DOMAIN base \cup {"published"} |-> IF k = "published" THEN S(pub) ELSE base[k]]
      withIp == IF p.ip = "" THEN withPub ELSE [k \in DOMAIN withPub \cup {"host_ip"} |-> IF k = "host_ip" THEN S(StripBrackets(p.ip)) ELSE withPub[k]]
  IN M(withIp)
PortLong(p) == L([i \in 1..(Span(p.ctr) + 1) |-> PortLongEntry(p, i - 1)])

\* ------------------------------------------------------------ volumes  [SOURCE:]TARGET[:MODE,...]
\* v = [src (text, "" = anonymous), tgt, modes (sequence of option words)]
IsPath(s) == s # "" /\ (Char(s, 1) \in {".", "/", "~"} \/ (Len(s) >= 2 /\ SubSeq(s, 1, 2) = "\\\\"))
RECURSIVE JoinComma(_)
JoinComma(ws) == IF ws = <<>> THEN "" ELSE IF Len(ws) = 1 THEN ws[1] ELSE ws[1] \o "," \o JoinComma(Tail(ws))
VolShort(v) == (IF v.src # "" THEN v.src \o ":" ELSE "") \o v.tgt \o (IF v.modes # <<>> THEN ":" \o JoinComma(v.modes) ELSE "")
InModes(v, w) == \E i \in 1..Len(v.modes) : v.modes[i] = w
LastOf(v, ws) == LET Idx == {i \in 1..Len(v.modes) : v.modes[i] \in ws} IN IF Idx = {} THEN "" ELSE v.modes[CHOOSE i \in Idx : \A j \in Idx : j <= i]
VolLong(v) ==
  LET bind == IsPath(v.src)
      ro == LastOf(v, {"ro", "rw"}) = "ro"
      sel == LastOf(v, {"z", "Z"})
      prop == LastOf(v, {"rshared", "shared", "rslave", "slave", "rprivate", "private"})
      bindOpts == [k \in {"create_host_path"} \cup (IF sel # "" THEN {"selinux"} ELSE {}) \cup (IF prop # "" THEN {"propagation"} ELSE {}) |->
                     IF k = "create_host_path" THEN B(TRUE) ELSE IF k = "selinux" THEN S(sel) ELSE S(prop)]
      fields == {"type", "target"} \cup (IF v.src # "" THEN {"source"} ELSE {}) \cup (IF ro THEN {"read_only"} ELSE {})
                \cup (IF bind THEN {"bind"} ELSE {"volume"})
  IN M([k \in fields |->
        CASE k = "type" -> S(IF bind THEN "bind" ELSE "volume")
          [] k = "target" -> S(v.tgt)
          [] k = "source" -> S(v.src)
          [] k = "read_only" -> B(TRUE)
          [] k = "bind" -> M(bindOpts)
          [] k = "volume" -> (IF InModes(v, "nocopy") THEN M1("nocopy", B(TRUE)) ELSE EmptyM)])
\* bind options given for a non-path source have no long equivalent in the grammar: outside the domain
VolValid(v) == v.tgt # "" /\ (IsPath(v.src) \/ (LastOf(v, {"z", "Z"}) = "" /\ LastOf(v, {"rshared", "shared", "rslave", "slave", "rprivate", "private"}) = ""))
               /\ (~IsPath(v.src) \/ ~InModes(v, "nocopy"))
\* ------------------------------------------------------------ devices  SRC[:DST[:PERM]]
\* d = sequence of 1..4 sections; more than three sections is outside the grammar
RECURSIVE JoinColon(_)
JoinColon(ws) == IF Len(ws) = 1 THEN ws[1] ELSE ws[1] \o ":" \o JoinColon(Tail(ws))
DevShort(d) == JoinColon(d)
DevValid(d) == Len(d) <= 3
DevLong(d) == M3("source", S(d[1]), "target", S(IF Len(d) >= 2 THEN d[2] ELSE d[1]), "permissions", S(IF Len(d) >= 3 THEN d[3] ELSE "rwm"))
=============================================================================
