SPECIFICATION Spec
CONSTANTS Wide = FALSE
INVARIANTS Laws
CHECK_DEADLOCK FALSE
