--------------------------- MODULE MC_Consistency ---------------------------
(* A valid base model and, for every rule, the minimal edits that violate exactly that rule (TLC checks "exactly" by     *)
(* evaluating every rule on the edited model); valid variants that must keep loading; every digraph of depends_on       *)
(* edges on 3 services.                                                                                                *)
EXTENDS Consistency
Sq1(a) == L(<<a>>)
RECURSIVE Nest(_, _)
Nest(path, val) == IF path = <<>> THEN val ELSE M1(Head(path), Nest(Tail(path), val))
Dep == M2("condition", S("service_started"), "required", B(TRUE))
OptDep == M2("condition", S("service_started"), "required", B(FALSE))
Img == M1("image", S("img"))
Base ==
  M([k \in {"services", "networks", "volumes", "secrets", "configs"} |->
     CASE k = "services" -> M([s \in {"a", "b", "c", "off"} |->
              CASE s = "a" -> M([f \in {"image", "depends_on", "networks", "volumes", "secrets", "configs", "healthcheck"} |->
                                   CASE f = "image" -> S("img") [] f = "healthcheck" -> M2("test", L(<<S("CMD"), S("true")>>), "interval", S("10s")) [] f = "depends_on" -> M1("b", Dep) [] f = "networks" -> M1("n", Null)
                                     [] f = "volumes" -> Sq1(M3("type", S("volume"), "source", S("v"), "target", S("/d")))
                                     [] f = "secrets" -> Sq1(M1("source", S("s"))) [] f = "configs" -> Sq1(M1("source", S("c")))])
                [] s = "b" -> Img
                [] s = "c" -> Img
                [] s = "off" -> M2("image", S("img"), "profiles", Sq1(S("p")))])
       [] k = "networks" -> M1("n", EmptyM)
       [] k = "volumes" -> M1("v", EmptyM)
       [] k = "secrets" -> M1("s", M1("file", S("./s")))
       [] k = "configs" -> M1("c", M1("file", S("./c")))])
SvcA(frag) == Nest(<<"services", "a">>, frag)
Limits(k, v) == M1("deploy", M1("resources", M1("limits", M1(k, v))))
\* [rule, fragment to override onto the base (a partial document)]
Edits == <<
  [r |-> "image-or-build", f |-> SvcA(M1("image", Tagged(Null, "reset")))],
  [r |-> "network-declared", f |-> SvcA(M1("networks", M1("nope", Null)))],
  [r |-> "volume-declared", f |-> SvcA(M1("volumes", Sq1(M3("type", S("volume"), "source", S("nope"), "target", S("/x")))))],
  [r |-> "secret-declared", f |-> SvcA(M1("secrets", Sq1(M1("source", S("nope")))))],
  [r |-> "config-declared", f |-> SvcA(M1("configs", Sq1(M1("source", S("nope")))))],
  [r |-> "build-secret-declared", f |-> SvcA(M1("build", M2("context", S("."), "secrets", Sq1(M1("source", S("nope"))))))],
  [r |-> "depends-on-exists", f |-> SvcA(M1("depends_on", M1("nope", Dep)))],
  [r |-> "depends-on-exists", f |-> SvcA(M1("depends_on", M1("off", Dep)))],
  [r |-> "namespace-exists", f |-> SvcA(M1("ipc", S("service:nope")))],
  [r |-> "namespace-exists", f |-> SvcA(M1("pid", S("service:off")))],
  [r |-> "namespace-exists", f |-> SvcA(M2("network_mode", S("service:nope"), "networks", Tagged(Null, "reset")))],
  \* a dangling reference next to a namespace attribute that holds a plain value
  [r |-> "namespace-exists", f |-> SvcA(M3("network_mode", S("host"), "networks", Tagged(Null, "reset"), "ipc", S("service:nope")))],
  [r |-> "namespace-exists", f |-> SvcA(M2("ipc", S("shareable"), "pid", S("service:nope")))],
  [r |-> "namespace-exists", f |-> SvcA(M3("cgroup", S("host"), "pid", S("host"), "uts", S("service:off")))],
  [r |-> "links-exist", f |-> SvcA(M1("links", Sq1(S("nope"))))],
  [r |-> "volumes-from-exists", f |-> SvcA(M1("volumes_from", Sq1(S("nope"))))],
  [r |-> "network-mode-xor-networks", f |-> SvcA(M1("network_mode", S("host")))],
  [r |-> "dockerfile-xor-inline", f |-> SvcA(M1("build", M3("context", S("."), "dockerfile", S("D"), "dockerfile_inline", S("FROM x"))))],
  [r |-> "scale-replicas", f |-> SvcA(M2("scale", I(2), "deploy", M1("replicas", I(3))))],
  [r |-> "cpus-agree", f |-> SvcA(Put(Limits("cpus", S("2")), "cpus", S("1")))],
  [r |-> "memory-agree", f |-> SvcA(Put(Limits("memory", S("2g")), "mem_limit", S("1g")))],
  [r |-> "mem-reservation-agree", f |-> SvcA(M2("mem_reservation", S("1g"), "deploy", M1("resources", M1("reservations", M1("memory", S("2g"))))))],
  [r |-> "pids-agree", f |-> SvcA(Put(Limits("pids", I(2)), "pids_limit", I(1)))],
  [r |-> "pids-agree", f |-> SvcA(Put(Limits("pids", I(100)), "pids_limit", I(0 - 1)))],
  [r |-> "pids-agree", f |-> SvcA(Put(Limits("pids", I(0 - 1)), "pids_limit", I(100)))],
  [r |-> "external-volume-no-params", f |-> Nest(<<"volumes", "v">>, M2("external", B(TRUE), "driver", S("foo")))],
  [r |-> "external-volume-no-params", f |-> Nest(<<"volumes", "v">>, M2("external", B(TRUE), "labels", M1("l", S("1"))))],
  [r |-> "secret-one-source", f |-> Nest(<<"secrets", "s">>, M1("file", Tagged(Null, "reset")))],
  [r |-> "secret-one-source", f |-> Nest(<<"secrets", "s">>, M1("environment", S("E")))],
  [r |-> "secret-one-source", f |-> Nest(<<"secrets", "s">>, M2("driver", S("custom"), "environment", S("E")))],
  [r |-> "secret-one-source", f |-> Nest(<<"secrets", "s">>, M2("driver", S("custom"), "file", Tagged(Null, "reset")))],
  [r |-> "config-one-source", f |-> Nest(<<"configs", "c">>, M1("file", Tagged(Null, "reset")))],
  [r |-> "config-one-source", f |-> Nest(<<"configs", "c">>, M1("content", S("x")))],
  [r |-> "config-one-source", f |-> Nest(<<"configs", "c">>, M2("external", B(FALSE), "content", S("x")))],
  [r |-> "secret-one-source", f |-> Nest(<<"secrets", "s">>, M2("external", B(FALSE), "environment", S("E")))],
  [r |-> "secret-one-source", f |-> Nest(<<"secrets", "s">>, M2("external", B(TRUE), "environment", S("E")))],
  [r |-> "config-one-source", f |-> Nest(<<"configs", "c">>, M2("external", B(TRUE), "environment", S("E")))],
  [r |-> "config-one-source", f |-> Nest(<<"configs", "c">>, M2("external", B(FALSE), "file", Tagged(Null, "reset")))],
  [r |-> "secret-one-source", f |-> Nest(<<"secrets", "s">>, M2("external", B(FALSE), "file", Tagged(Null, "reset")))],
  [r |-> "acyclic", f |-> Nest(<<"services", "b">>, M1("depends_on", M1("a", Dep)))],
  [r |-> "acyclic", f |-> SvcA(M1("depends_on", M1("a", Dep)))],
  [r |-> "acyclic", f |-> Nest(<<"services", "b">>, M1("links", Sq1(S("a"))))],
  [r |-> "acyclic", f |-> Nest(<<"services", "b">>, M1("ipc", S("service:a")))],
  [r |-> "acyclic", f |-> Nest(<<"services", "b">>, M2("ipc", S("host"), "pid", S("service:a")))]
>>
\* edits that take two later files: the second refines one element of what the first added
Edits2 == <<
  \* a required dependency on a disabled service stays required when a sibling entry of the same list is made optional
  [r |-> "depends-on-exists", f |-> SvcA(M1("depends_on", L(<<S("c"), S("off")>>))), f2 |-> SvcA(M1("depends_on", M1("c", M1("required", B(FALSE)))))],
  [r |-> "depends-on-exists", f |-> SvcA(M1("depends_on", L(<<S("off"), S("c")>>))), f2 |-> SvcA(M1("depends_on", M1("c", M2("condition", S("service_healthy"), "required", B(FALSE)))))],
  \* the second source of a secret arrives in a later file
  [r |-> "secret-one-source", f |-> Nest(<<"secrets", "s">>, M1("driver", S("custom"))), f2 |-> Nest(<<"secrets", "s">>, M1("environment", S("E")))]
>>
Valids2 == <<
  [f |-> SvcA(M1("depends_on", L(<<S("c"), S("off")>>))), f2 |-> SvcA(M1("depends_on", M2("c", M1("required", B(FALSE)), "off", M1("required", B(FALSE)))))]
>>
\* variants that stay consistent and must keep loading
Valids == <<
  SvcA(M1("depends_on", M1("off", OptDep))),
  SvcA(M2("scale", I(2), "deploy", M1("replicas", I(2)))),
  SvcA(Put(Limits("memory", S("1g")), "mem_limit", S("1g"))),
  SvcA(Put(Limits("pids", I(0 - 1)), "pids_limit", I(0 - 1))),
  SvcA(M1("volumes", Sq1(M2("type", S("volume"), "target", S("/anon"))))),
  SvcA(M1("volumes", Sq1(M3("type", S("bind"), "source", S("/host"), "target", S("/x"))))),
  SvcA(M1("ipc", S("service:b"))),
  SvcA(M1("volumes_from", Sq1(S("container:ext")))),
  Nest(<<"volumes", "v">>, M1("external", B(TRUE))),
  Nest(<<"secrets", "s">>, M2("external", B(TRUE), "file", Tagged(Null, "reset"))),
  Nest(<<"secrets", "s">>, M1("driver", S("custom"))),
  Nest(<<"services", "b">>, M1("depends_on", M1("off", OptDep))),
  \* every service names its networks, one of them the implicit `default`, which no file declares: still declared implicitly
  M1("services", M([x \in {"a", "b", "c", "off"} |-> M1("networks", IF x = "a" THEN M1("default", Null) ELSE M1("n", Null))])),
  M1("services", M([x \in {"a", "b", "c", "off"} |-> IF x = "b" THEN M1("networks", M2("default", M1("aliases", Sq1(S("al"))), "n", Null)) ELSE IF x = "c" THEN M2("network_mode", S("none"), "networks", Tagged(Null, "reset")) ELSE M1("networks", M1("n", Null))]))
>>
\* the paired settings next to every partial shape of the deploy section: nothing to disagree with, so the model stays consistent
PairAttrs == {<<"mem_reservation", S("1g")>>, <<"mem_limit", S("1g")>>, <<"cpus", S("1")>>, <<"pids_limit", I(5)>>, <<"scale", I(2)>>}
DeployShapes == {EmptyM, M1("resources", EmptyM),
                 M1("resources", M1("limits", M1("memory", S("2g")))), M1("resources", M1("reservations", M1("memory", S("2g")))),
                 M1("resources", M1("limits", M1("cpus", S("2")))), M1("resources", M1("reservations", M1("cpus", S("0.5")))),
                 M1("resources", M1("limits", M1("pids", I(9)))), M1("mode", S("replicated"))}
\* (attribute, deploy shape) pairs in which both sides name the same limit are the disagreeing edits above, not valid variants
SameLimit(a, d) == \/ (a[1] = "mem_limit" /\ d = M1("resources", M1("limits", M1("memory", S("2g")))))
                   \/ (a[1] = "mem_reservation" /\ d = M1("resources", M1("reservations", M1("memory", S("2g")))))
                   \/ (a[1] = "cpus" /\ d = M1("resources", M1("limits", M1("cpus", S("2")))))
                   \/ (a[1] = "pids_limit" /\ d = M1("resources", M1("limits", M1("pids", I(9)))))
PairValids == {SvcA(M2(p[1][1], p[1][2], "deploy", p[2])) : p \in {q \in PairAttrs \X DeployShapes : ~SameLimit(q[1], q[2])}}
VARIABLE cs
Init == \/ \E i \in 1..Len(Edits) : cs = [kind |-> "edit", rule |-> Edits[i].r, base |-> Base, fragment |-> Edits[i].f, fragment2 |-> Null, doc |-> Override(Base, Edits[i].f),
                                          broken |-> Broken(Override(Base, Edits[i].f))]
        \/ \E i \in 1..Len(Valids) : cs = [kind |-> "valid", rule |-> "none", base |-> Base, fragment |-> Valids[i], fragment2 |-> Null, doc |-> Override(Base, Valids[i]),
                                           broken |-> Broken(Override(Base, Valids[i]))]
        \/ \E i \in 1..Len(Edits2) : LET d == Override(Override(Base, Edits2[i].f), Edits2[i].f2) IN
                                        cs = [kind |-> "edit", rule |-> Edits2[i].r, base |-> Base, fragment |-> Edits2[i].f, fragment2 |-> Edits2[i].f2, doc |-> d, broken |-> Broken(d)]
        \/ \E i \in 1..Len(Valids2) : LET d == Override(Override(Base, Valids2[i].f), Valids2[i].f2) IN
                                         cs = [kind |-> "valid", rule |-> "none", base |-> Base, fragment |-> Valids2[i].f, fragment2 |-> Valids2[i].f2, doc |-> d, broken |-> Broken(d)]
        \/ \E v \in PairValids : cs = [kind |-> "valid", rule |-> "none", base |-> Base, fragment |-> v, fragment2 |-> Null, doc |-> Override(Base, v), broken |-> Broken(Override(Base, v))]
        \/ cs = [kind |-> "valid", rule |-> "none", base |-> Base, fragment |-> EmptyM, fragment2 |-> Null, doc |-> Base, broken |-> Broken(Base)]
Next == UNCHANGED cs
Spec == Init /\ [][Next]_cs
\* the negative half is precise: an edit breaks exactly its rule; valid variants break none
Exactly == IF cs.kind = "edit" THEN cs.broken = {cs.rule} ELSE cs.broken = {}
=============================================================================
