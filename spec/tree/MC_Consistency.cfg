SPECIFICATION Spec
INVARIANTS Exactly
CHECK_DEADLOCK FALSE
