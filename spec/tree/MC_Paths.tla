------------------------------ MODULE MC_Paths ------------------------------
EXTENDS PathsResolve
CONSTANT More    \* BOOLEAN: further path shapes (thorough)
P(t, c, up, segs) == [text |-> t, class |-> c, up |-> up, segs |-> segs]
\* inc/x, sub/x, deep/x: values that start with the name of the directory their own file sits in (joined like any other)
Shapes == { P("./x", "rel", 0, <<"x">>), P("x/y", "rel", 0, <<"x", "y">>), P("inc/x", "rel", 0, <<"inc", "x">>), P("sub/x", "rel", 0, <<"sub", "x">>), P("inc/deep/x", "rel", 0, <<"inc", "deep", "x">>), P("../x", "rel", 1, <<"x">>), P(".", "rel", 0, <<>>),
            P("./a/../b", "rel", 0, <<"b">>), P("./vendor/github.com/acme/tool", "rel", 0, <<"vendor", "github.com", "acme", "tool">>),
            P("checkouts/git@work/app", "rel", 0, <<"checkouts", "git@work", "app">>), P("mirror/https/x", "rel", 0, <<"mirror", "https", "x">>), P("../../z", "rel", 2, <<"z">>),
            P("/abs/dir", "abs", 0, <<>>), P("/abs/dir/", "abs", 0, <<>>), P("/abs/a/../b", "abs", 0, <<>>), P("/abs//x/./y", "abs", 0, <<>>), P("~/x", "home", 0, <<"x">>), P("~", "home", 0, <<>>),
            P("C:\\x", "winabs", 0, <<>>), P("c:/data", "winabs", 0, <<>>), P("\\\\srv\\share\\d", "unc", 0, <<>>), P("\\\\srv\\share", "unc", 0, <<>>),
            P("https://example.com/r.git", "remote", 0, <<>>), P("git@github.com:o/r.git", "remote", 0, <<>>), P("github.com/o/r", "remote", 0, <<>>),
            P("docker-image://img:1", "url", 0, <<>>), P("oci-layout://./x", "url", 0, <<>>) }
          \cup (IF More THEN { P("./x/", "rel", 0, <<"x">>), P("x//y", "rel", 0, <<"x", "y">>), P("./sp ace/f", "rel", 0, <<"sp ace", "f">>), P("...", "rel", 0, <<"...">>),
                               P("x/../../y", "rel", 1, <<"y">>), P("./.hidden", "rel", 0, <<".hidden">>), P("a:b", "rel", 0, <<"a:b">>), P("/", "abs", 0, <<>>), P("/abs/../up", "abs", 0, <<>>),
                               P("~/", "home", 0, <<>>), P("~/a/../b", "home", 0, <<"b">>), P("ssh://git@host/r.git", "url", 0, <<>>), P("http://example.com/x.tar.gz", "remote", 0, <<>>) }
                ELSE {})
\* where the attribute is written: the main file, an included file (project directory inc/), an extended file in sub/
\* include2: a file included by the included file, from inc/deep/; include-sibling: in the included file, on a service that a sibling of
\* the same file extends (both must resolve alike); extends-fork: the extended service is itself extended by a second service of the main file
Origins == {[o |-> "main", base |-> <<"r1", "r2", "proj">>], [o |-> "include", base |-> <<"r1", "r2", "proj", "inc">>], [o |-> "extends", base |-> <<"r1", "r2", "proj", "sub">>],
            [o |-> "include2", base |-> <<"r1", "r2", "proj", "inc", "deep">>], [o |-> "include-sibling", base |-> <<"r1", "r2", "proj", "inc">>],
            [o |-> "extends-fork", base |-> <<"r1", "r2", "proj", "sub">>]}
Home == <<"home", "verifuser">>
VARIABLE cs
Init == \E i \in 1..Len(Rows) : \E p \in Shapes : \E og \in Origins :
          cs = [row |-> Rows[i].n, kind |-> Rows[i].kind, shape |-> p.text, class |-> p.class, origin |-> og.o,
                enforced |-> Enforced(Rows[i].kind, p),
                below |-> Resolve(Rows[i].kind, p, og.base, Home),      \* below the (real) root directory of the run
                anchored |-> p.class \in {"rel"},                        \* the expected text is relative to the run's root
                idem |-> Idempotent(Rows[i].kind, p, og.base, Home)]
Next == UNCHANGED cs
Spec == Init /\ [][Next]_cs
Laws == cs.idem
=============================================================================
