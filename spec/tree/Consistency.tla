---------------------------- MODULE Consistency ----------------------------
(***************************************************************************)
(* Referential consistency of a model (loader/validate.go,                 *)
(* validation/*.go, graph/cycle.go) as predicates over tagged documents in *)
(* long form.  Rules (names used in evidence and findings):                *)
(*  image-or-build, network-declared, volume-declared, secret-declared,    *)
(*  config-declared, build-secret-declared, depends-on-exists,             *)
(*  namespace-exists, links-exist, volumes-from-exists,                    *)
(*  network-mode-xor-networks, dockerfile-xor-inline, scale-replicas,      *)
(*  cpus-agree, memory-agree, mem-reservation-agree, pids-agree,           *)
(*  external-volume-no-params, secret-one-source, config-one-source,       *)
(*  acyclic                                                                *)
(***************************************************************************)
EXTENDS Merge

RuleNames == {"image-or-build", "network-declared", "volume-declared", "secret-declared", "config-declared", "build-secret-declared",
              "depends-on-exists", "namespace-exists", "links-exist", "volumes-from-exists", "network-mode-xor-networks",
              "dockerfile-xor-inline", "scale-replicas", "cpus-agree", "memory-agree", "mem-reservation-agree", "pids-agree",
              "external-volume-no-params", "secret-one-source", "config-one-source", "acyclic"}

Sect(doc, k) == IF Has(doc, k) THEN Get(doc, k) ELSE EmptyM
Svcs(doc) == Sect(doc, "services")
Enabled(doc) == {n \in Keys(Svcs(doc)) : ~Has(Get(Svcs(doc), n), "profiles")}      \* no profile is active in these models
Items(x) == IF IsL(x) THEN {x.v[i] : i \in 1..Len(x.v)} ELSE {}
Field(m, k, dflt) == IF IsM(m) /\ Has(m, k) THEN Get(m, k) ELSE dflt
SvcRef(x) == IF x.t = "s" /\ Len(x.v) > 8 /\ SubSeq(x.v, 1, 8) = "service:" THEN SubSeq(x.v, 9, Len(x.v)) ELSE ""
SourceOf(e) == IF IsM(e) THEN Get(e, "source").v ELSE e.v
At3(m, a, b, c) == Field(Field(Field(m, a, EmptyM), b, EmptyM), c, Null)
At4(m, a, b, c, d) == Field(Field(Field(Field(m, a, EmptyM), b, EmptyM), c, EmptyM), d, Null)

\* dependency edges of an enabled service: declared depends_on plus what links / namespaces / volumes_from imply
DepTargets(s) ==
  (IF Has(s, "depends_on") THEN Keys(Get(s, "depends_on")) ELSE {})
  \cup (IF Has(s, "links") THEN {Before(x.v, ":") : x \in Items(Get(s, "links"))} ELSE {})
  \cup ({SvcRef(Get(s, k)) : k \in {"network_mode", "ipc", "pid", "uts", "cgroup"} \cap Keys(s)} \ {""})
  \cup (IF Has(s, "volumes_from") THEN {Before(x.v, ":") : x \in {y \in Items(Get(s, "volumes_from")) : Before(y.v, ":") # "container"}} ELSE {})
RECURSIVE Reach(_, _, _)
Reach(doc, Fr, k) == IF k = 0 THEN Fr ELSE Reach(doc, Fr \cup UNION {DepTargets(Get(Svcs(doc), n)) \cap Enabled(doc) : n \in Fr \cap Enabled(doc)}, k - 1)

HoldsFor(r, doc, n) ==
  LET s == Get(Svcs(doc), n) IN
  CASE r = "image-or-build" -> Has(s, "image") \/ Has(s, "build")
    [] r = "network-declared" -> \A k \in (IF Has(s, "networks") THEN Keys(Get(s, "networks")) ELSE {}) : k \in Keys(Sect(doc, "networks")) \/ k = "default"
    [] r = "volume-declared" -> \A v \in Items(Field(s, "volumes", EmptyL)) : (Field(v, "type", S("")) = S("volume") /\ Has(v, "source")) => Get(v, "source").v \in Keys(Sect(doc, "volumes"))
    [] r = "secret-declared" -> \A e \in Items(Field(s, "secrets", EmptyL)) : SourceOf(e) \in Keys(Sect(doc, "secrets"))
    [] r = "config-declared" -> \A e \in Items(Field(s, "configs", EmptyL)) : SourceOf(e) \in Keys(Sect(doc, "configs"))
    [] r = "build-secret-declared" -> \A e \in Items(Field(Field(s, "build", EmptyM), "secrets", EmptyL)) : SourceOf(e) \in Keys(Sect(doc, "secrets"))
    [] r = "depends-on-exists" -> \A d \in (IF Has(s, "depends_on") THEN Keys(Get(s, "depends_on")) ELSE {}) :
                                     d \in Enabled(doc) \/ (d \in Keys(Svcs(doc)) /\ Field(Get(Get(s, "depends_on"), d), "required", B(TRUE)) = B(FALSE))
    [] r = "namespace-exists" -> \A k \in {"network_mode", "ipc", "pid", "uts", "cgroup"} \cap Keys(s) : SvcRef(Get(s, k)) = "" \/ SvcRef(Get(s, k)) \in Enabled(doc)
    [] r = "links-exist" -> \A x \in Items(Field(s, "links", EmptyL)) : Before(x.v, ":") \in Enabled(doc)
    [] r = "volumes-from-exists" -> \A x \in Items(Field(s, "volumes_from", EmptyL)) : Before(x.v, ":") = "container" \/ Before(x.v, ":") \in Enabled(doc)
    [] r = "network-mode-xor-networks" -> ~(Has(s, "network_mode") /\ Has(s, "networks") /\ Keys(Get(s, "networks")) # {})
    [] r = "dockerfile-xor-inline" -> ~(Has(Field(s, "build", EmptyM), "dockerfile") /\ Has(Field(s, "build", EmptyM), "dockerfile_inline"))
    [] r = "scale-replicas" -> ~(Has(s, "scale") /\ Has(Field(s, "deploy", EmptyM), "replicas") /\ Get(s, "scale") # Get(Get(s, "deploy"), "replicas"))
    [] r = "cpus-agree" -> ~(Has(s, "cpus") /\ At4(s, "deploy", "resources", "limits", "cpus") # Null /\ Get(s, "cpus") # At4(s, "deploy", "resources", "limits", "cpus"))
    [] r = "memory-agree" -> ~(Has(s, "mem_limit") /\ At4(s, "deploy", "resources", "limits", "memory") # Null /\ Get(s, "mem_limit") # At4(s, "deploy", "resources", "limits", "memory"))
    [] r = "mem-reservation-agree" -> ~(Has(s, "mem_reservation") /\ At4(s, "deploy", "resources", "reservations", "memory") # Null /\ Get(s, "mem_reservation") # At4(s, "deploy", "resources", "reservations", "memory"))
    [] r = "pids-agree" -> ~(Has(s, "pids_limit") /\ At4(s, "deploy", "resources", "limits", "pids") # Null /\ Get(s, "pids_limit") # At4(s, "deploy", "resources", "limits", "pids"))
    [] OTHER -> TRUE
SourcesOf(x, ks) == Cardinality({k \in ks : Has(x, k)})
Holds(r, doc) ==
  CASE r = "external-volume-no-params" -> \A k \in Keys(Sect(doc, "volumes")) :
            LET v == Get(Sect(doc, "volumes"), k) IN ~(IsM(v) /\ Field(v, "external", B(FALSE)) = B(TRUE) /\ Keys(v) \cap {"driver", "driver_opts", "labels"} # {})
    [] r = "secret-one-source" -> \A k \in Keys(Sect(doc, "secrets")) :
            LET v == Get(Sect(doc, "secrets"), k) IN      \* a custom driver excuses neither a missing source nor two of them
                \* external excuses a missing source, never several of them
                SourcesOf(v, {"file", "environment"}) = 1 \/ (Field(v, "external", B(FALSE)) = B(TRUE) /\ SourcesOf(v, {"file", "environment"}) = 0)
    [] r = "config-one-source" -> \A k \in Keys(Sect(doc, "configs")) :
            LET v == Get(Sect(doc, "configs"), k) IN SourcesOf(v, {"file", "environment", "content"}) = 1 \/ (Field(v, "external", B(FALSE)) = B(TRUE) /\ SourcesOf(v, {"file", "environment", "content"}) = 0)
    [] r = "acyclic" -> \A n \in Enabled(doc) : n \notin Reach(doc, DepTargets(Get(Svcs(doc), n)) \cap Enabled(doc), Cardinality(Keys(Svcs(doc))))
    [] OTHER -> \A n \in Enabled(doc) : HoldsFor(r, doc, n)
Consistent(doc) == \A r \in RuleNames : Holds(r, doc)
Broken(doc) == {r \in RuleNames : ~Holds(r, doc)}
=============================================================================
