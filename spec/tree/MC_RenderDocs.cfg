SPECIFICATION RSpec
CHECK_DEADLOCK FALSE
