SPECIFICATION Spec
INVARIANTS Laws
CHECK_DEADLOCK FALSE
