SPECIFICATION Spec
CONSTANTS Triples = FALSE
INVARIANTS Laws
CHECK_DEADLOCK FALSE
