---------------------------- MODULE PathsResolve ----------------------------
(***************************************************************************)
(* Relative path resolution (paths/*.go).  Paths are abstract shapes:      *)
(*   [text, class, up, segs]                                               *)
(*   class: "rel" (up = number of leading .., segs = remaining segments),  *)
(*          "abs", "home" (segs below ~), "winabs", "unc", "url"           *)
(*          (contains ://), "remote" (git/http(s)/ssh/github.com/git@),    *)
(* a base directory is a sequence of segments below the root.              *)
(* Resolvers (rows) have a kind:                                           *)
(*   "abs"      ~ expanded; absolute kept; relative joined with the base   *)
(*   "context"  like abs, but url / remote shapes are left as written      *)
(*   "unix"     like abs, and Windows-absolute shapes are left as written  *)
(***************************************************************************)
EXTENDS Naturals, Sequences, FiniteSets, TLC

RECURSIVE JoinSlash(_)
JoinSlash(segs) == IF segs = <<>> THEN "" ELSE "/" \o segs[1] \o JoinSlash(Tail(segs))
Render(segs) == IF segs = <<>> THEN "/" ELSE JoinSlash(segs)
Take(sq, n) == SubSeq(sq, 1, n)

Rows == <<
  [n |-> "build.context", kind |-> "context"],
  [n |-> "build.additional_contexts", kind |-> "context"],
  [n |-> "env_file", kind |-> "abs"],
  [n |-> "label_file", kind |-> "abs"],
  [n |-> "develop.watch.path", kind |-> "abs"],
  [n |-> "volumes.bind.source", kind |-> "unix"],
  [n |-> "secrets.file", kind |-> "unix"],
  [n |-> "configs.file", kind |-> "unix"],
  [n |-> "volume.driver_opts.device", kind |-> "unix"]
>>

\* "enforced" says whether the statement fixes the outcome for this row kind and shape class
Enforced(kind, p) ==
  CASE p.class \in {"rel", "abs", "home"} -> TRUE
    [] p.class \in {"winabs", "unc"} -> kind = "unix"
    [] p.class \in {"url", "remote"} -> kind = "context"
Resolve(kind, p, base, home) ==
  CASE p.class = "abs" -> p.text
    [] p.class = "home" -> Render(home \o p.segs)
    [] p.class = "rel" -> Render(Take(base, Len(base) - p.up) \o p.segs)
    [] OTHER -> p.text                      \* left as written (only where Enforced)
\* resolving an already resolved path changes nothing: the result is absolute (or left as written)
Idempotent(kind, p, base, home) ==
  LET r == Resolve(kind, p, base, home) IN
  p.class \in {"rel", "home"} => Resolve(kind, [text |-> r, class |-> "abs", up |-> 0, segs |-> <<>>], base, home) = r
=============================================================================
