------------------------------ MODULE MC_Merge ------------------------------
(* Cases for the override rules: for every attribute of the table below, every ordered pair (and, for some, triple) of   *)
(* its alternative values - different spellings, new / same / duplicated keys - as base and override(s), plus !override  *)
(* and !reset; the target document is computed by Merge.  The harness loads [base, overrides...] as several files, as   *)
(* `---` documents of one file, and the target alone: the three projects must be equal.                                *)
EXTENDS Merge

CONSTANTS Triples,    \* BOOLEAN: also base + two overrides
          Cross       \* BOOLEAN: also two attributes in the base, one of them overridden (thorough)

\* the service under test: a name that contains "x-" without being an extension key
SvcKey == "linux-a"
Port(t, p, extra) == M([k \in {"target", "published", "protocol"} \cup DOMAIN extra |->
                          IF k = "target" THEN I(t) ELSE IF k = "published" THEN S(p) ELSE IF k = "protocol" THEN S("tcp") ELSE extra[k]])
Vol(ty, src, tgt, extra) == M([k \in {"type", "source", "target"} \cup DOMAIN extra |->
                          IF k = "type" THEN S(ty) ELSE IF k = "source" THEN S(src) ELSE IF k = "target" THEN S(tgt) ELSE extra[k]])
Mode == [k \in {"mode"} |-> S("host")]
RO == [k \in {"read_only"} |-> B(TRUE)]
Sq2(a, b) == L(<<a, b>>)
Sq1(a) == L(<<a>>)

\* [name, path (below services.a, or from the root when top = TRUE), alternatives]
Attrs == <<
  [n |-> "image", top |-> FALSE, p |-> <<"image">>, alts |-> {S("x"), S("y")}],
  [n |-> "init", top |-> FALSE, p |-> <<"init">>, alts |-> {B(TRUE), B(FALSE)}],
  [n |-> "command", top |-> FALSE, p |-> <<"command">>, alts |-> {S("echo hi"), Sq2(S("run"), S("--now")), Sq1(S("only")), Null}],   \* an explicit null replaces the value like any other
  [n |-> "entrypoint", top |-> FALSE, p |-> <<"entrypoint">>, alts |-> {S("/bin/entry"), Sq2(S("sh"), S("-c")), Null}],
  [n |-> "healthcheck", top |-> FALSE, p |-> <<"healthcheck">>,
     alts |-> {M2("test", S("curl -f localhost"), "interval", S("10s")), M1("test", Sq2(S("CMD"), S("true"))), M2("interval", S("5s"), "retries", I(3))}],
  [n |-> "environment", top |-> FALSE, p |-> <<"environment">>,
     alts |-> {L(<<S("A=2"), S("B=1"), S("C=1"), S("B=2")>>), Sq2(S("A=1"), S("B=2")), M1("A", S("9")), Sq1(S("A")), Sq2(S("C=3"), S("C=4")), M2("B", Null, "D", S("")) }],
  [n |-> "labels", top |-> FALSE, p |-> <<"labels">>, alts |-> {Sq1(S("l1=x")), M2("l1", S("y"), "l2", S("z")), Sq2(S("l2=a"), S("l3"))}],
  [n |-> "build.args", top |-> FALSE, p |-> <<"build", "args">>, alts |-> {Sq1(S("V=1")), M2("V", S("2"), "W", S("3")), Sq1(S("W"))}],
  [n |-> "sysctls", top |-> FALSE, p |-> <<"sysctls">>, alts |-> {M1("net.core.somaxconn", S("1024")), Sq1(S("net.core.somaxconn=2048")), M1("net.ipv4.ip_forward", S("1"))}],
  [n |-> "annotations", top |-> FALSE, p |-> <<"annotations">>, alts |-> {M1("k1", S("v1")), Sq2(S("k1=v2"), S("k2=v3"))}],
  [n |-> "dns", top |-> FALSE, p |-> <<"dns">>, alts |-> {S("1.1.1.1"), Sq2(S("8.8.8.8"), S("1.1.1.1")), Sq1(S("9.9.9.9"))}],
  [n |-> "env_file", top |-> FALSE, p |-> <<"env_file">>, alts |-> {S("./a.env"), Sq2(S("./b.env"), S("./a.env")), Sq1(M2("path", S("./a.env"), "required", B(FALSE)))}],
  [n |-> "label_file", top |-> FALSE, p |-> <<"label_file">>, alts |-> {S("./a.label"), Sq2(S("./b.label"), S("./a.label"))}],
  [n |-> "tmpfs", top |-> FALSE, p |-> <<"tmpfs">>, alts |-> {S("/run"), Sq2(S("/tmp"), S("/run"))}],
  [n |-> "cap_add", top |-> FALSE, p |-> <<"cap_add">>, alts |-> {Sq1(S("NET_ADMIN")), Sq2(S("SYS_TIME"), S("NET_ADMIN"))}],
  [n |-> "expose", top |-> FALSE, p |-> <<"expose">>, alts |-> {Sq1(S("80")), Sq2(S("80"), S("443"))}],
  [n |-> "security_opt", top |-> FALSE, p |-> <<"security_opt">>, alts |-> {Sq1(S("label:a")), Sq2(S("label:a"), S("label:b"))}],
  [n |-> "depends_on", top |-> FALSE, p |-> <<"depends_on">>,
     alts |-> {Sq1(S("db")), M1("db", M2("condition", S("service_healthy"), "restart", B(TRUE))), Sq2(S("cache"), S("db")),
               Sq2(S("cache"), S("extra")), M1("cache", M2("condition", S("service_healthy"), "required", B(FALSE)))}],
  [n |-> "networks", top |-> FALSE, p |-> <<"networks">>, alts |-> {Sq1(S("n1")), M1("n1", M1("aliases", Sq1(S("al")))), Sq2(S("n2"), S("n1")), M1("n2", M1("priority", I(5)))}],
  [n |-> "build", top |-> FALSE, p |-> <<"build">>, alts |-> {S("./ctx"), M2("context", S("./other"), "target", S("prod")), M1("dockerfile", S("Dockerfile.dev"))}],
  [n |-> "logging", top |-> FALSE, p |-> <<"logging">>,
     alts |-> {M2("driver", S("json-file"), "options", M1("max-size", S("1m"))), M2("driver", S("syslog"), "options", M1("tag", S("t"))), M1("options", M1("max-file", S("3")))}],
  [n |-> "ports", top |-> FALSE, p |-> <<"ports">>,
     alts |-> {Sq1(Port(80, "8080", <<>>)), Sq1(Port(80, "8080", Mode)), Sq2(Port(443, "8443", <<>>), Port(80, "8080", <<>>)), Sq1(Port(80, "9090", <<>>))}],
  [n |-> "volumes", top |-> FALSE, p |-> <<"volumes">>,
     alts |-> {Sq1(Vol("volume", "data", "/data", <<>>)), Sq1(Vol("bind", "/host", "/data", RO)), Sq2(Vol("volume", "other", "/other", <<>>), Vol("volume", "other", "/data", <<>>))}],
  [n |-> "secrets", top |-> FALSE, p |-> <<"secrets">>,
     alts |-> {Sq1(S("s1")), Sq1(M2("source", S("s1"), "mode", I(288))), Sq2(S("s2"), S("s1")), Sq1(M2("source", S("s2"), "target", S("/run/secrets/s1")))}],
  [n |-> "configs", top |-> FALSE, p |-> <<"configs">>, alts |-> {Sq1(S("c1")), Sq1(M2("source", S("c1"), "target", S("/etc/c1"))), Sq1(M2("source", S("c2"), "target", S("/c1")))}],
  [n |-> "ipam config", top |-> TRUE, p |-> <<"networks", "n1", "ipam", "config">>,
     alts |-> {Sq2(M1("subnet", S("10.0.0.0/24")), M1("subnet", S("10.0.1.0/24"))), Sq1(M1("subnet", S("10.0.2.0/24"))), Sq1(M2("subnet", S("10.0.1.0/24"), "gateway", S("10.0.1.1")))}],
  [n |-> "devices", top |-> FALSE, p |-> <<"devices">>,
     alts |-> {Sq2(S("/dev/a:/dev/a:rwm"), S("/dev/b:/dev/b:rwm")), Sq2(S("/dev/c:/dev/c:rwm"), S("/dev/a:/dev/a:r")), Sq1(S("/dev/d")), Sq2(S("/dev/e:/dev/d"), S("/dev/f:/dev/b"))}],
  [n |-> "ulimits", top |-> FALSE, p |-> <<"ulimits">>, alts |-> {M1("nofile", I(100)), M1("nofile", M2("soft", I(10), "hard", I(20))), M1("nproc", I(5))}],
  [n |-> "deploy.limits", top |-> FALSE, p |-> <<"deploy", "resources", "limits">>, alts |-> {M1("cpus", S("0.5")), M1("memory", S("64M")), M2("cpus", S("1.5"), "pids", I(10))}],
  [n |-> "secrets.labels", top |-> TRUE, p |-> <<"secrets", "s1", "labels">>, alts |-> {Sq1(S("a=1")), M2("a", S("2"), "b", S("3"))}],
  [n |-> "configs.labels", top |-> TRUE, p |-> <<"configs", "c1", "labels">>, alts |-> {Sq1(S("a=1")), M2("a", S("2"), "b", S("3"))}],
  [n |-> "build.ssh", top |-> FALSE, p |-> <<"build", "ssh">>, alts |-> {Sq1(S("default")), Sq1(S("k=/p")), M1("k", S("/q")), Sq2(S("default"), S("j=/r"))}],
  [n |-> "build.ulimits", top |-> FALSE, p |-> <<"build", "ulimits">>, alts |-> {M1("nofile", I(100)), M1("nofile", M2("soft", I(10), "hard", I(20))), M1("nproc", I(5))}],
  [n |-> "extra_hosts", top |-> FALSE, p |-> <<"extra_hosts">>, alts |-> {M1("h", L(<<S("10.0.0.2"), S("10.0.0.10")>>)), Sq1(S("g=1.1.1.1")), Sq2(S("h=10.0.0.10"), S("h=10.0.0.3")), M1("g", S("2.2.2.2"))}],
  \* a resource whose name starts with x- is a resource like any other (its name is the user's, not an extension key)
  [n |-> "labels of a volume named x-data", top |-> TRUE, p |-> <<"volumes", "x-data", "labels">>, alts |-> {Sq1(S("a=1")), M2("a", S("2"), "b", S("3"))}],
  [n |-> "driver_opts of a network named x-net", top |-> TRUE, p |-> <<"networks", "x-net", "driver_opts">>, alts |-> {M1("o1", S("1")), M2("o1", S("2"), "o2", S("3"))}],
  [n |-> "networks.labels", top |-> TRUE, p |-> <<"networks", "n1", "labels">>, alts |-> {Sq1(S("a=1")), M2("a", S("2"), "b", S("3"))}],
  [n |-> "volumes.labels", top |-> TRUE, p |-> <<"volumes", "data", "labels">>, alts |-> {Sq1(S("a=1")), M2("a", S("2"), "b", S("3"))}],
  [n |-> "networks.driver_opts", top |-> TRUE, p |-> <<"networks", "n1", "driver_opts">>, alts |-> {M1("o1", S("1")), M2("o1", S("2"), "o2", S("3"))}]
>>

RECURSIVE Nest(_, _)
Nest(path, val) == IF path = <<>> THEN val ELSE M1(Head(path), Nest(Tail(path), val))
Img == M1("image", S("img"))
Skeleton ==
  M([k \in {"services", "networks", "volumes", "secrets", "configs"} |->
     CASE k = "services" -> M([s \in {SvcKey, "db", "cache", "extra"} |-> Img])
       [] k = "networks" -> M([s \in {"n1", "n2"} |-> EmptyM])
       [] k = "volumes"  -> M([s \in {"data", "other"} |-> EmptyM])
       [] k = "secrets"  -> M([s \in {"s1", "s2"} |-> M1("file", S("./sec"))])
       [] k = "configs"  -> M([s \in {"c1", "c2"} |-> M1("file", S("./cfg"))])])
Place(a, val) == Nest((IF a.top THEN <<>> ELSE <<"services", SvcKey>>) \o a.p, val)
Base(a, val) == Over(Skeleton, Place(a, val), <<>>)

\* a document that does not mention the attribute at all
EmptyDocFor(a) == IF a.top THEN M1("services", M1(SvcKey, M1("image", S("img")))) ELSE M1("services", M1(SvcKey, M1("hostname", S("h"))))
VARIABLE cs
Case(a, b, overs) ==
  LET base == Base(a, b) IN
  [attr |-> a.n, base |-> base, overs |-> overs, target |-> OverrideAll(base, overs), path |-> (IF a.top THEN <<>> ELSE <<"services", SvcKey>>) \o a.p]
Init == \E i \in 1..Len(Attrs) : cs = [seed |-> i]
IsSeed == "seed" \in DOMAIN cs
Next == /\ IsSeed
        /\ LET a == Attrs[cs.seed] IN
           \/ \E b \in a.alts : \E o \in a.alts : cs' = Case(a, b, <<Place(a, o)>>)
           \/ \E b \in a.alts : \E o \in a.alts \ {Null} : cs' = Case(a, b, <<Place(a, Tagged(o, "override"))>>)   \* (`!override null`: a tag on nothing - not a value the statement speaks of)
           \/ \E b \in a.alts : cs' = Case(a, b, <<Place(a, Tagged(Null, "reset"))>>)
           \/ \E b \in a.alts : \E o \in a.alts : cs' = Case(a, b, <<Place(a, Tagged(Null, "reset")), Place(a, o)>>)
           \/ Triples /\ \E b \in a.alts : \E o1 \in a.alts : \E o2 \in a.alts : cs' = Case(a, b, <<Place(a, o1), Place(a, o2)>>)
           \* a tag in a document that is not the last one: its effect must not outlive that document
           \/ Triples /\ \E b \in a.alts : \E o1 \in a.alts \ {Null} : \E o2 \in a.alts : cs' = Case(a, b, <<Place(a, Tagged(o1, "override")), Place(a, o2)>>)
           \/ Triples /\ \E b \in a.alts : \E o2 \in a.alts : cs' = Case(a, b, <<Place(a, Tagged(Null, "reset")), EmptyDocFor(a), Place(a, o2)>>)
\* two attributes in the base (the second one merged in by the specification itself), the override mentions the first only
CrossCase(a1, b1, a2, b2, o) ==
  LET base == OverrideAll(Base(a1, b1), <<Place(a2, b2)>>) IN
  [attr |-> a1.n, base |-> base, overs |-> <<Place(a1, o)>>, target |-> OverrideAll(base, <<Place(a1, o)>>),
   path |-> (IF a1.top THEN <<>> ELSE <<"services", SvcKey>>) \o a1.p]
CrossNext == /\ IsSeed /\ Cross
             /\ \E j \in 1..Len(Attrs) : j # cs.seed /\ Attrs[j].n # Attrs[cs.seed].n /\
                  \E b1 \in Attrs[cs.seed].alts : \E o \in Attrs[cs.seed].alts :
                    LET b2 == CHOOSE x \in Attrs[j].alts : TRUE IN cs' = CrossCase(Attrs[cs.seed], b1, Attrs[j], b2, o)
Spec == Init /\ [][Next \/ CrossNext]_cs

\* ---- laws of the specification
RECURSIVE At(_, _)
At(x, path) == IF path = <<>> THEN x ELSE IF ~IsM(x) \/ Head(path) \notin Keys(x) THEN [t |-> "absent"] ELSE At(Get(x, Head(path)), Tail(path))
\* anything the overrides do not mention is preserved: every other service, resource and attribute of the base
Preserve == IsSeed \/
  /\ \A k \in Keys(cs.base) : \A n \in Keys(Get(cs.base, k)) :
        (<<k, n>> # SubSeq(cs.path, 1, 2)) => At(cs.target, <<k, n>>) = At(cs.base, <<k, n>>)
  /\ At(cs.target, <<"services", SvcKey, "image">>) = At(cs.base, <<"services", SvcKey, "image">>) \/ cs.attr = "image"
\* a document consisting of !reset alone removes the attribute
ResetRemoves == IsSeed \/ (Len(cs.overs) = 1 /\ HasTag(At(cs.overs[1], cs.path), "reset") => At(cs.target, cs.path) = [t |-> "absent"])
\* !override replaces without merging
OverrideReplaces == IsSeed \/ (Len(cs.overs) = 1 /\ HasTag(At(cs.overs[1], cs.path), "override") => At(cs.target, cs.path) = Untag(At(cs.overs[1], cs.path)))
Laws == RulesDisjoint /\ Preserve /\ ResetRemoves /\ OverrideReplaces
=============================================================================
