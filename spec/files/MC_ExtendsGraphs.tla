-------------------------- MODULE MC_ExtendsGraphs --------------------------
(* Every reference graph: N services over two files, each extending nothing, another service (same or other file)  *)
(* or a missing service / file.  TLC checks termination of the resolution and error <=> cyclic or missing.         *)
EXTENDS Extends
CONSTANTS N
Nodes == 1..N
Names == <<"a", "b", "c", "d">>
Dirs == <<<<>>, <<"sub">>>>
VARIABLES g, expectError
\* loading the main file resolves every service of file 1
Expect(gr) == \E n \in Nodes : gr[n].file = 1 /\ IsErrV(Resolve(gr, Dirs, n, {}))
Init == \E file \in [Nodes -> {1, 2}] : \E ext \in [Nodes -> (-2)..N] :
          /\ file[1] = 1
          /\ g = [n \in Nodes |-> [file |-> file[n], name |-> Names[n], ext |-> ext[n], local |-> M1("image", S("img"))]]
          /\ expectError = Expect(g)
Next == UNCHANGED <<g, expectError>>
Spec == Init /\ [][Next]_<<g, expectError>>
Exact == \A n \in Nodes : ErrorIffUnsound(g, Dirs, n)
=============================================================================
