-------------------------- MODULE MC_ExtendsGraphs --------------------------
(* Every reference graph: N services over two files, each extending nothing, another service (same or other file)  *)
(* (-3: a reference whose file name is the empty string, e.g. an unset variable - not "this file") or a missing service / file.  TLC checks termination of the resolution and error <=> cyclic or missing.         *)
EXTENDS Extends
CONSTANTS N, ChainOnly   \* ChainOnly: only the graphs whose services are all on the chain that starts at the first one
Nodes == 1..N
Names == <<"a", "b", "c", "d", "e">>
Dirs == <<<<>>, <<"sub">>, <<"SUB">>>>     \* file 3 (chains only): the same file name in a directory that differs by letter case
VARIABLES g, expectError
\* loading the main file resolves every service of file 1
Expect(gr) == \E n \in Nodes : gr[n].file = 1 /\ IsErrV(Resolve(gr, Dirs, n, {}))
\* reuse: the services of file 2 carry the names of the services of file 1 (the k-th of file 2 that of the k-th of file 1,
\* while there are any): a reference is to a service of a file, never to a name alone
Rank(file, n) == Cardinality({m \in Nodes : m < n /\ file[m] = file[n]}) + 1
Kth(file, f, k) == CHOOSE m \in Nodes : file[m] = f /\ Rank(file, m) = k
NameOf(file, reuse, n) == IF reuse /\ file[n] # 1 /\ Rank(file, n) <= Cardinality({m \in Nodes : file[m] = 1}) THEN Names[Kth(file, 1, Rank(file, n))] ELSE Names[n]
RECURSIVE ReachFrom(_, _, _)
ReachFrom(ext, R, k) == IF k = 0 THEN R ELSE ReachFrom(ext, R \cup {ext[n] : n \in {m \in R : ext[m] > 0}}, k - 1)
Init == \E file \in [Nodes -> (IF ChainOnly THEN {1, 2, 3} ELSE {1, 2})] : \E ext \in [Nodes -> (-3)..N] : \E reuse \in BOOLEAN :
          /\ file[1] = 1
          /\ reuse => \E n \in Nodes : file[n] # 1
          /\ ChainOnly => ReachFrom(ext, {1}, N) = Nodes
          /\ g = [n \in Nodes |-> [file |-> file[n], name |-> NameOf(file, reuse, n), ext |-> ext[n], local |-> M1("image", S("img"))]]
          /\ expectError = Expect(g)
Next == UNCHANGED <<g, expectError>>
Spec == Init /\ [][Next]_<<g, expectError>>
Exact == \A n \in Nodes : ErrorIffUnsound(g, Dirs, n)
=============================================================================
