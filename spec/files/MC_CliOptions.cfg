SPECIFICATION Spec
CONSTANTS Level = 0
 MaxSteps = 3
INVARIANTS Laws
VIEW View
CONSTRAINT Bound
CHECK_DEADLOCK FALSE
