------------------------------ MODULE Extends ------------------------------
(***************************************************************************)
(* `extends` (loader/extends.go, override/extends.go, paths/extends.go).   *)
(* A service that extends another equals the base's fully resolved         *)
(* definition with the extending service's own attributes applied on top   *)
(* by the override rules (Merge.tla), without `extends`; relative paths    *)
(* inherited from a base in another file are anchored at that file's       *)
(* directory; a missing base and a cyclic chain are errors.                *)
(*                                                                         *)
(* A universe is a function from node ids to                               *)
(*   [file, name, local (tagged mapping: the service's own attributes),    *)
(*    ext (0 none | node id | -1 missing service | -2 missing file)]       *)
(* files have directories relative to the project directory.               *)
(***************************************************************************)
EXTENDS Merge, Integers

ErrV == [t |-> "error"]
IsErrV(x) == x.t = "error"

\* relative directory of file g as seen from the directory of file f ("." when the same)
\* dirs: function file -> sequence of path segments below the project directory
RelDir(dirs, f, g) ==
  LET a == dirs[f]  b == dirs[g] IN
  \* only descending or equal placements are generated: b extends a
  SubSeq(b, Len(a) + 1, Len(b))
RECURSIVE JoinSegs(_)
JoinSegs(segs) == IF segs = <<>> THEN "" ELSE segs[1] \o (IF Len(segs) > 1 THEN "/" \o JoinSegs(Tail(segs)) ELSE "")
\* "./x" anchored at a sub-directory
Anchor(p, segs) == IF segs = <<>> \/ Len(p) < 2 \/ SubSeq(p, 1, 2) # "./" THEN p ELSE "./" \o JoinSegs(segs) \o "/" \o SubSeq(p, 3, Len(p))

\* the path-bearing attributes of a service (PathsResolve has the full table; these are the ones the generator uses)
AnchorEnvFile(e, segs) == IF e.t = "s" THEN S(Anchor(e.v, segs)) ELSE IF IsM(e) /\ Has(e, "path") THEN Put(e, "path", S(Anchor(Get(e, "path").v, segs))) ELSE e
AnchorVolume(e, segs) == IF IsM(e) /\ Has(e, "type") /\ Get(e, "type").v = "bind" /\ Has(e, "source") THEN Put(e, "source", S(Anchor(Get(e, "source").v, segs))) ELSE e
ReAnchor(svc, segs) ==
  IF segs = <<>> THEN svc ELSE
  M([k \in Keys(svc) |->
     LET x == Get(svc, k) IN
     CASE k = "build" -> (IF x.t = "s" THEN S(Anchor(x.v, segs)) ELSE IF Has(x, "context") THEN Put(x, "context", S(Anchor(Get(x, "context").v, segs))) ELSE x)
       [] k = "env_file" -> (IF IsL(x) THEN L([i \in 1..Len(x.v) |-> AnchorEnvFile(x.v[i], segs)]) ELSE AnchorEnvFile(x, segs))
       [] k = "label_file" -> (IF IsL(x) THEN L([i \in 1..Len(x.v) |-> S(Anchor(x.v[i].v, segs))]) ELSE S(Anchor(x.v, segs)))
       [] k = "volumes" -> L([i \in 1..Len(x.v) |-> AnchorVolume(x.v[i], segs)])
       [] OTHER -> x])

\* the fully resolved definition of node n, as seen from n's own file; chain = nodes being resolved
RECURSIVE Resolve(_, _, _, _)
Resolve(U, dirs, n, chain) ==
  LET nd == U[n] IN
  IF n \in chain THEN ErrV
  ELSE IF nd.ext = 0 THEN nd.local
  ELSE IF nd.ext < 0 THEN ErrV
  ELSE LET base == Resolve(U, dirs, nd.ext, chain \cup {n}) IN
       IF IsErrV(base) THEN ErrV
       ELSE OverrideAt(ReAnchor(base, RelDir(dirs, nd.file, U[nd.ext].file)), nd.local, <<"services", nd.name>>)

\* independent definition of "the chain from n is sound"
RECURSIVE ChainOK(_, _, _)
ChainOK(U, n, k) == IF k = 0 THEN FALSE
                    ELSE IF U[n].ext = 0 THEN TRUE
                    ELSE IF U[n].ext < 0 THEN FALSE
                    ELSE ChainOK(U, U[n].ext, k - 1)
ErrorIffUnsound(U, dirs, n) == IsErrV(Resolve(U, dirs, n, {})) <=> ~ChainOK(U, n, Cardinality(DOMAIN U) + 1)
=============================================================================
