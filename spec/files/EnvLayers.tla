----------------------------- MODULE EnvLayers -----------------------------
(***************************************************************************)
(* Layering of a service's environment and labels (C16).                   *)
(*   environment = env_file entries in order (later file overrides         *)
(*   earlier), overridden by `environment` entries; an `environment` key   *)
(*   without value takes the project environment's value if present (and   *)
(*   stays valueless otherwise); values in env files may reference earlier *)
(*   env files, the project environment and earlier lines.                 *)
(*   labels = label_file entries in order, overridden by `labels`.         *)
(* A missing env file is an error unless marked not required; discarding   *)
(* env files removes only the references.                                  *)
(* Values: [set |-> BOOLEAN, v |-> text]; a key that ends up valueless is  *)
(* [set |-> TRUE, nil |-> TRUE].                                           *)
(***************************************************************************)
EXTENDS Naturals, Sequences, FiniteSets, TLC

Unset == [set |-> FALSE, v |-> ""]
V(x) == [set |-> TRUE, v |-> x]
Nil == [set |-> TRUE, v |-> "<nil>"]

\* files: sequence of [state: "missing-required" | "missing-optional" | "present", k: value of K in it, r: BOOLEAN (has the line R=${K} after K's line)]
RECURSIVE LastDef(_)
LastDef(fs) == IF fs = <<>> THEN Unset
               ELSE LET f == fs[Len(fs)] IN
                    IF f.state = "present" /\ f.k.set THEN f.k ELSE LastDef(SubSeq(fs, 1, Len(fs) - 1))
MissingRequired(fs) == \E i \in 1..Len(fs) : fs[i].state = "missing-required"

\* entry: "none" | "value" | "empty" | "valueless"
FinalK(penv, fs, entry) ==
  CASE entry = "value" -> V("e")
    [] entry = "empty" -> V("")
    [] entry = "valueless" -> (IF penv.set THEN penv ELSE Nil)
    [] entry = "none" -> LastDef(fs)

\* R=${K} written in file i after K's own line (if any): earlier files first, then the project environment, then earlier lines
RefValue(penv, fs, i) ==
  LET earlier == LastDef(SubSeq(fs, 1, i - 1)) IN
  IF earlier.set THEN earlier.v ELSE IF penv.set THEN penv.v ELSE IF fs[i].k.set THEN fs[i].k.v ELSE ""
FinalR(penv, fs) ==
  LET S == {i \in 1..Len(fs) : fs[i].state = "present" /\ fs[i].r} IN
  IF S = {} THEN Unset ELSE LET i == CHOOSE x \in S : \A y \in S : y <= x IN V(RefValue(penv, fs, i))

FinalLabel(lfs, entry) == IF entry = "value" THEN V("e") ELSE LastDef(lfs)
\* R=${K} in a label file: labels of earlier label files first, then earlier lines (the project environment is not consulted)
LabelRefValue(lfs, i) ==
  LET earlier == LastDef(SubSeq(lfs, 1, i - 1)) IN
  IF earlier.set THEN earlier.v ELSE IF lfs[i].k.set THEN lfs[i].k.v ELSE ""
FinalLabelR(lfs) ==
  LET S == {i \in 1..Len(lfs) : lfs[i].state = "present" /\ lfs[i].r} IN
  IF S = {} THEN Unset ELSE LET i == CHOOSE x \in S : \A y \in S : y <= x IN V(LabelRefValue(lfs, i))
\* a second service that lists a file of its own first and then the last file of the first service: each service's
\* layering is computed from its own list only
OwnThenShared(own, fs) == <<[state |-> "present", k |-> V(own), r |-> FALSE]>> \o (IF fs = <<>> THEN <<>> ELSE <<fs[Len(fs)]>>)

\* pairwise precedence, as laws of the specification
Laws(penv, fs, entry) ==
  /\ (entry = "value" => FinalK(penv, fs, entry) = V("e"))
  /\ (entry = "none" /\ Len(fs) >= 2 /\ fs[Len(fs)].state = "present" /\ fs[Len(fs)].k.set => FinalK(penv, fs, entry) = fs[Len(fs)].k)
  /\ (entry = "valueless" /\ penv.set => FinalK(penv, fs, entry) = penv)
=============================================================================
