----------------------------- MODULE MC_Extends -----------------------------
(* (i) every reference graph on up to 3 services (each extends none / another / a missing one), over 1-2 files: error   *)
(*     iff cyclic or missing.  (ii) chains a -> b [-> c] with one attribute placed along the chain in every way, the     *)
(*     bases in the same file, another file of the same directory, or a file of a sub-directory: the flattened target    *)
(*     document is computed by Extends/Merge and compared by the harness with the load of the real files.              *)
EXTENDS Extends
CONSTANTS Depth   \* 2 or 3: longest chain

Sq1(a) == L(<<a>>)
Sq2(a, b) == L(<<a, b>>)
BindVol(src, tgt) == M3("type", S("bind"), "source", S(src), "target", S(tgt))
\* [n, key, alternatives] - one attribute of the service, placed along the chain
Attrs == <<
  [n |-> "image", k |-> "image", alts |-> {S("img1"), S("img2")}],
  [n |-> "command", k |-> "command", alts |-> {S("echo hi"), Sq2(S("run"), S("x"))}],
  [n |-> "environment", k |-> "environment", alts |-> {Sq2(S("A=1"), S("B=2")), M1("A", S("9")), Sq1(S("C"))}],
  [n |-> "labels", k |-> "labels", alts |-> {M1("l1", S("x")), Sq2(S("l1=y"), S("l2=z"))}],
  [n |-> "dns", k |-> "dns", alts |-> {S("1.1.1.1"), Sq2(S("8.8.8.8"), S("1.1.1.1"))}],
  [n |-> "ports", k |-> "ports", alts |-> {Sq1(M3("target", I(80), "published", S("8080"), "protocol", S("tcp"))), Sq1(M3("target", I(80), "published", S("9090"), "protocol", S("tcp")))}],
  [n |-> "build", k |-> "build", alts |-> {S("./ctx"), M2("context", S("./other"), "target", S("prod")), M1("dockerfile", S("Dockerfile.dev"))}],
  [n |-> "env_file", k |-> "env_file", alts |-> {S("./a.env"), Sq1(M2("path", S("./b.env"), "required", B(FALSE)))}],
  [n |-> "volumes", k |-> "volumes", alts |-> {Sq1(BindVol("./data", "/data")), Sq1(BindVol("./other", "/data")), Sq1(BindVol("./more", "/more"))}],
  [n |-> "reset", k |-> "environment", alts |-> {Sq1(S("A=1")), Tagged(Null, "reset")}]
>>
Names == <<"a", "b", "c">>
Absent == [t |-> "absent"]
\* placement of the bases: file of b, file of c  (file 1 = main, in the project directory; 2 = other file of the project directory; 3 = file in sub/; 4 = file in sub/deep/)
Dirs == <<<<>>, <<>>, <<"sub">>, <<"sub", "deep">>>>
Placements == {<<1, 1, 1>>, <<1, 2, 2>>, <<1, 3, 3>>, <<1, 1, 3>>, <<1, 3, 4>>, <<1, 2, 3>>}

Local(a, alt) == IF alt = Absent THEN M1("image", S("base")) ELSE M2("image", S("base"), a.k, alt)
LocalOf(a, alt) == IF a.k = "image" THEN (IF alt = Absent THEN EmptyM ELSE M1("image", alt)) ELSE (IF alt = Absent THEN EmptyM ELSE M1(a.k, alt))

VARIABLE cs
Init == \E i \in 1..Len(Attrs) : cs = [seed |-> i]
IsSeed == "seed" \in DOMAIN cs
Universe(a, alts, place, d) ==
  [n \in 1..d |-> [file |-> place[n], name |-> Names[n], ext |-> (IF n < d THEN n + 1 ELSE 0),
                   local |-> (IF n = d /\ a.k # "image" THEN Put(LocalOf(a, alts[n]), "image", S("base")) ELSE LocalOf(a, alts[n]))]]
Next == /\ IsSeed
        /\ LET a == Attrs[cs.seed] IN
           \E d \in 2..Depth : \E place \in Placements : \E alts \in [1..d -> a.alts \cup {Absent}] :
              LET U == Universe(a, alts, place, d)
                  r == [n \in {m \in 1..d : place[m] = 1} |-> Resolve(U, Dirs, n, {})] IN
              /\ \E n \in 1..d : alts[n] # Absent
              \* the same env file named at two levels of a chain: where the single entry sits (and so which file's values win)
              \* differs between same-file and other-file bases - the statement does not fix it; kept out of the enforced domain
              /\ (a.n = "env_file" => \A i, j \in 1..d : (i # j /\ alts[i] # Absent) => alts[i] # alts[j])
              /\ ~HasTag(alts[d], "reset")    \* a reset with nothing below it is not a chain case
              /\ cs' = [kind |-> "chain", attr |-> a.n, depth |-> d, place |-> SubSeq(place, 1, d), nodes |-> U, target |-> r]
Spec == Init /\ [][Next]_cs
ChainLaws == IsSeed \/ \A n \in DOMAIN cs.target : ~IsErrV(cs.target[n])
=============================================================================
