----------------------------- MODULE MC_Extends -----------------------------
(* (i) every reference graph on up to 3 services (each extends none / another / a missing one), over 1-2 files: error   *)
(*     iff cyclic or missing.  (ii) chains a -> b [-> c] with one attribute placed along the chain in every way, the     *)
(*     bases in the same file, another file of the same directory, or a file of a sub-directory: the flattened target    *)
(*     document is computed by Extends/Merge and compared by the harness with the load of the real files.              *)
EXTENDS Extends
CONSTANTS Depth   \* 2 or 3: longest chain

Sq1(a) == L(<<a>>)
Sq2(a, b) == L(<<a, b>>)
BindVol(src, tgt) == M3("type", S("bind"), "source", S(src), "target", S(tgt))
\* [n, key, alternatives] - one attribute of the service, placed along the chain
Attrs == <<
  [n |-> "image", k |-> "image", alts |-> {S("img1"), S("img2")}],
  [n |-> "command", k |-> "command", alts |-> {S("echo hi"), Sq2(S("run"), S("x")), Null}],
  [n |-> "environment", k |-> "environment", alts |-> {Sq2(S("A=1"), S("B=2")), M1("A", S("9")), Sq1(S("C"))}],
  [n |-> "labels", k |-> "labels", alts |-> {M1("l1", S("x")), Sq2(S("l1=y"), S("l2=z"))}],
  [n |-> "dns", k |-> "dns", alts |-> {S("1.1.1.1"), Sq2(S("8.8.8.8"), S("1.1.1.1"))}],
  [n |-> "ports", k |-> "ports", alts |-> {Sq1(M3("target", I(80), "published", S("8080"), "protocol", S("tcp"))), Sq1(M3("target", I(80), "published", S("9090"), "protocol", S("tcp")))}],
  [n |-> "build", k |-> "build", alts |-> {S("./ctx"), M2("context", S("./other"), "target", S("prod")), M1("dockerfile", S("Dockerfile.dev"))}],
  [n |-> "env_file", k |-> "env_file", alts |-> {S("./a.env"), Sq1(M2("path", S("./b.env"), "required", B(FALSE)))}],
  [n |-> "volumes", k |-> "volumes", alts |-> {Sq1(BindVol("./data", "/data")), Sq1(BindVol("./other", "/data")), Sq1(BindVol("./more", "/more"))}],
  [n |-> "logging", k |-> "logging", alts |-> {M2("driver", S("json-file"), "options", M1("max-size", S("1m"))), M1("options", M1("max-file", S("3"))), M1("driver", S("json-file")), M2("driver", S("syslog"), "options", M1("tag", S("t")))}],
  [n |-> "healthcheck", k |-> "healthcheck", alts |-> {M2("test", Sq2(S("CMD"), S("true")), "interval", S("10s")), M1("test", S("curl -f localhost")), M1("retries", I(3))}],
  \* zdep: a service the harness adds to the main file of every case
  [n |-> "depends_on", k |-> "depends_on", alts |-> {Sq1(S("zdep")), M1("zdep", M1("condition", S("service_healthy"))), M1("zdep", M2("condition", S("service_started"), "required", B(FALSE)))}],
  [n |-> "reset", k |-> "environment", alts |-> {Sq1(S("A=1")), Tagged(Null, "reset")}],
  [n |-> "override", k |-> "environment", alts |-> {Sq2(S("A=1"), S("B=2")), Tagged(Sq1(S("A=9")), "override")}],
  [n |-> "override-ports", k |-> "ports", alts |-> {Sq1(M3("target", I(80), "published", S("8080"), "protocol", S("tcp"))), Tagged(Sq1(M3("target", I(81), "published", S("9090"), "protocol", S("tcp"))), "override")}]
>>
Names == <<"web.api", "b", "c.v2">>     \* service names may contain dots (a path separator inside the library)
Absent == [t |-> "absent"]
\* placement of the bases: file of b, file of c  (file 1 = main, in the project directory; 2 = other file of the project directory; 3 = file in sub/; 4 = file in sub/deep/)
Dirs == <<<<>>, <<>>, <<"sub">>, <<"sub", "deep">>>>
Placements == {<<1, 1, 1>>, <<1, 2, 2>>, <<1, 3, 3>>, <<1, 1, 3>>, <<1, 3, 4>>, <<1, 2, 3>>}

Local(a, alt) == IF alt = Absent THEN M1("image", S("base")) ELSE M2("image", S("base"), a.k, alt)
LocalOf(a, alt) == IF a.k = "image" THEN (IF alt = Absent THEN EmptyM ELSE M1("image", alt)) ELSE (IF alt = Absent THEN EmptyM ELSE M1(a.k, alt))

VARIABLE cs
Init == \E i \in 1..Len(Attrs) : cs = [seed |-> i]
IsSeed == "seed" \in DOMAIN cs
\* same: the base in another file carries the same service name as the service extending it
Universe(a, alts, place, d, same) ==
  [n \in 1..d |-> [file |-> place[n], name |-> (IF same /\ n = 2 /\ place[2] # place[1] THEN Names[1] ELSE Names[n]), ext |-> (IF n < d THEN n + 1 ELSE 0),
                   isnull |-> FALSE,
                   local |-> (IF n = d /\ a.k # "image" THEN Put(LocalOf(a, alts[n]), "image", S("base")) ELSE LocalOf(a, alts[n]))]]
\* the last base is declared without any content (`name:` and nothing else) in a file other than the main one: extending it gives the
\* extending service's own attributes
NullBaseUniverse(a, alts, place, d) ==
  [n \in 1..d |-> [file |-> place[n], name |-> Names[n], ext |-> (IF n < d THEN n + 1 ELSE 0), isnull |-> n = d,
                   local |-> (IF n = d THEN EmptyM ELSE IF n = d - 1 /\ a.k # "image" THEN Put(LocalOf(a, alts[n]), "image", S("base")) ELSE LocalOf(a, alts[n]))]]
Next == /\ IsSeed
        /\ LET a == Attrs[cs.seed] IN
           \E d \in 2..Depth : \E place \in Placements : \E alts \in [1..d -> a.alts \cup {Absent}] : \E same \in BOOLEAN :
              LET U == Universe(a, alts, place, d, same)
                  r == [n \in {m \in 1..d : place[m] = 1} |-> Resolve(U, Dirs, n, {})] IN
              /\ \E n \in 1..d : alts[n] # Absent
              /\ (same => (place[2] # place[1] /\ d = 3))
              \* the same env file named at two levels of a chain: where the single entry sits (and so which file's values win)
              \* differs between same-file and other-file bases - the statement does not fix it; kept out of the enforced domain
              /\ (a.n = "env_file" => \A i, j \in 1..d : (i # j /\ alts[i] # Absent) => alts[i] # alts[j])
              /\ ~HasTag(alts[d], "reset")    \* a reset with nothing below it is not a chain case
              /\ cs' = [kind |-> (IF same THEN "chain-same-name" ELSE "chain"), attr |-> a.n, depth |-> d, place |-> SubSeq(place, 1, d), nodes |-> U, target |-> r]
\* a fork: left (a) and right (d) both extend mid (b), which extends root (c); all in the main file; an appended attribute
ForkAttrs == <<
  [n |-> "security_opt", k |-> "security_opt", alts |-> {L(<<S("label:r1"), S("label:r2")>>), Sq1(S("label:m")), Sq1(S("label:l")), Sq1(S("label:x"))}],
  [n |-> "cap_add", k |-> "cap_add", alts |-> {L(<<S("R1"), S("R2")>>), Sq1(S("M")), Sq1(S("L")), Sq1(S("X"))}],
  [n |-> "volumes_from", k |-> "volumes_from", alts |-> {L(<<S("container:r1"), S("container:r2")>>), Sq1(S("container:m")), Sq1(S("container:l")), Sq1(S("container:x"))}] >>
ForkNames == <<"a", "b", "c", "d">>
ForkNext ==
  /\ IsSeed /\ cs.seed <= Len(ForkAttrs)
  /\ LET a == ForkAttrs[cs.seed] IN
     \E alts \in [1..4 -> a.alts \cup {Absent}] :
        LET U == [n \in 1..4 |-> [file |-> 1, name |-> ForkNames[n], ext |-> (CASE n = 1 -> 2 [] n = 2 -> 3 [] n = 3 -> 0 [] n = 4 -> 2), isnull |-> FALSE,
                                   local |-> (IF n = 3 THEN Put(LocalOf(a, alts[n]), "image", S("base")) ELSE LocalOf(a, alts[n]))]]
            r == [n \in 1..4 |-> Resolve(U, Dirs, n, {})] IN
        /\ alts[1] # Absent /\ alts[4] # Absent /\ alts[1] # alts[4]
        /\ cs' = [kind |-> "fork", attr |-> a.n, depth |-> 4, place |-> <<1, 1, 1, 1>>, nodes |-> U, target |-> r]
NullBaseNext ==
  /\ IsSeed
  /\ LET a == Attrs[cs.seed] IN
     \E d \in 2..Depth : \E place \in Placements : \E alts \in [1..d -> a.alts \cup {Absent}] :
        LET U == NullBaseUniverse(a, alts, place, d)
            r == [n \in {m \in 1..d : place[m] = 1} |-> Resolve(U, Dirs, n, {})] IN
        /\ place[d] # 1 /\ alts[d] = Absent /\ \E n \in 1..(d - 1) : alts[n] # Absent
        /\ (a.n = "env_file" => \A i, j \in 1..d : (i # j /\ alts[i] # Absent) => alts[i] # alts[j])
        /\ \A n \in 1..d : ~HasTag(alts[n], "reset")
        /\ (a.k = "image" => alts[d - 1] # Absent)
        /\ cs' = [kind |-> "chain-null-base", attr |-> a.n, depth |-> d, place |-> SubSeq(place, 1, d), nodes |-> U, target |-> r]
\* a bystander: a service that is not on the chain but carries the name of one that is, in the other file, and resets the attribute.
\* A `!reset` written in a file speaks of that file's services: the bystander of the main file (named like the first base, which
\* lives in another file) and the bystander of the base's file (named like the extending service) change nothing for the chain.
BystanderUniverse(a, alts, place, d, where) ==
  LET U == Universe(a, alts, place, d, FALSE) IN
  [n \in 1..(d + 1) |-> IF n <= d THEN U[n]
     ELSE [file |-> (IF where = "main" THEN 1 ELSE place[2]), name |-> (IF where = "main" THEN Names[2] ELSE Names[1]), ext |-> 0, isnull |-> FALSE,
           local |-> M2("image", S("base"), a.k, Tagged(Null, "reset"))]]
BystanderNext ==
  /\ IsSeed
  /\ LET a == Attrs[cs.seed] IN
     \E d \in 2..Depth : \E place \in Placements : \E alts \in [1..d -> a.alts \cup {Absent}] : \E where \in {"main", "other"} :
        LET U == BystanderUniverse(a, alts, place, d, where)
            r == [n \in {m \in 1..(d + 1) : U[m].file = 1} |-> Resolve(U, Dirs, n, {})] IN
        /\ a.k # "image" /\ place[2] # 1
        /\ \A n \in 1..d : ~HasTag(alts[n], "reset")
        /\ (where = "main" => (d = 3 /\ alts[3] # Absent))
        /\ (where = "other" => alts[d] # Absent)
        /\ (a.n = "env_file" => \A i, j \in 1..d : (i # j /\ alts[i] # Absent) => alts[i] # alts[j])
        /\ cs' = [kind |-> "chain-bystander-" \o where, attr |-> a.n, depth |-> d, place |-> SubSeq(place, 1, d), nodes |-> U, target |-> r]
Spec == Init /\ [][Next \/ ForkNext \/ NullBaseNext \/ BystanderNext]_cs
ChainLaws == IsSeed \/ \A n \in DOMAIN cs.target : ~IsErrV(cs.target[n])
=============================================================================
