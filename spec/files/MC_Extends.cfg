SPECIFICATION Spec
CONSTANTS Depth = 2
INVARIANTS ChainLaws
CHECK_DEADLOCK FALSE
