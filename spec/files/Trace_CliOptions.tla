--------------------------- MODULE Trace_CliOptions ---------------------------
(* TLC as judge of option sequences applied to a real cli.ProjectOptions: each line of IOEnv.TRACE is               *)
(*   [w, act, arg, from, to]  - the world the harness materialised, the option function it called, the options      *)
(* value (projected from the public fields) before and after, or to = [err |-> TRUE].  A line is "ok" when the     *)
(* specification's function for that option maps `from` to `to` in that world.  Lines of one sequence are chained  *)
(* (the `from` of a line is the `to` of the line before), so a whole sequence is a behaviour of CliOptions.        *)
EXTENDS CliOptions, Json, IOUtils, SequencesExt

Trace == ndJsonDeserialize(IOEnv.TRACE)

EnvOf(pairs) == LET S == ToSet(pairs) IN [k \in {p[1] : p \in S} |-> (CHOOSE p \in S : p[1] = k)[2]]
PathsOf(ps) == [i \in 1..Len(ps) |-> P(ps[i][1], ps[i][2])]
WOf(j) == [fs |-> [d \in Dirs |-> ToSet(j.fs[d])], dotenv |-> j.dotenv, os |-> EnvOf(j.os), configs |-> PathsOf(j.configs)]
OOf(j) == IF "err" \in DOMAIN j THEN Error
          ELSE IF "vv" \in DOMAIN j /\ "dir" \notin DOMAIN j THEN [name |-> j.name, vv |-> j.vv]
          ELSE IF "dir" \in DOMAIN j THEN [name |-> j.name, dir |-> j.dir, files |-> PathsOf(j.files), vv |-> j.vv, hasvv |-> j.hasvv, profiles |-> j.profiles, dbg |-> j.dbg]
          ELSE [paths |-> PathsOf(j.paths), wd |-> j.wd, env |-> EnvOf(j.env), envfiles |-> PathsOf(j.envfiles), name |-> j.name, prof |-> NoProf]

Apply(e, x) ==
  CASE e.act = "name" -> WithName(x, e.arg)
    [] e.act = "workdir" -> WithWorkingDirectory(x, e.arg)
    [] e.act = "config-file-env" -> WithConfigFileEnv(x)
    [] e.act = "default-config-path" -> WithDefaultConfigPath(x)
    [] e.act = "env" -> WithEnv(x, EnvOf(e.arg))
    [] e.act = "os-env" -> WithOsEnv(x)
    [] e.act = "env-files-default" -> WithEnvFilesDefault(x)
    [] e.act = "env-files" -> WithEnvFiles(x, PathsOf(e.arg))
    [] e.act = "dot-env" -> WithDotEnv(x)
    [] e.act = "profiles" -> WithProfiles(x, e.arg)
    [] e.act = "default-profiles" -> WithDefaultProfiles(x, e.arg)
    [] e.act = "load" -> Loaded(x)
    [] e.act = "load-model" -> LoadedModel(x)

\* o: the options value the specification reaches by itself from the start of the current sequence (a line with first = TRUE starts
\* one); bad: lines whose step the specification maps elsewhere; bad2: final lines (load / load-model) whose outcome differs from
\* the one the specification reaches over the whole sequence, whatever the intermediate values were
VARIABLES l, phase, bad, bad2
tvars == <<w, o, l, phase, bad, bad2>>
Init == l = 1 /\ phase = "world" /\ bad = <<>> /\ bad2 = <<>> /\ w = [fs |-> [d \in Dirs |-> {}], dotenv |-> <<"none", "none", "none", "none">>, os |-> EnvOf(<<>>), configs |-> <<>>] /\ o = Error
Next ==
  /\ l <= Len(Trace)
  /\ \/ /\ phase = "world" /\ w' = WOf(Trace[l].w) /\ phase' = "judge" /\ UNCHANGED <<o, l, bad, bad2>>
     \/ /\ phase = "judge" /\ phase' = "world" /\ l' = l + 1 /\ UNCHANGED w
        /\ LET e == Trace[l]
               start == IF e.first THEN OOf(e.from) ELSE o
               \* the requested profiles are not logged (a private field): the step is judged with the value the specification
               \* has reached, and compared without it unless the step is a load, whose outcome shows it
               hidden == IF IsErr(start) THEN NoProf ELSE start.prof
               from == [OOf(e.from) EXCEPT !.prof = hidden]
               Mask(x) == IF "prof" \in DOMAIN x THEN [x EXCEPT !.prof = NoProf] ELSE x
               exp == Apply(e, from)
               own == IF IsErr(start) THEN Error ELSE Apply(e, start) IN
           /\ bad' = IF Mask(exp) # Mask(OOf(e.to)) /\ Len(bad) < 200 THEN Append(bad, <<l, exp>>) ELSE bad
           /\ o' = own
           /\ bad2' = IF e.act \in {"load", "load-model"} /\ own # OOf(e.to) /\ Len(bad2) < 200 THEN Append(bad2, <<l, own>>) ELSE bad2
Spec == Init /\ [][Next]_tvars
Report == l <= Len(Trace) \/ PrintT(<<"VERDICTS", l - 1, bad, bad2>>)
=============================================================================
