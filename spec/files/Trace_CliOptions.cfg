SPECIFICATION Spec
INVARIANTS Report
CHECK_DEADLOCK FALSE
