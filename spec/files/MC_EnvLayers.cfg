SPECIFICATION Spec
CONSTANTS MaxFiles = 2
INVARIANTS LawsHold
CHECK_DEADLOCK FALSE
