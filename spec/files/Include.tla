------------------------------ MODULE Include ------------------------------
(***************************************************************************)
(* `include` (loader/include.go): loading a file that includes others      *)
(* yields the project of the single file that contains, besides its own    *)
(* content, the included files' resources as loaded on their own:          *)
(*   - interpolated with the parent environment plus, for the variables it *)
(*     does not define, the included project's .env or declared env_file;  *)
(*   - relative paths resolved against the included project directory      *)
(*     (the file's directory unless project_directory is given);           *)
(*   - a resource defined differently on both sides is a conflict, the     *)
(*     same resource arriving identically through two routes is accepted;  *)
(*   - nested includes compose; include cycles are errors.                 *)
(*                                                                         *)
(* A universe U maps file ids to                                           *)
(*   [dir (segments below the root), dotenv (variables of <dir>/.env, or   *)
(*    <<>> when there is none), defs (resources defined in the file),      *)
(*    includes (sequence of [file, pd [set, segs] (project_directory,     *)
(*    relative to the including project directory), ef [set, vars] (the    *)
(*    variables of the declared env_file)])]                               *)
(* A resource definition is [kind, name, variant]; its attributes are an   *)
(* image/label carrying ${V}, and a relative path.                         *)
(***************************************************************************)
EXTENDS Naturals, Sequences, FiniteSets, TLC

NoEnv == <<>>                      \* functions from variable names to text
EnvGet(e, v) == IF v \in DOMAIN e THEN e[v] ELSE ""
\* parent wins; the file fills what the parent does not define
Under(parent, file) == [v \in DOMAIN parent \cup DOMAIN file |-> IF v \in DOMAIN parent THEN parent[v] ELSE file[v]]

ErrI(why) == [error |-> why]
IsErrI(x) == "error" \in DOMAIN x

\* a loaded resource: [kind, name, variant, v (value of ${V:-none} seen by the file), w (${W:-none}), anchor (directory its relative paths resolve against)]
\* what of the environment and of the directory a definition depends on, per kind: a service interpolates ${V} and ${W} and has a
\* build context; a volume carries a label with ${V}; a secret / config has a file path; a network depends on neither
VOf(env) == IF "V" \in DOMAIN env /\ env["V"] # "" THEN env["V"] ELSE "none"
WOf(env) == IF "W" \in DOMAIN env /\ env["W"] # "" THEN env["W"] ELSE "none"
Loaded(d, env, anchor) ==
  [kind |-> d.kind, name |-> d.name, variant |-> d.variant,
   v |-> (IF d.kind \in {"services", "volumes"} THEN VOf(env) ELSE "-"),
   \* variant 5 of a secret / config: its content is the value of W in the environment of the file that declares it
   w |-> (IF d.kind = "services" \/ (d.kind \in {"secrets", "configs"} /\ d.variant = 5) THEN WOf(env) ELSE "-"),
   anchor |-> (IF d.kind = "services" \/ (d.kind \in {"secrets", "configs"} /\ d.variant \notin {3, 5}) THEN anchor ELSE <<"-">>)]
SameKey(a, b) == a.kind = b.kind /\ a.name = b.name

\* import rs into acc: absent -> add, equal -> accept, different -> conflict
RECURSIVE Import(_, _)
Import(acc, rs) ==
  IF IsErrI(acc) THEN acc
  ELSE IF rs = {} THEN acc
  ELSE LET r == CHOOSE x \in rs : TRUE IN
       IF \E a \in acc.res : SameKey(a, r) /\ a # r THEN ErrI("conflict")
       ELSE Import([res |-> acc.res \cup {r}], rs \ {r})

\* Load(f): the resources of file f loaded with environment env, paths anchored at anchor, included chain
RECURSIVE LoadFile(_, _, _, _, _), LoadIncludes(_, _, _, _, _, _)
LoadFile(U, f, env, anchor, chain) ==
  IF f \in chain THEN ErrI("cycle")
  ELSE LET own == [res |-> {Loaded(d, env, anchor) : d \in U[f].defs}] IN
       LoadIncludes(U, U[f].includes, env, anchor, chain \cup {f}, own)
LoadIncludes(U, incs, env, workdir, chain, acc) ==
  IF IsErrI(acc) \/ incs = <<>> THEN acc
  ELSE LET i == Head(incs)
           pdir == IF ~i.pd.set THEN U[i.file].dir ELSE workdir \o i.pd.segs          \* included project directory
           fileEnv == IF i.ef.set THEN i.ef.vars ELSE (IF pdir = U[i.file].dir THEN U[i.file].dotenv ELSE NoEnv)
           sub == LoadFile(U, i.file, Under(env, fileEnv), pdir, chain) IN
       IF IsErrI(sub) THEN sub
       ELSE LoadIncludes(U, Tail(incs), env, workdir, chain, Import(acc, sub.res))
Load(U, main, env) == LoadFile(U, main, env, U[main].dir, {})
=============================================================================
