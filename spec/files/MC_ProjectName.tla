--------------------------- MODULE MC_ProjectName ---------------------------
(* The complete lattice of name sources, one state per point, with the outcome the rules define.  *)
EXTENDS ProjectName
CONSTANTS MaxFiles

Unset == [set |-> FALSE, v |-> ""]
V(x) == [set |-> TRUE, v |-> x]
Explicits == {Unset, V("explicit-1"), V("Bad.Name"), V("_lead")}
\* COMPOSE_PROJECT_NAME in [explicit env, OS env, .env]
CPNs == {[ex |-> Unset, os |-> Unset, de |-> Unset],
         [ex |-> Unset, os |-> V("from-os"), de |-> Unset],
         [ex |-> Unset, os |-> V("From.OS"), de |-> Unset],
         [ex |-> Unset, os |-> Unset, de |-> V("from-dotenv")],
         [ex |-> V("from-explicit-env"), os |-> V("from-os"), de |-> V("from-dotenv")],
         [ex |-> Unset, os |-> V("from-os"), de |-> V("from-dotenv")],
         [ex |-> Unset, os |-> V(""), de |-> V("from-dotenv")]}
\* `name:` of a file: [kind, text as written, value after interpolation]
FileNames == {[kind |-> "none", text |-> "", v |-> Unset],
              [kind |-> "literal", text |-> "filename", v |-> V("filename")],
              [kind |-> "literal", text |-> "My.App", v |-> V("My.App")],
              [kind |-> "literal", text |-> "___", v |-> V("___")],
              [kind |-> "literal", text |-> ".-App", v |-> V(".-App")],
              [kind |-> "var", text |-> "${NV}", v |-> V("fromvar")],
              [kind |-> "var", text |-> "x${UNSETV}", v |-> V("x")]}
Dirs == {"proj", "My.Proj", "_weird", "---", "W1-b", ".-proj", "@_scope", "a.-b"}
Seqs(S, lo, hi) == UNION {[1..k -> S] : k \in lo..hi}

\* a later file whose name normalises to empty while an earlier one sets a name is in the domain: the last file that sets a
\* name decides, and an empty result falls through to the directory (only a name that *interpolates* to nothing would be
\* outside it - the code picks the last textual name - and no such name is in FileNames)
InDomain(fs) == TRUE

VARIABLE pt
Init == \E e \in Explicits : pt = [seed |-> e]
IsSeed == "seed" \in DOMAIN pt
Next == /\ IsSeed
        /\ \E c \in CPNs : \E fs \in Seqs(FileNames, 1, MaxFiles) : \E d \in Dirs :
             /\ InDomain(fs)
             /\ pt' = [explicit |-> pt.seed, cpn |-> c, files |-> fs, dir |-> d,
                       exp |-> ResolveName(pt.seed, Pick(c.ex, c.os, Unset, c.de), [i \in 1..Len(fs) |-> fs[i].v], d)]
Spec == Init /\ [][Next]_pt
Laws == IsSeed \/ WellFormed(pt.exp)
=============================================================================
