---------------------------- MODULE ProjectName ----------------------------
(***************************************************************************)
(* Project name and project environment precedence (cli.ProjectOptions +   *)
(* loader.projectName), written from the documented rules.                 *)
(*                                                                         *)
(* Name: explicit (must already be normalised) > COMPOSE_PROJECT_NAME of   *)
(* the project environment (must already be normalised) > `name:` of the   *)
(* last compose file that sets one (interpolated, then normalised) >       *)
(* normalised base name of the project directory; empty => error.          *)
(* Environment: explicit variables > OS variables > later .env files >     *)
(* earlier .env files; .env values may reference what is above them.       *)
(***************************************************************************)
EXTENDS Naturals, Sequences, FiniteSets, TLC

Char(s, i) == SubSeq(s, i, i)
Keep == {"a","b","c","d","e","f","g","h","i","j","k","l","m","n","o","p","q","r","s","t","u","v","w","x","y","z",
         "0","1","2","3","4","5","6","7","8","9","_","-"}
Lower(c) == CASE c = "A" -> "a" [] c = "B" -> "b" [] c = "M" -> "m" [] c = "N" -> "n" [] c = "P" -> "p" [] c = "W" -> "w" [] c = "F" -> "f" [] c = "O" -> "o" [] c = "S" -> "s" [] OTHER -> c
RECURSIVE Filter(_, _)
Filter(s, i) == IF i > Len(s) THEN "" ELSE LET c == Lower(Char(s, i)) IN (IF c \in Keep THEN c ELSE "") \o Filter(s, i + 1)
RECURSIVE TrimLead(_)
TrimLead(s) == IF s # "" /\ Char(s, 1) \in {"_", "-"} THEN TrimLead(SubSeq(s, 2, Len(s))) ELSE s
Normalize(s) == TrimLead(Filter(s, 1))
IsNormal(s) == Normalize(s) = s

\* ------------------------------------------------------------ project environment
\* layers: records [set |-> BOOLEAN, v |-> text] for one variable in each source
Pick(explicit, os, env1, env2) ==
  IF explicit.set THEN explicit ELSE IF os.set THEN os ELSE IF env2.set THEN env2 ELSE env1

\* ------------------------------------------------------------ project name
\* fileNames: sequence over files of [set, text] where text is the name after interpolation
RECURSIVE LastSet(_)
LastSet(fs) == IF fs = <<>> THEN [set |-> FALSE, v |-> ""]
               ELSE IF fs[Len(fs)].set THEN fs[Len(fs)] ELSE LastSet(SubSeq(fs, 1, Len(fs) - 1))
Err == [ok |-> FALSE, name |-> ""]
Ok(n) == [ok |-> TRUE, name |-> n]
ResolveName(explicit, cpn, fileNames, dirBase) ==
  IF explicit.set /\ explicit.v # ""
    THEN (IF IsNormal(explicit.v) THEN Ok(explicit.v) ELSE Err)
  ELSE IF cpn.set /\ cpn.v # ""
    THEN (IF IsNormal(cpn.v) THEN Ok(cpn.v) ELSE Err)
  ELSE LET f == LastSet(fileNames)  fromFile == Normalize(f.v)  fromDir == Normalize(dirBase) IN
       IF f.set /\ fromFile # "" THEN Ok(fromFile)
       ELSE IF fromDir # "" THEN Ok(fromDir)
       ELSE Err

\* a resolved name always has the documented shape
WellFormed(r) == ~r.ok \/ (r.name # "" /\ IsNormal(r.name) /\ Char(r.name, 1) \notin {"_", "-"})
=============================================================================
