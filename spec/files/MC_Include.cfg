SPECIFICATION Spec
CONSTANTS Full = FALSE
INVARIANTS Laws
CHECK_DEADLOCK FALSE
