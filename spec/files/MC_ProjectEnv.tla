---------------------------- MODULE MC_ProjectEnv ----------------------------
(* Every non-empty subset of the four sources defining a variable V with distinct values, a second variable R     *)
(* written in .env #2 as a reference to V, and the option orders the API documents.                                *)
EXTENDS ProjectName
Unset == [set |-> FALSE, v |-> ""]
V(x) == [set |-> TRUE, v |-> x]
Orders == {"env-then-os", "os-then-env"}
VARIABLE pt
\* the value R = ${V} gets when written in .env #2 (after V's own line there, if any): what is above it
RefValue(ex, os, e1, e2) == IF ex.set THEN ex.v ELSE IF os.set THEN os.v ELSE IF e1.set THEN e1.v ELSE IF e2.set THEN e2.v ELSE ""
\* a source may also define the variable as the empty string: still a definition, it wins over the sources below it
Init == \E ex \in {Unset, V("ex"), V("")} : \E os \in {Unset, V("os"), V("")} : \E e1 \in {Unset, V("e1"), V("")} : \E e2 \in {Unset, V("e2")} :
        \E ord \in Orders :
          pt = [ex |-> ex, os |-> os, e1 |-> e1, e2 |-> e2, order |-> ord,
                expV |-> Pick(ex, os, e1, e2),
                refEnforced |-> ~(e1.set /\ e2.set /\ ~ex.set /\ ~os.set),
                expR |-> RefValue(ex, os, e1, e2)]
Next == UNCHANGED pt
Spec == Init /\ [][Next]_pt
\* pairwise precedence on the specification itself
Laws == /\ (pt.ex.set => pt.expV = pt.ex)
        /\ (~pt.ex.set /\ pt.os.set => pt.expV = pt.os)
        /\ (~pt.ex.set /\ ~pt.os.set /\ pt.e2.set => pt.expV = pt.e2)
=============================================================================
