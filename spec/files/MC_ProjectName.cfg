SPECIFICATION Spec
CONSTANTS MaxFiles = 2
INVARIANTS Laws
CHECK_DEADLOCK FALSE
