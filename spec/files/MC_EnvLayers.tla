---------------------------- MODULE MC_EnvLayers ----------------------------
EXTENDS EnvLayers
CONSTANTS MaxFiles,
          Product    \* BOOLEAN: label-file shapes x every environment entry kind and discard (FALSE: label shapes vary with one fixed environment side)
FileShapes(i) == {[state |-> "missing-required", k |-> Unset, r |-> FALSE], [state |-> "missing-optional", k |-> Unset, r |-> FALSE],
                  [state |-> "present", k |-> Unset, r |-> FALSE], [state |-> "present", k |-> V("f" \o ToString(i)), r |-> FALSE],
                  [state |-> "present", k |-> V("f" \o ToString(i)), r |-> TRUE], [state |-> "present", k |-> Unset, r |-> TRUE],
                  [state |-> "present", k |-> V(""), r |-> FALSE]}      \* K= : set to the empty string, which is not the same as absent
Files == UNION {{fs \in [1..n -> UNION {FileShapes(i) : i \in 1..3}] : \A i \in 1..n : fs[i] \in FileShapes(i)} : n \in 0..MaxFiles}
LabelFiles == {<<>>, <<[state |-> "present", k |-> V("l1"), r |-> FALSE]>>,
               <<[state |-> "present", k |-> V("l1"), r |-> FALSE], [state |-> "present", k |-> V("l2"), r |-> FALSE]>>,
               <<[state |-> "present", k |-> V("l1"), r |-> FALSE], [state |-> "present", k |-> Unset, r |-> FALSE]>>,
               <<[state |-> "present", k |-> V("l1"), r |-> TRUE]>>,
               <<[state |-> "present", k |-> V("l1"), r |-> FALSE], [state |-> "present", k |-> Unset, r |-> TRUE]>>,
               <<[state |-> "missing-required", k |-> Unset, r |-> FALSE]>>}
VARIABLE cs
Init == \E fs \in Files : cs = [seed |-> fs]
IsSeed == "seed" \in DOMAIN cs
Next == /\ IsSeed
        /\ \E penv \in {Unset, V("p")} : \E entry \in {"none", "value", "empty", "valueless"} : \E discard \in BOOLEAN :
           \E lfs \in LabelFiles : \E lentry \in {"none", "value"} : \E repeat \in BOOLEAN :
             /\ (Product \/ lfs = <<>> \/ (entry = "none" /\ ~discard))
             \* repeat: the first env file is listed once more at the end (entries in order: it then overrides the files in between)
             /\ (repeat => Len(cs.seed) >= 2 /\ cs.seed[1].state = "present" /\ lfs = <<>> /\ ~discard)
             /\ cs' = [penv |-> penv, files |-> cs.seed, entry |-> entry, discard |-> discard, lfiles |-> lfs, lentry |-> lentry,
                    error |-> MissingRequired(cs.seed) \/ MissingRequired(lfs),
                    repeat |-> repeat,
                    k |-> FinalK(penv, IF repeat THEN cs.seed \o <<cs.seed[1]>> ELSE cs.seed, entry), r |-> FinalR(penv, IF repeat THEN cs.seed \o <<cs.seed[1]>> ELSE cs.seed), label |-> FinalLabel(lfs, lentry), labelr |-> FinalLabelR(lfs),
                    \* service b: its own first file, then a's last one
                    kb |-> FinalK(penv, OwnThenShared("fb", cs.seed), "none"), rb |-> FinalR(penv, OwnThenShared("fb", cs.seed)),
                    labelb |-> LastDef(OwnThenShared("lb", lfs)), labelrb |-> FinalLabelR(OwnThenShared("lb", lfs))]
Spec == Init /\ [][Next]_cs
LawsHold == IsSeed \/ Laws(cs.penv, cs.files, cs.entry)
=============================================================================
