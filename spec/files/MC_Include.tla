----------------------------- MODULE MC_Include -----------------------------
(* Scenarios over a fixed layout: main (root) / i1 (inc1/) / i2 (inc2/) / n1 (inc1/nested/); which file includes     *)
(* which, with which syntax options, which environment defines V, redefinitions and cycles.                        *)
EXTENDS Include
CONSTANTS Full     \* BOOLEAN: the full product (FALSE: a covering subset)

D(kind, name, variant) == [kind |-> kind, name |-> name, variant |-> variant]
Inc(f, pd, ef) == [file |-> f, pd |-> pd, ef |-> ef]
NoPd == [set |-> FALSE, segs |-> <<>>]
RootPd == [set |-> TRUE, segs |-> <<>>]
NoEf == [set |-> FALSE, vars |-> NoEnv]
Custom == [set |-> TRUE, vars |-> [v \in {"V"} |-> "custom"]]
DotEnv1 == [v \in {"V", "W"} |-> IF v = "V" THEN "inc1env" ELSE "w1"]
CustomN == [set |-> TRUE, vars |-> [v \in {"V"} |-> "nestedcustom"]]
DotEnvN == [v \in {"V"} |-> "nestedenv"]
NestedPd == [set |-> TRUE, segs |-> <<"nested">>]

VARIABLE sc
\* flags: which of i1 / i2 main includes (and in which order), options on i1, nesting, redefinition, cycle, environments
Flags == [i1 : BOOLEAN, i2 : BOOLEAN, order12 : BOOLEAN, pd1 : BOOLEAN, ef1 : BOOLEAN, n1from1 : BOOLEAN, n1from2 : BOOLEAN,
          redef : {"none", "same", "different", "main-different", "main-same", "bare-same", "bare-different", "main-bare-different"},   \* bare: declared with an empty (null) body
          cycle : {"none", "n1-main", "n1-i1", "i1-i1"},
          parentV : BOOLEAN, dotenv1 : BOOLEAN, cenv : BOOLEAN,
          efn : BOOLEAN, dotenvn : BOOLEAN, pdn : BOOLEAN,
          csib : BOOLEAN]     \* i1 also includes a file whose path differs from its own only by letter case (INC1/compose.yaml): no cycle     \* on the nested include i1 -> n1: declared env_file, a .env beside n1, project_directory
Sane(f) == /\ (f.i1 \/ f.i2)
           /\ ~(f.parentV /\ f.parentEmpty)
           /\ (f.parentEmpty => (f.dotenv1 \/ f.ef1 \/ f.dotenvn \/ f.efn) /\ f.redef = "none" /\ f.cycle = "none" /\ ~f.cenv /\ ~f.csib)
           /\ (f.pd1 => f.i1 /\ ~f.n1from1 /\ f.cycle = "none")          \* with project_directory = root the nested relative include would not resolve
           /\ (f.ef1 => f.i1) /\ (f.n1from1 => f.i1) /\ (f.n1from2 => f.i2)
           /\ (f.redef \in {"same", "different", "bare-same", "bare-different"} => f.i1 /\ f.i2 /\ ~f.order12)
           /\ (f.redef = "main-bare-different" => f.i1)
           /\ (f.redef \in {"main-different", "main-same"} => f.i1)
           /\ (f.cycle \in {"n1-main", "n1-i1"} => f.n1from1) /\ (f.cycle = "i1-i1" => f.i1)
           /\ (~f.i1 => ~f.dotenv1 /\ ~f.order12 /\ ~f.cenv)
           /\ (f.efn \/ f.pdn => f.n1from1 /\ f.cycle = "none") /\ (f.dotenvn => f.n1from1 \/ f.n1from2)
           /\ (f.csib => f.i1 /\ f.cycle = "none" /\ ~f.pd1)
Covering(f) == Full \/ (/\ f.order12 = FALSE /\ (f.n1from2 => f.n1from1) /\ (f.cenv => ~f.n1from1 /\ f.redef = "none" /\ f.cycle = "none")
                         /\ (f.efn \/ f.dotenvn \/ f.pdn => f.redef = "none" /\ f.cycle = "none" /\ ~f.i2 /\ ~f.cenv)
                         /\ (f.csib => f.redef = "none" /\ ~f.i2 /\ ~f.cenv /\ ~f.efn /\ ~f.pdn /\ ~f.dotenvn))
Universe(f) ==
  [x \in {"main", "i1", "i2", "n1", "up"} |->
     CASE x = "main" -> [dir |-> <<>>, dotenv |-> NoEnv,
                         \* sover is written in a second compose file of the main project (merged after the includes of the first are loaded)
                         defs |-> {D("services", "smain", 1), D("volumes", "vmain", 1), D("services", "sover", 1)}
                                  \cup (IF f.redef = "main-different" THEN {D("networks", "shared", 2)} ELSE IF f.redef = "main-same" THEN {D("networks", "shared", 1)} ELSE {})
                                  \cup (IF f.redef = "main-bare-different" THEN {D("networks", "bare", 4)} ELSE {}),
                         includes |-> LET e1 == <<Inc("i1", IF f.pd1 THEN RootPd ELSE NoPd, IF f.ef1 THEN Custom ELSE NoEf)>>  e2 == <<Inc("i2", NoPd, NoEf)>> IN
                                      IF f.i1 /\ f.i2 THEN (IF f.order12 THEN e2 \o e1 ELSE e1 \o e2) ELSE IF f.i1 THEN e1 ELSE e2]
       [] x = "i1" -> [dir |-> <<"inc1">>, dotenv |-> (IF f.dotenv1 THEN DotEnv1 ELSE NoEnv),
                       defs |-> {D("services", "s1", 1), D("services", "s1x", 1),      \* s1x is written as `extends: {service: s1}`: the same definition
                                 D("networks", "shared", 1), D("secrets", "sec1", 1), D("configs", "cfg1", 1)}
                               \cup (IF f.cenv THEN {D("configs", "cfgenv", 3), D("secrets", "secenv", 3), D("configs", "cfgw", 5), D("secrets", "secw", 5)} ELSE {})   \* variant 3: sourced from an environment variable
                               \cup (IF f.redef \in {"bare-same", "bare-different"} THEN {D("networks", "bare", 4)} ELSE IF f.redef = "main-bare-different" THEN {D("networks", "bare", 2)} ELSE {}),
                       includes |-> (IF f.n1from1 THEN <<Inc("n1", IF f.pdn THEN NestedPd ELSE NoPd, IF f.efn THEN CustomN ELSE NoEf)>> ELSE <<>>) \o (IF f.cycle = "i1-i1" THEN <<Inc("i1", NoPd, NoEf)>> ELSE <<>>)
                                    \o (IF f.csib THEN <<Inc("up", NoPd, NoEf)>> ELSE <<>>)]
       [] x = "up" -> [dir |-> <<"INC1">>, dotenv |-> NoEnv, defs |-> {D("services", "sup", 1)}, includes |-> <<>>]
       [] x = "i2" -> [dir |-> <<"inc2">>, dotenv |-> NoEnv,
                       defs |-> {D("services", "s2", 1)} \cup (IF f.redef = "same" THEN {D("networks", "shared", 1)} ELSE IF f.redef = "different" THEN {D("networks", "shared", 2)} ELSE {})
                               \cup (IF f.redef = "bare-same" THEN {D("networks", "bare", 4)} ELSE IF f.redef = "bare-different" THEN {D("networks", "bare", 2)} ELSE {}),
                       includes |-> (IF f.n1from2 THEN <<Inc("n1", NoPd, NoEf)>> ELSE <<>>)]
       [] x = "n1" -> [dir |-> <<"inc1", "nested">>, dotenv |-> (IF f.dotenvn THEN DotEnvN ELSE NoEnv),
                       defs |-> {D("services", "sn", 1), D("volumes", "vn", 1)},
                       includes |-> (IF f.cycle = "n1-main" THEN <<Inc("main", NoPd, NoEf)>> ELSE IF f.cycle = "n1-i1" THEN <<Inc("i1", NoPd, NoEf)>> ELSE <<>>)]]
\* with project_directory the path is written relative to the including project directory: pd = <<>> means "."
\* parentEmpty: the parent environment defines V as the empty string - still a definition, it wins over the files of the includes
\* (a flag added outside the record set, which TLC enumerates as a whole)
WithEmpty(f0, pe) == [k \in DOMAIN f0 \cup {"parentEmpty"} |-> IF k = "parentEmpty" THEN pe ELSE f0[k]]
Init == \E f0 \in Flags : \E pe \in BOOLEAN : LET f == WithEmpty(f0, pe) IN Sane(f) /\ Covering(f) /\
          sc = [flags |-> f, exp |-> Load(Universe(f), "main", IF f.parentV THEN [v \in {"V"} |-> "parent"] ELSE IF f.parentEmpty THEN [v \in {"V"} |-> ""] ELSE NoEnv)]
Next == UNCHANGED sc
Spec == Init /\ [][Next]_sc

\* laws on the specification
CycleIsError == (sc.flags.cycle # "none") => IsErrI(sc.exp)
ConflictIsError == (sc.flags.redef \in {"different", "main-different", "bare-different", "main-bare-different"}) => IsErrI(sc.exp)
SameAccepted == (sc.flags.redef \in {"none", "same", "main-same", "bare-same"} /\ sc.flags.cycle = "none" /\ ~(sc.flags.n1from1 /\ sc.flags.n1from2)) => ~IsErrI(sc.exp)
ParentWins == (~IsErrI(sc.exp) /\ sc.flags.parentV) => \A r \in sc.exp.res : r.v \in {"parent", "-"}
Laws == CycleIsError /\ ConflictIsError /\ SameAccepted /\ ParentWins
=============================================================================
