SPECIFICATION Spec
CONSTANTS N = 3
INVARIANTS Exact
CHECK_DEADLOCK FALSE
