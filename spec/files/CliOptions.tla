----------------------------- MODULE CliOptions -----------------------------
(***************************************************************************)
(* cli.ProjectOptions as a state machine.  The state is the options value  *)
(* (config paths, working directory, environment, env files, name); every  *)
(* option function of the package is an action on it, in any order the     *)
(* caller chooses, and LoadProject is the final action.  The world (the    *)
(* directory tree with the default compose file names and .env files, the  *)
(* process environment, the explicit config paths) is fixed per behaviour. *)
(*                                                                         *)
(* Several options read what earlier ones wrote (the default .env is       *)
(* looked up in the working directory, which is the directory of the first *)
(* config path unless set; COMPOSE_FILE is read from the environment built *)
(* so far; discovery does nothing once a path is known), so the order of   *)
(* the options matters - which is why this is a state machine and not a    *)
(* table.  The project name and environment rules are those of             *)
(* ProjectName.tla (property C17).                                         *)
(*                                                                         *)
(* Directories: 1 = root "t-root", 2 = "Web.App" in 1, 3 = "My_Pwd" in 2   *)
(* (the process working directory), 4 = "Other-1" in 1.  A path is         *)
(* <<directory, base name>>.                                               *)
(***************************************************************************)
EXTENDS ProjectName, Integers

Dirs == 1..4
Parent == <<0, 1, 2, 1>>
BaseName == <<"t-root", "Web.App", "My_Pwd", "Other-1">>
Cwd == 3
P(d, n) == <<d, n>>

DefaultNames == <<"compose.yaml", "compose.yml", "docker-compose.yml", "docker-compose.yaml">>
OverrideNames == <<"compose.override.yml", "compose.override.yaml", "docker-compose.override.yml", "docker-compose.override.yaml">>

\* ------------------------------------------------------------------ the world
\* w.fs[d]: regular files of directory d;  w.dotenv[d]: what d/.env defines ("none": no such file);
\* w.os: the process environment (restricted to the variables below);  w.configs: paths given to NewProjectOptions
Vars == {"COMPOSE_FILE", "COMPOSE_PATH_SEPARATOR", "COMPOSE_PROJECT_NAME", "COMPOSE_PROFILES", "VV"}
SubDirs(d) == {BaseName[e] : e \in {e \in Dirs : Parent[e] = d}}
IsFile(w, p) == p[2] \in w.fs[p[1]]
Exists(w, p) == IsFile(w, p) \/ p[2] \in SubDirs(p[1])

\* the text of COMPOSE_FILE entries, resolved against the process working directory (a table: path arithmetic is
\* not what this module is about - PathsResolve.tla is)
Tok == [t \in {"x.yaml", "../compose.yaml", "../../Other-1/x.yaml", "missing.yaml", ""} |->
          CASE t = "x.yaml" -> P(3, "x.yaml")
            [] t = "../compose.yaml" -> P(2, "compose.yaml")
            [] t = "../../Other-1/x.yaml" -> P(4, "x.yaml")
            [] t = "missing.yaml" -> P(3, "missing.yaml")
            [] t = "" -> P(2, "My_Pwd")]        \* the empty entry is the working directory itself

RECURSIVE SplitAt(_, _, _)
\* strings.Split with a one-character separator
SplitAt(s, sep, acc) ==
  IF s = "" THEN <<acc>>
  ELSE IF Char(s, 1) = sep THEN <<acc>> \o SplitAt(SubSeq(s, 2, Len(s)), sep, "")
  ELSE SplitAt(SubSeq(s, 2, Len(s)), sep, acc \o Char(s, 1))
Split(s, sep) == SplitAt(s, sep, "")

\* what a .env file of the given kind in directory d defines
DotEnvDefs(kind, d) ==
  CASE kind = "vv"   -> [k \in {"VV"} |-> "env" \o ToString(d)]
    [] kind = "file" -> [k \in {"VV", "COMPOSE_FILE"} |-> IF k = "VV" THEN "env" \o ToString(d) ELSE "x.yaml"]
    [] kind = "name" -> [k \in {"VV", "COMPOSE_PROJECT_NAME"} |-> IF k = "VV" THEN "env" \o ToString(d) ELSE "from-dotenv-" \o ToString(d)]
    [] kind = "prof" -> [k \in {"VV", "COMPOSE_PROFILES"} |-> IF k = "VV" THEN "env" \o ToString(d) ELSE "dbg,y"]
    [] OTHER -> [k \in {} |-> ""]

\* ------------------------------------------------------------------ environment maps
Has(m, k) == k \in DOMAIN m
Get(m, k) == IF Has(m, k) THEN m[k] ELSE ""
\* values of b take over (WithEnv);  values of a are kept (Mapping.Merge, WithOsEnv)
Over(a, b) == [k \in DOMAIN a \cup DOMAIN b |-> IF k \in DOMAIN b THEN b[k] ELSE a[k]]
Under(a, b) == Over(b, a)

\* ------------------------------------------------------------------ the options value
VARIABLES w, o
Error == [err |-> TRUE]
IsErr(x) == "err" \in DOMAIN x
\* prof: the profiles requested so far (the last request counts), or not set
NoProf == [set |-> FALSE, v |-> <<>>]
New(configs) == [paths |-> configs, wd |-> 0, env |-> [k \in {} |-> ""], envfiles |-> <<>>, name |-> "", prof |-> NoProf]

\* GetWorkingDir
WorkDir(x) == IF x.wd # 0 THEN x.wd ELSE IF x.paths # <<>> THEN x.paths[1][1] ELSE Cwd

RECURSIVE FirstOf(_, _, _)
FirstOf(names, S, i) == IF i > Len(names) THEN "" ELSE IF names[i] \in S THEN names[i] ELSE FirstOf(names, S, i + 1)
RECURSIVE Discover(_, _)
\* walk up from d until a directory holds a file with a default name; its preferred override comes along
Discover(fs, d) ==
  IF d = 0 THEN <<>>
  ELSE LET c == FirstOf(DefaultNames, fs[d], 1)  v == FirstOf(OverrideNames, fs[d], 1) IN
       IF c # "" THEN <<P(d, c)>> \o (IF v # "" THEN <<P(d, v)>> ELSE <<>>)
       ELSE Discover(fs, Parent[d])

\* ---- the option functions (each returns the new value or Error)
WithName(x, n) == IF IsNormal(n) THEN [x EXCEPT !.name = n] ELSE Error
WithWorkingDirectory(x, d) == IF d = 0 THEN x ELSE [x EXCEPT !.wd = d]
WithConfigFileEnv(x) ==
  IF x.paths # <<>> \/ ~Has(x.env, "COMPOSE_FILE") THEN x
  ELSE LET sep == IF Get(x.env, "COMPOSE_PATH_SEPARATOR") = "" THEN ":" ELSE x.env["COMPOSE_PATH_SEPARATOR"]
           toks == Split(x.env["COMPOSE_FILE"], sep)
           ps == [i \in 1..Len(toks) |-> IF toks[i] \in DOMAIN Tok THEN Tok[toks[i]] ELSE P(3, toks[i])] IN
       IF \A i \in 1..Len(ps) : Exists(w, ps[i]) THEN [x EXCEPT !.paths = ps] ELSE Error
WithDefaultConfigPath(x) == IF x.paths # <<>> THEN x ELSE [x EXCEPT !.paths = Discover(w.fs, WorkDir(x))]
WithEnv(x, m) == [x EXCEPT !.env = Over(x.env, m)]
WithOsEnv(x) == [x EXCEPT !.env = Under(x.env, w.os)]
WithEnvFilesDefault(x) == IF ".env" \in w.fs[WorkDir(x)] THEN [x EXCEPT !.envfiles = <<P(WorkDir(x), ".env")>>] ELSE x
WithEnvFiles(x, fs) == [x EXCEPT !.envfiles = fs]
RECURSIVE ReadEnvFiles(_, _)
\* later files over earlier ones
ReadEnvFiles(fs, acc) == IF fs = <<>> THEN acc ELSE ReadEnvFiles(Tail(fs), Over(acc, DotEnvDefs(w.dotenv[Head(fs)[1]], Head(fs)[1])))
WithDotEnv(x) ==
  IF \E i \in 1..Len(x.envfiles) : ~IsFile(w, x.envfiles[i]) THEN Error
  ELSE [x EXCEPT !.env = Under(x.env, ReadEnvFiles(x.envfiles, [k \in {} |-> ""]))]

\* WithProfiles / WithDefaultProfiles: the latter falls back to COMPOSE_PROFILES of the environment built so far, split at commas,
\* each entry without its surrounding blanks (an absent or empty variable gives the one entry "")
RECURSIVE TrimL(_), TrimR(_)
TrimL(t) == IF t # "" /\ Char(t, 1) = " " THEN TrimL(SubSeq(t, 2, Len(t))) ELSE t
TrimR(t) == IF t # "" /\ Char(t, Len(t)) = " " THEN TrimR(SubSeq(t, 1, Len(t) - 1)) ELSE t
WithProfiles(x, ps) == [x EXCEPT !.prof = [set |-> TRUE, v |-> ps]]
WithDefaultProfiles(x, ps) ==
  IF ps # <<>> THEN WithProfiles(x, ps)
  ELSE LET parts == Split(Get(x.env, "COMPOSE_PROFILES"), ",") IN WithProfiles(x, [i \in 1..Len(parts) |-> TrimL(TrimR(parts[i]))])
\* every compose file also defines a service that carries the profile "dbg": enabled iff that profile, or "*", is requested
DbgEnabled(x) == \E i \in 1..Len(x.prof.v) : x.prof.v[i] \in {"dbg", "*"}

\* ---- LoadProject: the observable project (or an error)
\* every compose file defines one service named after its place, so the services of the project tell which files were merged
Loaded(x) ==
  IF x.paths = <<>> \/ \E i \in 1..Len(x.paths) : ~IsFile(w, x.paths[i]) THEN Error
  ELSE LET dir == WorkDir(x)
           cpn == IF Has(x.env, "COMPOSE_PROJECT_NAME") THEN [set |-> TRUE, v |-> x.env["COMPOSE_PROJECT_NAME"]] ELSE [set |-> FALSE, v |-> ""]
           r == ResolveName([set |-> x.name # "", v |-> x.name], cpn, <<>>, BaseName[dir]) IN
       IF ~r.ok THEN Error
       ELSE [name |-> r.name, dir |-> dir, files |-> x.paths, vv |-> IF Get(x.env, "VV") = "" THEN "none" ELSE x.env["VV"],
             hasvv |-> Has(x.env, "VV"), profiles |-> x.prof.v, dbg |-> DbgEnabled(x)]
\* LoadModel: the same load, observed through the dictionary it returns (its name, and what ${VV:-none} interpolates to)
LoadedModel(x) == LET r == Loaded(x) IN IF IsErr(r) THEN Error ELSE [name |-> r.name, vv |-> r.vv]
=============================================================================
