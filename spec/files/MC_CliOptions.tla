---------------------------- MODULE MC_CliOptions ----------------------------
(* Every reachable options value of every chosen world, with every option function (and LoadProject) applied to it:   *)
(* one TLC state per transition <<world, value before, action, outcome>>.  The harness rebuilds the value before     *)
(* from its public fields in a materialised copy of the world, calls the real option function and compares.          *)
EXTENDS CliOptions
CONSTANTS MaxSteps, Profiles,   \* Profiles: BOOLEAN - whether the profile options are among the actions
          Level     \* 0: one factor of the world at a time;  1: plus the pairs that interact;  2: the full product

VARIABLES tr, steps
vars == <<w, o, tr, steps>>
View == <<w, o, tr>>
Bound == steps <= MaxSteps

Layouts == [L0 |-> {}, L1 |-> {"compose.yaml"}, L2 |-> {"docker-compose.yml", "compose.yml"},
            L3 |-> {"compose.yaml", "compose.override.yml"}, L4 |-> {"compose.override.yaml"},
            L5 |-> {"docker-compose.yaml", "docker-compose.override.yml", "compose.override.yaml"}]
LNames == DOMAIN Layouts
Unset == [set |-> FALSE, v |-> ""]
V(x) == [set |-> TRUE, v |-> x]
\* COMPOSE_FILE / COMPOSE_PATH_SEPARATOR of the process environment
CFs == {[f |-> Unset, s |-> Unset],
        [f |-> V("x.yaml"), s |-> Unset],
        [f |-> V("x.yaml:../../Other-1/x.yaml"), s |-> Unset],
        [f |-> V("x.yaml,../../Other-1/x.yaml"), s |-> V(",")],
        [f |-> V("x.yaml,../../Other-1/x.yaml"), s |-> Unset],      \* one entry, no such file
        [f |-> V("../compose.yaml"), s |-> V("")],                  \* exists only in some layouts; an empty separator is the default one
        [f |-> V("missing.yaml"), s |-> Unset],
        [f |-> V(""), s |-> Unset]}                                 \* names the working directory
CPNs == {Unset, V("from-os"), V("From.OS"), V("")}
VVs == {Unset, V("os"), V("")}
CProfs == IF Profiles THEN {Unset, V("dbg"), V(" x , dbg "), V("")} ELSE {Unset}
ConfigSets == {<<>>, <<P(4, "x.yaml")>>, <<P(3, "x.yaml"), P(4, "x.yaml")>>, <<P(3, "missing.yaml")>>}
DE2 == {"none", "vv", "name"}
DE3 == {"none", "vv", "file", "name"} \cup (IF Profiles THEN {"prof"} ELSE {})

\* the values of each dimension of the world (the worlds are built from the default one: the full product is too large for TLC
\* to hold as one set)
DimVals(k) == CASE k = "l1" -> {"L0", "L1"} [] k = "l2" -> LNames [] k = "l3" -> LNames [] k = "l4" -> {"L0", "L1"}
                [] k = "de2" -> DE2 [] k = "de3" -> DE3 [] k = "cf" -> CFs [] k = "cpn" -> CPNs [] k = "vv" -> VVs
                [] k = "cprof" -> CProfs [] k = "cfg" -> ConfigSets
Default == [l1 |-> "L0", l2 |-> "L3", l3 |-> "L0", l4 |-> "L0", de2 |-> "vv", de3 |-> "none", cf |-> [f |-> Unset, s |-> Unset], cpn |-> Unset, vv |-> Unset, cprof |-> Unset, cfg |-> <<>>]
Fields == {"l1", "l2", "l3", "l4", "de2", "de3", "cf", "cpn", "vv", "cprof", "cfg"}
\* pairs of world dimensions that interact in the code
Interact == {{"l2", "l3"}, {"l3", "de3"}, {"de3", "cf"}, {"cf", "cfg"}, {"cf", "l2"}, {"de3", "cpn"}, {"de2", "de3"}, {"de3", "vv"}, {"l1", "l2"}, {"l3", "cfg"}, {"l4", "cfg"}, {"de3", "cprof"}, {"cprof", "vv"}}
Set1(d, k, v) == [x \in Fields |-> IF x = k THEN v ELSE d[x]]
\* Level 0: one factor at a time;  Level >= 1: plus every pair of values of two interacting dimensions
OsOf(d) == LET a == IF d.cf.f.set THEN [k \in {"COMPOSE_FILE"} |-> d.cf.f.v] ELSE [k \in {} |-> ""]
               b == IF d.cf.s.set THEN Over(a, [k \in {"COMPOSE_PATH_SEPARATOR"} |-> d.cf.s.v]) ELSE a
               c == IF d.cpn.set THEN Over(b, [k \in {"COMPOSE_PROJECT_NAME"} |-> d.cpn.v]) ELSE b
               e == IF d.vv.set THEN Over(c, [k \in {"VV"} |-> d.vv.v]) ELSE c IN
           IF d.cprof.set THEN Over(e, [k \in {"COMPOSE_PROFILES"} |-> d.cprof.v]) ELSE e
World(d) ==
  LET de == <<"none", d.de2, d.de3, "vv">>
      lay == <<Layouts[d.l1], Layouts[d.l2], Layouts[d.l3], Layouts[d.l4]>> IN
  [fs |-> [i \in Dirs |-> lay[i] \cup (IF i \in {3, 4} THEN {"x.yaml"} ELSE {}) \cup (IF de[i] # "none" THEN {".env"} ELSE {})],
   dotenv |-> de, os |-> OsOf(d), configs |-> d.cfg]

Seed == [act |-> "new"]
Init == \/ \E k \in Fields : \E v \in DimVals(k) : LET d == Set1(Default, k, v) IN w = World(d) /\ o = New(d.cfg) /\ tr = Seed /\ steps = 0
        \/ /\ Level >= 1
           /\ \E pr \in Interact : \E k1 \in pr : \E k2 \in pr \ {k1} : \E v1 \in DimVals(k1) : \E v2 \in DimVals(k2) :
                LET d == Set1(Set1(Default, k1, v1), k2, v2) IN w = World(d) /\ o = New(d.cfg) /\ tr = Seed /\ steps = 0

Names == {"explicit-1", "Bad.Name", ""}
ExplicitEnvs == {[k \in {"VV"} |-> "ex"], [k \in {"COMPOSE_FILE"} |-> "../compose.yaml"], [k \in {"VV", "COMPOSE_PROJECT_NAME"} |-> IF k = "VV" THEN "" ELSE "from-explicit-env"]}
ExplicitEnvFiles == {<<P(4, ".env")>>, <<P(2, ".env"), P(4, ".env")>>, <<P(4, ".env"), P(3, ".env")>>}

\* the profiles an options value holds are not among its public fields: a transition of a profile option carries the outcome of
\* loading its result (probe), which is how the harness observes it
Step(label, arg, res) ==
  /\ tr' = [act |-> label, arg |-> arg, from |-> o, to |-> res,
            probe |-> IF label \in {"profiles", "default-profiles"} /\ ~IsErr(res) THEN Loaded(res) ELSE [none |-> TRUE]]
  /\ o' = IF IsErr(res) \/ label \in {"load", "load-model"} THEN [done |-> TRUE] ELSE res
  /\ UNCHANGED w /\ steps' = steps + 1
Live == "done" \notin DOMAIN o
Next ==
  /\ Live
  /\ \/ \E n \in Names : Step("name", n, WithName(o, n))
     \/ \E d \in {0, 2, 3, 4} : Step("workdir", d, WithWorkingDirectory(o, d))
     \/ Step("config-file-env", 0, WithConfigFileEnv(o))
     \/ Step("default-config-path", 0, WithDefaultConfigPath(o))
     \/ \E m \in ExplicitEnvs : Step("env", m, WithEnv(o, m))
     \/ Step("os-env", 0, WithOsEnv(o))
     \/ Step("env-files-default", 0, WithEnvFilesDefault(o))
     \/ \E fs \in ExplicitEnvFiles : Step("env-files", fs, WithEnvFiles(o, fs))
     \/ Step("dot-env", 0, WithDotEnv(o))
     \/ Profiles /\ \E ps \in {<<"x">>, <<"dbg", "x">>} : Step("profiles", ps, WithProfiles(o, ps))
     \/ Profiles /\ \E ps \in {<<>>, <<"*">>} : Step("default-profiles", ps, WithDefaultProfiles(o, ps))
     \/ Step("load", 0, Loaded(o))
     \/ Step("load-model", 0, LoadedModel(o))
Spec == Init /\ [][Next]_vars

\* laws of the specification itself
Laws == tr.act = "new" \/ IsErr(tr.to) \/
  /\ (tr.act = "load" => WellFormed([ok |-> TRUE, name |-> tr.to.name]))
  \* discovery never overrides a choice already made, and never invents a file
  /\ (tr.act \in {"default-config-path", "config-file-env"} /\ tr.from.paths # <<>> => tr.to = tr.from)
  /\ (tr.act = "default-config-path" => \A i \in 1..Len(tr.to.paths) : tr.from.paths # <<>> \/ IsFile(w, tr.to.paths[i]))
  \* what is already in the environment is never replaced by the process environment or a .env file
  /\ (tr.act \in {"os-env", "dot-env"} => \A k \in DOMAIN tr.from.env : tr.to.env[k] = tr.from.env[k])
=============================================================================
