--------------------------- MODULE Trace_Traversal ---------------------------
(* Trace validation: executions of the real graph.CollectInDependencyOrder, recorded by the gate scheduler      *)
(* (one line per released yield point, plus a cfg line at the start and a ret line at the end of each run), are  *)
(* accepted iff they are behaviours of Traversal.  Logged steps re-use Traversal's actions; steps without a      *)
(* yield point (map iteration picks, eg.Go obtaining its slot, goroutine exit) are composed in as silent steps.  *)
EXTENDS Traversal, Json, IOUtils, SequencesExt

Trace == ndJsonDeserialize(IOEnv.TRACE)

VARIABLE l
tvars == <<vars, l>>

Ev == Trace[l]
Step == l' = l + 1
IsEv(role, point) == l <= Len(Trace) /\ Ev.kind = "ev" /\ Ev.role = role /\ Ev.point = point

CfgOf(e) == [n |-> e.n, deps |-> [i \in 1..e.n |-> ToSet(e.deps[i])], inverse |-> e.inverse,
             limit |-> e.limit, after |-> ToSet(e.after), fails |-> ToSet(e.fails), ext |-> e.ext]

\* a new recorded execution starts (only after the previous one has returned)
Reset == /\ l <= Len(Trace) /\ Ev.kind = "cfg"
         /\ (l = 1 \/ Terminated)
         /\ Step /\ RestartsAs(CfgOf(Ev))

\* steps that have no yield point
Silent == UNCHANGED l /\ (MPick \/ CPick \/ MGo \/ CGo \/ \E n \in Nodes : WExit(n))

Logged ==
  \/ IsEv("main", "ready")   /\ pcM = "ready"   /\ mCur = Ev.node /\ Step /\ MReady
  \/ IsEv("main", "enter")   /\ mCur = Ev.node /\ Step /\ MEnter
  \/ IsEv("main", "spawn")   /\ mCur = Ev.node /\ Step /\ MSpawn
  \/ IsEv("main", "spawned") /\ mCur = Ev.node /\ Step /\ MSpawned
  \/ IsEv("coord", "ready")   /\ cCur = Ev.node /\ Step /\ CReady
  \/ IsEv("coord", "enter")   /\ cCur = Ev.node /\ Step /\ CEnter
  \/ IsEv("coord", "spawn")   /\ cCur = Ev.node /\ Step /\ CSpawn
  \/ IsEv("coord", "spawned") /\ cCur = Ev.node /\ Step /\ CSpawned
  \/ IsEv("coord", "coord.recv") /\ chan # <<>> /\ Head(chan) = Ev.node /\ Step /\ CRecv
  \/ IsEv("coord", "coord.ctxdone") /\ Step /\ CDone
  \/ IsEv("env", "cancel") /\ Step /\ CallerCancel
  \/ IsEv("w", "worker.start") /\ Ev.node \in Nodes /\ Step /\ WStart(Ev.node)
  \/ IsEv("w", "visit")        /\ Ev.node \in Nodes /\ Step /\ WReturn(Ev.node)
  \/ IsEv("w", "worker.done")  /\ Ev.node \in Nodes /\ Step /\ WDone(Ev.node)
  \/ IsEv("w", "worker.send")  /\ Ev.node \in Nodes /\ Step /\ WSend(Ev.node)
  \/ l <= Len(Trace) /\ Ev.kind = "ret" /\ Step /\ MWait /\ ret' = Ev.ret

\* the empty configuration has no main loop to run: start "returned" so that the first line must be a cfg line
TInit == /\ l = 1
         /\ nn = 0 /\ deps = <<>> /\ inverse = FALSE /\ limit = 0 /\ after = {} /\ fails = {} /\ ext = FALSE
         /\ status = <<>> /\ chan = <<>> /\ expect = 0 /\ sem = 0 /\ cancelled = FALSE /\ egErr = 0
         /\ pcM = "returned" /\ mTodo = {} /\ mCur = 0 /\ pcC = "exit" /\ cTodo = {} /\ cCur = 0
         /\ pcW = <<>> /\ visits = <<>> /\ ret = "pending"
TNext == Reset \/ Silent \/ Logged
TraceSpec == TInit /\ [][TNext]_tvars

\* acceptance: every line of the trace was consumed on some branch (high-water mark of l)
ASSUME TLCSet(1, 0)
Track == TLCSet(1, IF l > TLCGet(1) THEN l ELSE TLCGet(1))
Accepted == TLCGet(1) = Len(Trace) + 1
\* the high-water mark, printed when the trace is rejected so that the first unexplained line can be shown
HighWater == IF TLCGet(1) = Len(Trace) + 1 THEN TRUE ELSE PrintT(<<"REJECTED-AT", TLCGet(1)>>)
Post == HighWater /\ Accepted
=============================================================================
