SPECIFICATION Spec
CONSTANTS P = 2
INVARIANTS NoRace Independent
PROPERTY AllReturn
CHECK_DEADLOCK TRUE
