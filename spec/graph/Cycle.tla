------------------------------- MODULE Cycle -------------------------------
(* graph/cycle.go: depth-first search with an explicit path list, started from every vertex in name order.      *)
(* TLC enumerates every digraph on 1..N nodes (self loops included), checks that the search - written as the    *)
(* code writes it - reports an error exactly when the graph has a cycle (independent definition: a node that    *)
(* reaches itself in the transitive closure), and emits (graph, cyclic) vectors for replay on the real code.    *)
EXTENDS Naturals, Sequences, FiniteSets, TLC, Json, IOUtils, CSV, SequencesExt

CONSTANTS MinN, MaxN

VARIABLES n, edges, done      \* edges \subseteq (1..n) \X (1..n): <<a, b>> = a depends on b

Succ(E, v) == {e[2] : e \in {x \in E : x[1] = v}}

\* the code: searchCycle(path, v): for each child (sorted): if child in path -> error; else recurse with path+child
RECURSIVE Search(_, _, _)
Search(E, path, v) ==
  \E c \in Succ(E, v) :
     \/ \E i \in 1..Len(path) : path[i] = c
     \/ Search(E, Append(path, c), c)
CheckCycleErr(N, E) == \E v \in 1..N : Search(E, <<v>>, v)

\* independent definition
RECURSIVE ReachIn(_, _, _)
ReachIn(E, S, k) == IF k = 0 THEN S ELSE ReachIn(E, S \cup UNION {Succ(E, v) : v \in S}, k - 1)
HasCycle(N, E) == \E v \in 1..N : v \in ReachIn(E, Succ(E, v), N)

Init == /\ n \in MinN..MaxN
        /\ edges \in SUBSET ((1..MaxN) \X (1..MaxN))
        /\ \A e \in edges : e[1] <= n /\ e[2] <= n
        /\ done = FALSE
Next == /\ ~done /\ done' = TRUE /\ UNCHANGED <<n, edges>>
        /\ CSVWrite("%1$s", <<ToJson([n |-> n, edges |-> SetToSeq(edges), cyclic |-> HasCycle(n, edges)])>>, IOEnv.OUT)
Spec == Init /\ [][Next]_<<n, edges, done>>

SearchIsExact == CheckCycleErr(n, edges) <=> HasCycle(n, edges)
=============================================================================
