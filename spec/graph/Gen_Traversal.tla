---------------------------- MODULE Gen_Traversal ----------------------------
(* TLC as behaviour generator: simulate Traversal on the configurations listed in IOEnv.CONFIGS (ndjson) and     *)
(* write, for each terminated behaviour, the sequence of its steps that have a yield point, as one JSON line.    *)
(* The harness merges them into a prefix tree and walks it on the real code.                                     *)
EXTENDS Traversal, Json, IOUtils, SequencesExt, CSV

Configs == ndJsonDeserialize(IOEnv.CONFIGS)
CfgOf(e) == [n |-> e.n, deps |-> [i \in 1..e.n |-> ToSet(e.deps[i])], inverse |-> e.inverse,
             limit |-> e.limit, after |-> ToSet(e.after), fails |-> ToSet(e.fails), ext |-> e.ext]

VARIABLES ci, hist, emitted
gvars == <<vars, ci, hist, emitted>>

H(role, point, n) == hist' = Append(hist, role \o ":" \o point \o ":" \o ToString(n))
Same == UNCHANGED <<ci, emitted>>

GInit == \E i \in 1..Len(Configs) : ci = i /\ StartsAs(CfgOf(Configs[i])) /\ hist = <<>> /\ emitted = FALSE

GNext ==
  \/ Same /\ UNCHANGED hist /\ (MPick \/ CPick \/ MGo \/ CGo \/ MWait \/ \E n \in Nodes : WExit(n))
  \/ Same /\ MReady /\ H("main", "ready", mCur)
  \/ Same /\ MEnter /\ H("main", "enter", mCur)
  \/ Same /\ MSpawn /\ H("main", "spawn", mCur)
  \/ Same /\ MSpawned /\ H("main", "spawned", mCur)
  \/ Same /\ CReady /\ H("coord", "ready", cCur)
  \/ Same /\ CEnter /\ H("coord", "enter", cCur)
  \/ Same /\ CSpawn /\ H("coord", "spawn", cCur)
  \/ Same /\ CSpawned /\ H("coord", "spawned", cCur)
  \/ Same /\ chan # <<>> /\ CRecv /\ H("coord", "coord.recv", Head(chan))
  \/ Same /\ CDone /\ H("coord", "coord.ctxdone", 0)
  \/ Same /\ CallerCancel /\ H("env", "cancel", 0)
  \/ \E n \in Nodes : Same /\ WStart(n) /\ H("w", "worker.start", n)
  \/ \E n \in Nodes : Same /\ WReturn(n) /\ H("w", "visit", n)
  \/ \E n \in Nodes : Same /\ WDone(n) /\ H("w", "worker.done", n)
  \/ \E n \in Nodes : Same /\ WSend(n) /\ H("w", "worker.send", n)
  \/ /\ Terminated /\ ~emitted /\ emitted' = TRUE
     /\ CSVWrite("%1$s", <<ToJson([ci |-> ci, ret |-> ret, labels |-> hist])>>, IOEnv.OUT)
     /\ UNCHANGED <<vars, ci, hist>>
GView == <<vars, ci, emitted>>
GenSpec == GInit /\ [][GNext]_gvars
=============================================================================
