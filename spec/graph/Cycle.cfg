SPECIFICATION Spec
CONSTANTS MinN = 1
  MaxN = 3
INVARIANTS SearchIsExact
CHECK_DEADLOCK FALSE
