SPECIFICATION TraceSpec
CONSTRAINT Track
INVARIANTS OnceEach DepsFirst BoundAlways ChanBounded
POSTCONDITION Post
CHECK_DEADLOCK FALSE
