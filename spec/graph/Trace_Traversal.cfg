SPECIFICATION TraceSpec
CONSTRAINT Track
INVARIANTS OnceEach DepsFirst BoundNoErr ChanBounded
POSTCONDITION Post
CHECK_DEADLOCK FALSE
