SPECIFICATION Spec
CONSTANTS MinN = 1
 MaxN = 3
INVARIANTS CalledOnce Results FirstError AllJoined NoRace
PROPERTY Live
CHECK_DEADLOCK TRUE
