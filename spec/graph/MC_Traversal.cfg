SPECIFICATION Spec
CONSTANTS MinN = 1
  MaxN = 3
  Limits = {0,1,2}
  MaxFail = 1
  RootSets = 1
INVARIANTS OnceEach DepsFirst BoundAlways ReturnAfterAll ResultOK RootsClosure ChanBounded
PROPERTY Live
CHECK_DEADLOCK TRUE
