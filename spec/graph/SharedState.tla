----------------------------- MODULE SharedState -----------------------------
(***************************************************************************)
(* Concurrent loads sharing the library's package-level state.             *)
(*                                                                         *)
(* The inventory of package-level variables that are written after         *)
(* package initialisation is extracted from /repo's source by the harness  *)
(* (go/parser) and given to this module as IOEnv.INVENTORY (ndjson):       *)
(*   [name, feature, guarded]  - feature: which input feature makes a load *)
(*   touch it ("version", "always", "api" = only through a registration    *)
(*   API, never by a load); guarded: every function touching it takes a    *)
(*   lock.                                                                 *)
(* A load is: read the rule tables (read-only after init), then for each   *)
(* inventory variable its input's features reach: read it, then write it   *)
(* (non-atomic brackets), under the variable's lock if it has one.         *)
(* TLC checks that no two loads overlap on a variable with a write         *)
(* involved, and that a load's result is a function of its own input.      *)
(* It also emits every workload (feature assignment) for replay under the  *)
(* race detector.                                                          *)
(***************************************************************************)
EXTENDS Naturals, Sequences, FiniteSets, TLC, Json, IOUtils, CSV

CONSTANTS P                      \* number of concurrent loads
Inventory == ndJsonDeserialize(IOEnv.INVENTORY)
Vars == 1..Len(Inventory)
Features == {"version", "plain"}
Procs == 1..P

VARIABLES input,     \* [proc -> feature of its input]
          pc,        \* [proc -> "start" | "tables" | "var" | "done"]
          cur,       \* [proc -> index of the inventory variable being handled]
          phase,     \* [proc -> "lock" | "rd-begin" | "rd-end" | "wr-begin" | "wr-end" | "unlock"]
          reading, writing,   \* [var -> set of procs inside a read / write bracket]
          lock,      \* [var -> 0 | holder]
          shared,    \* [var -> set of inputs recorded so far]   (what versionWarning-like state holds)
          result,    \* [proc -> <<>> | <<"project", input>>]
          emitted
vars == <<input, pc, cur, phase, reading, writing, lock, shared, result, emitted>>

Touches(p, v) == Inventory[v].feature = "always" \/ Inventory[v].feature = input[p]
NextVar(p, from) == LET S == {v \in Vars : v > from /\ Touches(p, v)} IN
                    IF S = {} THEN 0 ELSE CHOOSE v \in S : \A w \in S : v <= w

Init == /\ input \in [Procs -> Features]
        /\ pc = [p \in Procs |-> "start"] /\ cur = [p \in Procs |-> 0] /\ phase = [p \in Procs |-> "lock"]
        /\ reading = [v \in Vars |-> {}] /\ writing = [v \in Vars |-> {}] /\ lock = [v \in Vars |-> 0]
        /\ shared = [v \in Vars |-> {}] /\ result = [p \in Procs |-> <<>>]
        /\ emitted = FALSE

Emit == /\ ~emitted /\ emitted' = TRUE
        /\ CSVWrite("%1$s", <<ToJson([inputs |-> [p \in Procs |-> input[p]]])>>, IOEnv.OUT)
        /\ UNCHANGED <<input, pc, cur, phase, reading, writing, lock, shared, result>>

Tables(p) == /\ emitted /\ pc[p] = "start" /\ pc' = [pc EXCEPT ![p] = "tables"]
             /\ UNCHANGED <<input, cur, phase, reading, writing, lock, shared, result, emitted>>
Advance(p) == /\ pc[p] = "tables"
              /\ LET v == NextVar(p, cur[p]) IN
                 IF v = 0 THEN pc' = [pc EXCEPT ![p] = "done"] /\ result' = [result EXCEPT ![p] = <<"project", input[p]>>] /\ UNCHANGED <<cur, phase>>
                 ELSE pc' = [pc EXCEPT ![p] = "var"] /\ cur' = [cur EXCEPT ![p] = v] /\ UNCHANGED result
                      /\ phase' = [phase EXCEPT ![p] = IF Inventory[v].guarded THEN "lock" ELSE "rd-begin"]
              /\ UNCHANGED <<input, reading, writing, lock, shared, emitted>>
Access(p) ==
  /\ pc[p] = "var"
  /\ LET v == cur[p] IN
     CASE phase[p] = "lock"     -> lock[v] = 0 /\ lock' = [lock EXCEPT ![v] = p] /\ phase' = [phase EXCEPT ![p] = "rd-begin"]
                                   /\ UNCHANGED <<reading, writing, shared, pc>>
       [] phase[p] = "rd-begin" -> reading' = [reading EXCEPT ![v] = @ \cup {p}] /\ phase' = [phase EXCEPT ![p] = "rd-end"]
                                   /\ UNCHANGED <<writing, lock, shared, pc>>
       [] phase[p] = "rd-end"   -> reading' = [reading EXCEPT ![v] = @ \ {p}] /\ phase' = [phase EXCEPT ![p] = "wr-begin"]
                                   /\ UNCHANGED <<writing, lock, shared, pc>>
       [] phase[p] = "wr-begin" -> writing' = [writing EXCEPT ![v] = @ \cup {p}] /\ phase' = [phase EXCEPT ![p] = "wr-end"]
                                   /\ UNCHANGED <<reading, lock, shared, pc>>
       [] phase[p] = "wr-end"   -> writing' = [writing EXCEPT ![v] = @ \ {p}] /\ shared' = [shared EXCEPT ![v] = @ \cup {input[p]}]
                                   /\ phase' = [phase EXCEPT ![p] = IF Inventory[v].guarded THEN "unlock" ELSE "next"]
                                   /\ UNCHANGED <<reading, lock, pc>>
       [] phase[p] = "unlock"   -> lock' = [lock EXCEPT ![v] = 0] /\ phase' = [phase EXCEPT ![p] = "next"]
                                   /\ UNCHANGED <<reading, writing, shared, pc>>
       [] phase[p] = "next"     -> pc' = [pc EXCEPT ![p] = "tables"] /\ UNCHANGED <<reading, writing, lock, shared, phase>>
  /\ UNCHANGED <<input, cur, result, emitted>>

Next == Emit \/ \E p \in Procs : Tables(p) \/ Advance(p) \/ Access(p)
        \/ ((\A q \in Procs : pc[q] = "done") /\ emitted /\ UNCHANGED vars)
Spec == Init /\ [][Next]_vars /\ WF_vars(Next)

NoRace == \A v \in Vars : /\ Cardinality(writing[v]) <= 1
                          /\ (writing[v] # {} => reading[v] \subseteq writing[v])
Independent == \A p \in Procs : result[p] # <<>> => result[p] = <<"project", input[p]>>
AllReturn == <>(\A p \in Procs : pc[p] = "done")
View == <<input, pc, cur, phase, reading, writing, lock, shared, result>>
=============================================================================
