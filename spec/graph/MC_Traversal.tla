---------------------------- MODULE MC_Traversal ----------------------------
(* Exhaustive exploration: every DAG on 1..MaxN nodes (edges d < n: all DAGs up to isomorphism), both directions, *)
(* the given limits, no root / every single root / (optionally) every pair, up to MaxFail failing visitors.        *)
EXTENDS Traversal

CONSTANTS MinN, MaxN, Limits, MaxFail, RootSets,  \* RootSets: 0 none, 1 singletons, 2 all subsets
          Exts                                   \* subset of BOOLEAN: whether the caller may cancel the context

Valid(c) ==
  /\ DOMAIN c.deps = 1..c.n
  /\ \A i \in 1..c.n : \A j \in c.deps[i] : j < i
  /\ c.after \subseteq 1..c.n /\ c.fails \subseteq 1..c.n
  /\ Cardinality(c.fails) <= MaxFail
  /\ CASE RootSets = 0 -> c.after = {}
       [] RootSets = 1 -> Cardinality(c.after) <= 1
       [] OTHER -> TRUE

Init == \E N \in MinN..MaxN : \E d \in [1..N -> SUBSET (1..N)] :
        \E inv \in BOOLEAN : \E lim \in Limits : \E a \in SUBSET (1..N) : \E f \in SUBSET (1..N) : \E x \in Exts :
          LET c == [n |-> N, deps |-> d, inverse |-> inv, limit |-> lim, after |-> a, fails |-> f, ext |-> x] IN
          Valid(c) /\ StartsAs(c)

\* deadlock freedom is checked by TLC itself (CHECK_DEADLOCK TRUE): the only state without a successor
\* would be one where the call has not returned and nothing can move; a returned call stutters.
MCNext == Next \/ (Terminated /\ UNCHANGED vars)
Spec == Init /\ [][MCNext]_vars /\ WF_vars(Next)
=============================================================================
