------------------------------ MODULE MC_Fanout ------------------------------
EXTENDS Fanout
CONSTANTS MinN, MaxN
Init == \E n \in MinN..MaxN : \E f \in SUBSET (1..n) : StartsAs(n, f)
MCNext == Next \/ (Terminated /\ UNCHANGED vars)
Spec == Init /\ [][MCNext]_vars /\ WF_vars(Next)
=============================================================================
