------------------------------ MODULE Traversal ------------------------------
(***************************************************************************)
(* graph/traversal.go: dependency-ordered, concurrent walk of a project's  *)
(* services (graph.InDependencyOrder / CollectInDependencyOrder).          *)
(*                                                                         *)
(* One action per critical section / blocking point of the code, at the   *)
(* grain of the verif yield points (guard `verif`), so that the trace      *)
(* specification Trace_Traversal re-uses these very actions.               *)
(*                                                                         *)
(*   main        for node in extremityNodes(g): visit(node) ; eg.Wait()    *)
(*   coordinator select { ctx.Done -> return ; node <- nodeCh -> expect--; *)
(*                        for adj in adjacentNodes(node): visit(adj) }     *)
(*   worker n    [skip | cancelled] visitor ; t.done ; nodeCh <- n ;       *)
(*               return err   (cancel precedes the release of the slot)    *)
(*   visit(n)    ready(n) [mu] ; enter(n) [mu] ; eg.Go(worker n) (blocks   *)
(*               while the errgroup has limit+1 goroutines)                *)
(*   caller      may cancel the context it passed in, at any moment (when   *)
(*               the configuration says so): an action of the environment  *)
(***************************************************************************)
EXTENDS Naturals, Sequences, FiniteSets, TLC

VARIABLES nn, deps, inverse, limit, after, fails, ext,   \* configuration (fixed after Init / Reset); ext: the caller may cancel
          status,     \* [node -> "absent" | "entered" | "visited"]   (t.status under t.mu)
          chan,       \* nodeCh, FIFO, capacity nn
          expect,     \* coordinator's countdown
          sem,        \* goroutines currently in the errgroup (coordinator included)
          cancelled,  \* errgroup context cancelled (first error of a worker, or the caller)
          egErr,      \* node whose error the errgroup kept (0 = none, CtxErr = the context's error)
          pcM, mTodo, mCur,      \* main
          pcC, cTodo, cCur,      \* coordinator
          pcW,        \* [node -> "none"|"start"|"visiting"|"after"|"send"|"exit"|"gone"]
          visits,     \* [node -> number of visitor invocations]
          ret         \* "pending" | "nil" | "err"

cfgv  == <<nn, deps, inverse, limit, after, fails, ext>>
mainv == <<pcM, mTodo, mCur>>
cordv == <<pcC, cTodo, cCur>>
vars  == <<cfgv, status, chan, expect, sem, cancelled, egErr, mainv, cordv, pcW, visits, ret>>

Nodes == 1..nn
Children(n) == deps[n]                               \* dependencies of n
Parents(n)  == {m \in Nodes : n \in deps[m]}         \* dependents of n
RECURSIVE Desc(_)
Desc(n) == Children(n) \cup UNION {Desc(c) : c \in Children(n)}
RECURSIVE Anc(_)
Anc(n) == Parents(n) \cup UNION {Anc(p) : p \in Parents(n)}

Waits(n)    == IF inverse THEN Parents(n) ELSE Children(n)    \* must be visited before n
Adjacent(n) == IF inverse THEN Children(n) ELSE Parents(n)    \* looked at when n is done
ExtremitiesOf(N, d, inv) ==
   IF inv THEN {n \in 1..N : \A m \in 1..N : n \notin d[m]} ELSE {n \in 1..N : d[n] = {}}
\* t.skip: roots given, n is not a root and no root is among n's (transitive) dependencies
Skip(n) == after # {} /\ n \notin after /\ after \cap Desc(n) = {}

CtxErr == nn + 1                                      \* egErr value for "the context was cancelled"
Cap == IF limit = 0 THEN nn + 2 ELSE limit + 1       \* eg.SetLimit(maxConcurrency + 1)
Ready(n) == \A d \in Waits(n) : status[d] = "visited"

\* ---------------------------------------------------------------- initial state for a configuration c
\* c = [n, deps (function 1..n -> SUBSET 1..n), inverse, limit, after, fails]
StartsAs(c) ==
  /\ nn = c.n /\ deps = c.deps /\ inverse = c.inverse /\ limit = c.limit
  /\ after = c.after /\ fails = c.fails /\ ext = c.ext
  /\ status = [i \in 1..c.n |-> "absent"]
  /\ chan = <<>> /\ expect = c.n
  /\ sem = 1                                   \* the coordinator is started first
  /\ cancelled = FALSE /\ egErr = 0
  /\ pcM = "iter" /\ mTodo = ExtremitiesOf(c.n, c.deps, c.inverse) /\ mCur = 0
  /\ pcC = "select" /\ cTodo = {} /\ cCur = 0
  /\ pcW = [i \in 1..c.n |-> "none"]
  /\ visits = [i \in 1..c.n |-> 0]
  /\ ret = "pending"

\* the same, as the effect of an action (used by trace specifications that replay several executions)
RestartsAs(c) ==
  /\ nn' = c.n /\ deps' = c.deps /\ inverse' = c.inverse /\ limit' = c.limit
  /\ after' = c.after /\ fails' = c.fails /\ ext' = c.ext
  /\ status' = [i \in 1..c.n |-> "absent"]
  /\ chan' = <<>> /\ expect' = c.n
  /\ sem' = 1
  /\ cancelled' = FALSE /\ egErr' = 0
  /\ pcM' = "iter" /\ mTodo' = ExtremitiesOf(c.n, c.deps, c.inverse) /\ mCur' = 0
  /\ pcC' = "select" /\ cTodo' = {} /\ cCur' = 0
  /\ pcW' = [i \in 1..c.n |-> "none"]
  /\ visits' = [i \in 1..c.n |-> 0]
  /\ ret' = "pending"

\* ---------------------------------------------------------------- main goroutine
MPick == /\ pcM = "iter" /\ mTodo # {}                  \* range over the extremity slice (built from a map)
         /\ \E n \in mTodo : mCur' = n /\ mTodo' = mTodo \ {n}
         /\ pcM' = "ready"
         /\ UNCHANGED <<cfgv, status, chan, expect, sem, cancelled, egErr, cordv, pcW, visits, ret>>
MReady == /\ pcM = "ready"                              \* t.ready under mu
          /\ pcM' = IF Ready(mCur) THEN "enter" ELSE "iter"
          /\ UNCHANGED <<cfgv, status, chan, expect, sem, cancelled, egErr, mTodo, mCur, cordv, pcW, visits, ret>>
MEnter == /\ pcM = "enter"                              \* t.enter under mu
          /\ IF status[mCur] = "absent"
               THEN status' = [status EXCEPT ![mCur] = "entered"] /\ pcM' = "spawn"
               ELSE UNCHANGED status /\ pcM' = "iter"
          /\ UNCHANGED <<cfgv, chan, expect, sem, cancelled, egErr, mTodo, mCur, cordv, pcW, visits, ret>>
MSpawn == /\ pcM = "spawn" /\ pcM' = "spawning"         \* about to call eg.Go
          /\ UNCHANGED <<cfgv, status, chan, expect, sem, cancelled, egErr, mTodo, mCur, cordv, pcW, visits, ret>>
MGo == /\ pcM = "spawning" /\ sem < Cap                 \* eg.Go got a slot (blocks while sem = Cap)
       /\ sem' = sem + 1
       /\ pcW' = [pcW EXCEPT ![mCur] = "start"]
       /\ pcM' = "spawned"
       /\ UNCHANGED <<cfgv, status, chan, expect, cancelled, egErr, mTodo, mCur, cordv, visits, ret>>
MSpawned == /\ pcM = "spawned" /\ pcM' = "iter"         \* eg.Go returned
            /\ UNCHANGED <<cfgv, status, chan, expect, sem, cancelled, egErr, mTodo, mCur, cordv, pcW, visits, ret>>
MWait == /\ pcM = "iter" /\ mTodo = {} /\ sem = 0       \* eg.Wait returns
         /\ pcM' = "returned"
         /\ ret' = IF egErr = 0 THEN "nil" ELSE "err"
         /\ UNCHANGED <<cfgv, status, chan, expect, sem, cancelled, egErr, mTodo, mCur, cordv, pcW, visits>>

\* ---------------------------------------------------------------- coordinator goroutine
CRecv == /\ pcC = "select" /\ chan # <<>>
         /\ chan' = Tail(chan)
         /\ expect' = expect - 1
         /\ IF expect - 1 = 0
              THEN pcC' = "exit" /\ sem' = sem - 1 /\ UNCHANGED <<cTodo, cCur>>
              ELSE pcC' = "iter" /\ cTodo' = Adjacent(Head(chan)) /\ cCur' = 0 /\ UNCHANGED sem
         /\ UNCHANGED <<cfgv, status, cancelled, egErr, mainv, pcW, visits, ret>>
CDone == /\ pcC = "select" /\ cancelled                 \* <-ctx.Done(): leaves with the context's error, releasing its errgroup slot
         /\ pcC' = "exit" /\ sem' = sem - 1                \* (the group keeps the first error: a visitor's, when one failed)
         /\ egErr' = IF egErr = 0 THEN CtxErr ELSE egErr
         /\ UNCHANGED <<cfgv, status, chan, expect, cancelled, mainv, cTodo, cCur, pcW, visits, ret>>
CPick == /\ pcC = "iter"                                \* range over the adjacency map
         /\ IF cTodo = {} THEN pcC' = "select" /\ UNCHANGED <<cTodo, cCur>>
            ELSE \E n \in cTodo : cCur' = n /\ cTodo' = cTodo \ {n} /\ pcC' = "ready"
         /\ UNCHANGED <<cfgv, status, chan, expect, sem, cancelled, egErr, mainv, pcW, visits, ret>>
CReady == /\ pcC = "ready"
          /\ pcC' = IF Ready(cCur) THEN "enter" ELSE "iter"
          /\ UNCHANGED <<cfgv, status, chan, expect, sem, cancelled, egErr, mainv, cTodo, cCur, pcW, visits, ret>>
CEnter == /\ pcC = "enter"
          /\ IF status[cCur] = "absent"
               THEN status' = [status EXCEPT ![cCur] = "entered"] /\ pcC' = "spawn"
               ELSE UNCHANGED status /\ pcC' = "iter"
          /\ UNCHANGED <<cfgv, chan, expect, sem, cancelled, egErr, mainv, cTodo, cCur, pcW, visits, ret>>
CSpawn == /\ pcC = "spawn" /\ pcC' = "spawning"
          /\ UNCHANGED <<cfgv, status, chan, expect, sem, cancelled, egErr, mainv, cTodo, cCur, pcW, visits, ret>>
CGo == /\ pcC = "spawning" /\ sem < Cap
       /\ sem' = sem + 1
       /\ pcW' = [pcW EXCEPT ![cCur] = "start"]
       /\ pcC' = "spawned"
       /\ UNCHANGED <<cfgv, status, chan, expect, cancelled, egErr, mainv, cTodo, cCur, visits, ret>>
CSpawned == /\ pcC = "spawned" /\ pcC' = "iter"
            /\ UNCHANGED <<cfgv, status, chan, expect, sem, cancelled, egErr, mainv, cTodo, cCur, pcW, visits, ret>>

\* ---------------------------------------------------------------- worker goroutine of node n
WStart(n) == /\ pcW[n] = "start"                        \* skip test and cancellation test, then the visitor is invoked
             /\ IF Skip(n) \/ cancelled                         \* once cancelled no new visit starts (the worker returns ctx.Err())
                  THEN pcW' = [pcW EXCEPT ![n] = "after"] /\ UNCHANGED visits
                  ELSE pcW' = [pcW EXCEPT ![n] = "visiting"] /\ visits' = [visits EXCEPT ![n] = @ + 1]
             /\ UNCHANGED <<cfgv, status, chan, expect, sem, cancelled, egErr, mainv, cordv, ret>>
WReturn(n) == /\ pcW[n] = "visiting"                    \* the visitor returns (error iff n \in fails)
              /\ pcW' = [pcW EXCEPT ![n] = "after"]
              /\ UNCHANGED <<cfgv, status, chan, expect, sem, cancelled, egErr, mainv, cordv, visits, ret>>
WDone(n) == /\ pcW[n] = "after"                         \* t.done under mu
            /\ status' = [status EXCEPT ![n] = "visited"]
            /\ pcW' = [pcW EXCEPT ![n] = "send"]
            /\ UNCHANGED <<cfgv, chan, expect, sem, cancelled, egErr, mainv, cordv, visits, ret>>
WSend(n) == /\ pcW[n] = "send"                          \* nodeCh <- n (buffered, capacity nn: never blocks)
            /\ Len(chan) < nn
            /\ chan' = Append(chan, n)
            /\ pcW' = [pcW EXCEPT ![n] = "exit"]
            /\ UNCHANGED <<cfgv, status, expect, sem, cancelled, egErr, mainv, cordv, visits, ret>>
WExit(n) == /\ pcW[n] = "exit"                          \* goroutine returns: slot released, first error cancels
            /\ pcW' = [pcW EXCEPT ![n] = "gone"]
            /\ sem' = sem - 1
            /\ IF n \in fails /\ visits[n] = 1                  \* its visitor ran and returned an error
                 THEN /\ cancelled' = TRUE
                      /\ egErr' = IF egErr = 0 THEN n ELSE egErr
                 ELSE IF ~Skip(n) /\ visits[n] = 0                 \* it found the context cancelled and returned ctx.Err()
                 THEN /\ egErr' = IF egErr = 0 THEN CtxErr ELSE egErr
                      /\ UNCHANGED cancelled
                 ELSE UNCHANGED <<cancelled, egErr>>
            /\ UNCHANGED <<cfgv, status, chan, expect, mainv, cordv, visits, ret>>

\* ---------------------------------------------------------------- the caller (environment)
CallerCancel == /\ ext /\ pcM # "returned"                      \* (cancelling an already cancelled context changes nothing)
                /\ cancelled' = TRUE
                /\ UNCHANGED <<cfgv, status, chan, expect, sem, egErr, mainv, cordv, pcW, visits, ret>>

MainNext  == MPick \/ MReady \/ MEnter \/ MSpawn \/ MGo \/ MSpawned \/ MWait
CoordNext == CRecv \/ CDone \/ CPick \/ CReady \/ CEnter \/ CSpawn \/ CGo \/ CSpawned
WorkNext  == \E n \in Nodes : WStart(n) \/ WReturn(n) \/ WDone(n) \/ WSend(n) \/ WExit(n)
Next == MainNext \/ CoordNext \/ WorkNext \/ CallerCancel

Terminated == pcM = "returned"

\* ---------------------------------------------------------------- the property (C13), as state predicates
Visiting == {n \in Nodes : pcW[n] = "visiting"}
VisitorReturned(n) == pcW[n] \in {"after", "send", "exit", "gone"}
OnceEach == \A n \in Nodes : visits[n] <= 1
\* a visitor runs only if the visitors of everything it waits for have returned (skipped nodes have no visitor)
DepsFirst == \A n \in Visiting : \A d \in Waits(n) : ~Skip(d) => VisitorReturned(d)
BoundNoErr == (limit > 0 /\ ~cancelled) => Cardinality(Visiting) <= limit
BoundAlways == limit > 0 => Cardinality(Visiting) <= limit
ReturnAfterAll == Terminated => \A n \in Nodes : pcW[n] \in {"none", "gone"}
\* nil only when all services were visited (whoever cancelled); otherwise the first visitor error, or - when the caller
\* cancelled and no visitor failed before - the context's error
ResultOK == Terminated =>
              /\ (ret = "nil") <=> (egErr = 0)
              /\ ret = "err" => \/ (egErr \in fails /\ visits[egErr] = 1)          \* the error of a visitor that ran
                                \/ (ext /\ egErr = CtxErr)                          \* or, when the caller cancelled, the context's
              /\ ret = "nil" => \A n \in Nodes : ~(n \in fails /\ visits[n] = 1)
              /\ ret = "nil" => \A n \in Nodes : visits[n] = (IF Skip(n) THEN 0 ELSE 1)
              /\ ~ext => (ret = "nil") <=> (\A n \in Nodes : ~(n \in fails /\ visits[n] = 1))
\* with roots: visited = roots and everything that transitively depends on one
RootsClosure == (Terminated /\ ret = "nil" /\ after # {}) =>
                  {n \in Nodes : visits[n] = 1} = after \cup UNION {Anc(r) : r \in after}
ChanBounded == Len(chan) <= nn
NoDeadlock == (ENABLED Next) \/ Terminated
Live == <>Terminated
=============================================================================
