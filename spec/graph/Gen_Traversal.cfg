SPECIFICATION GenSpec
INVARIANTS OnceEach DepsFirst BoundNoErr ChanBounded
CHECK_DEADLOCK FALSE
