SPECIFICATION GenSpec
INVARIANTS OnceEach DepsFirst BoundAlways ChanBounded
CHECK_DEADLOCK FALSE
