------------------------------- MODULE Fanout -------------------------------
(***************************************************************************)
(* types.Project.WithServicesTransform (and WithImagesResolved, which     *)
(* is a transform): deep copy, a collector goroutine, one goroutine per    *)
(* service calling the supplied function, results through a buffered       *)
(* channel, errgroup first-error cancellation.                             *)
(*                                                                         *)
(*   main       newProject := deepCopy ; services := newProject.Services ; *)
(*              eg.Go(collector) ;                                         *)
(*              for n, s := range services { eg.Go(worker n) }             *)
(*              return newProject, eg.Wait()                               *)
(*   collector  s := {} ; for expect > 0 { select { ctx.Done -> return ;   *)
(*              r <- resultCh -> s[r.name] = r.service ; expect-- } }      *)
(*              newProject.Services = s                                    *)
(*   worker n   updated, err := fn(n) ; if err -> return err ;             *)
(*              resultCh <- (n, updated)                                   *)
(*                                                                         *)
(* The field newProject.Services is shared by main (reads it once, before  *)
(* the collector is started - since the fix of the N = 0 race, where the   *)
(* read used to follow eg.Go(collector)) and the collector (writes it at   *)
(* the end); its accesses are modelled as non-atomic brackets so that TLC  *)
(* can find overlaps.                                                      *)
(***************************************************************************)
EXTENDS Naturals, Sequences, FiniteSets, TLC

VARIABLES nsvc, fails,      \* configuration
          pcM, mTodo,       \* main: "range-begin" | "range-end" | "go-collector" | "spawn" | "wait" | "returned"
          pcC, expect, got, \* collector: "test" | "select" | "wr-begin" | "wr-end" | "exit" ; got = names collected in s
          resultCh, sem, cancelled, egErr,
          pcW,              \* [svc -> "none" | "start" | "infn" | "after" | "gone"]
          called,           \* [svc -> number of calls of fn]
          services,         \* "copy" (the deep-copied map) | "collected" (the collector's map)
          reading, writing, \* access brackets on newProject.Services
          ret

cfgv == <<nsvc, fails>>
vars == <<cfgv, pcM, mTodo, pcC, expect, got, resultCh, sem, cancelled, egErr, pcW, called, services, reading, writing, ret>>
Svcs == 1..nsvc

StartsAs(n, f) ==
  /\ nsvc = n /\ fails = f
  /\ pcM = "range-begin" /\ mTodo = {}
  /\ pcC = "none" /\ expect = n /\ got = {}
  /\ resultCh = <<>> /\ sem = 0 /\ cancelled = FALSE /\ egErr = 0
  /\ pcW = [i \in 1..n |-> "none"] /\ called = [i \in 1..n |-> 0]
  /\ services = "copy" /\ reading = FALSE /\ writing = FALSE
  /\ ret = "pending"

\* ------------------------------------------------------------ main
MGoCollector == /\ pcM = "go-collector" /\ pcM' = "spawn" /\ pcC' = "test" /\ sem' = sem + 1
                /\ UNCHANGED <<cfgv, mTodo, expect, got, resultCh, cancelled, egErr, pcW, called, services, reading, writing, ret>>
MRangeBegin == /\ pcM = "range-begin" /\ pcM' = "range-end" /\ reading' = TRUE     \* evaluates newProject.Services
               /\ UNCHANGED <<cfgv, mTodo, pcC, expect, got, resultCh, sem, cancelled, egErr, pcW, called, services, writing, ret>>
MRangeEnd == /\ pcM = "range-end" /\ pcM' = "go-collector" /\ reading' = FALSE
             /\ mTodo' = (IF services = "copy" THEN Svcs ELSE got)
             /\ UNCHANGED <<cfgv, pcC, expect, got, resultCh, sem, cancelled, egErr, pcW, called, services, writing, ret>>
MSpawn == /\ pcM = "spawn"
          /\ IF mTodo = {} THEN pcM' = "wait" /\ UNCHANGED <<mTodo, pcW, sem>>
             ELSE \E n \in mTodo : mTodo' = mTodo \ {n} /\ pcW' = [pcW EXCEPT ![n] = "start"] /\ sem' = sem + 1 /\ UNCHANGED pcM
          /\ UNCHANGED <<cfgv, pcC, expect, got, resultCh, cancelled, egErr, called, services, reading, writing, ret>>
MWait == /\ pcM = "wait" /\ sem = 0 /\ pcM' = "returned"
         /\ ret' = IF egErr = 0 THEN "nil" ELSE "err"
         /\ UNCHANGED <<cfgv, mTodo, pcC, expect, got, resultCh, sem, cancelled, egErr, pcW, called, services, reading, writing>>

\* ------------------------------------------------------------ collector
CTest == /\ pcC = "test" /\ pcC' = (IF expect > 0 THEN "select" ELSE "wr-begin")
         /\ UNCHANGED <<cfgv, pcM, mTodo, expect, got, resultCh, sem, cancelled, egErr, pcW, called, services, reading, writing, ret>>
CRecv == /\ pcC = "select" /\ resultCh # <<>>
         /\ got' = got \cup {Head(resultCh)} /\ resultCh' = Tail(resultCh) /\ expect' = expect - 1 /\ pcC' = "test"
         /\ UNCHANGED <<cfgv, pcM, mTodo, sem, cancelled, egErr, pcW, called, services, reading, writing, ret>>
CDone == /\ pcC = "select" /\ cancelled /\ pcC' = "exit" /\ sem' = sem - 1
         /\ UNCHANGED <<cfgv, pcM, mTodo, expect, got, resultCh, cancelled, egErr, pcW, called, services, reading, writing, ret>>
CWrBegin == /\ pcC = "wr-begin" /\ pcC' = "wr-end" /\ writing' = TRUE
            /\ UNCHANGED <<cfgv, pcM, mTodo, expect, got, resultCh, sem, cancelled, egErr, pcW, called, services, reading, ret>>
CWrEnd == /\ pcC = "wr-end" /\ pcC' = "exit" /\ writing' = FALSE /\ services' = "collected" /\ sem' = sem - 1
          /\ UNCHANGED <<cfgv, pcM, mTodo, expect, got, resultCh, cancelled, egErr, pcW, called, reading, ret>>

\* ------------------------------------------------------------ worker of service n
WCall(n) == /\ pcW[n] = "start" /\ pcW' = [pcW EXCEPT ![n] = "infn"] /\ called' = [called EXCEPT ![n] = @ + 1]
            /\ UNCHANGED <<cfgv, pcM, mTodo, pcC, expect, got, resultCh, sem, cancelled, egErr, services, reading, writing, ret>>
WRet(n) == /\ pcW[n] = "infn" /\ pcW' = [pcW EXCEPT ![n] = "after"]                    \* fn returns
           /\ UNCHANGED <<cfgv, pcM, mTodo, pcC, expect, got, resultCh, sem, cancelled, egErr, called, services, reading, writing, ret>>
WFinish(n) == /\ pcW[n] = "after" /\ pcW' = [pcW EXCEPT ![n] = "gone"] /\ sem' = sem - 1
              /\ IF n \in fails
                   THEN cancelled' = TRUE /\ egErr' = (IF egErr = 0 THEN n ELSE egErr) /\ UNCHANGED resultCh
                   ELSE Len(resultCh) < nsvc /\ resultCh' = Append(resultCh, n) /\ UNCHANGED <<cancelled, egErr>>
              /\ UNCHANGED <<cfgv, pcM, mTodo, pcC, expect, got, called, services, reading, writing, ret>>

Next == MGoCollector \/ MRangeBegin \/ MRangeEnd \/ MSpawn \/ MWait
        \/ CTest \/ CRecv \/ CDone \/ CWrBegin \/ CWrEnd
        \/ \E n \in Svcs : WCall(n) \/ WRet(n) \/ WFinish(n)
Terminated == pcM = "returned"

\* ------------------------------------------------------------ properties (C19, parallel operations)
CalledOnce == \A n \in Svcs : called[n] <= 1
Results == (Terminated /\ ret = "nil") => services = "collected" /\ got = Svcs /\ \A n \in Svcs : called[n] = 1
FirstError == Terminated => /\ (ret = "err") <=> (\E n \in fails : called[n] = 1)
                            /\ ret = "err" => egErr \in fails /\ called[egErr] = 1
AllJoined == Terminated => pcC = "exit" /\ \A n \in Svcs : pcW[n] \in {"none", "gone"}
NoRace == ~(reading /\ writing)
Live == <>Terminated
=============================================================================
