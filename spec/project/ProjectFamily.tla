--------------------------- MODULE ProjectFamily ---------------------------
(* The family of initial projects and the operation alphabet shared by the model-checking and the reachability modules. *)
EXTENDS ProjectOps

CONSTANTS ProfSets,     \* the profile sets a service may carry
          EdgeKinds,    \* subset of {"none", "req", "opt"} per potential edge d < s
          UsePatterns   \* resource-use patterns per service (indices into Patterns)

Patterns == << [net |-> {}, vol |-> {}, sec |-> {}, cfg |-> {}],
               [net |-> {"n1"}, vol |-> {"v1", "v2"}, sec |-> {}, cfg |-> {}],          \* v2 is used but not declared
               [net |-> {"n1", "n2"}, vol |-> {}, sec |-> {"x1"}, cfg |-> {"c1"}],
               [net |-> {}, vol |-> {}, sec |-> {"x2"}, cfg |-> {}] >>                   \* x2 is a build secret: the service's only reference
Declared == [net |-> {"n1", "n2", "n9"}, vol |-> {"v1", "v9"}, sec |-> {"x1", "x2", "x9"}, cfg |-> {"c1", "c9"}]

Pairs == {<<s, d>> \in Svc \X Svc : d < s}
InitProjects ==
  { [enabled |-> Svc, disabled |-> {}, profiles |-> {},
     sprof |-> sp,
     req |-> [s \in Svc |-> {d \in Svc : d < s /\ ek[<<s, d>>] = "req"}],
     opt |-> [s \in Svc |-> {d \in Svc : d < s /\ ek[<<s, d>>] = "opt"}],
     uses |-> [s \in Svc |-> Patterns[up[s]]],
     decl |-> Declared]
    : sp \in [Svc -> ProfSets], ek \in [Pairs -> EdgeKinds], up \in [Svc -> UsePatterns] }

NameSets == SUBSET Svc
Ops == {[op |-> "profiles", P |-> P] : P \in SUBSET (Profs \cup {"*"})}
  \cup {[op |-> "enable", names |-> ns] : ns \in NameSets}
  \cup {[op |-> "disable", names |-> ns] : ns \in NameSets}
  \cup {[op |-> "select", names |-> ns, policy |-> pol] : ns \in NameSets, pol \in PolicySet}
  \cup {[op |-> "prune"]}
=============================================================================
