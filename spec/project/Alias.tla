------------------------------- MODULE Alias -------------------------------
(***************************************************************************)
(* Projects as immutable values (C14).  A project is a set of heap objects *)
(* (maps, slices, pointers); every derivation is "deep copy, then the      *)
(* operation on the copy".  The module states the three clauses of the     *)
(* property over one recorded derivation and carries the rule table that   *)
(* says which parts an operation is allowed to affect.                     *)
(***************************************************************************)
EXTENDS Naturals, Sequences, FiniteSets, TLC

\* top-level fields of types.Project an operation may change (everything else must be carried over unchanged)
AffectedTop(op) ==
  CASE op = "WithProfiles"                 -> {"Services", "DisabledServices", "Profiles"}
    [] op = "WithServicesEnabled"          -> {"Services", "DisabledServices", "Profiles"}
    [] op = "WithServicesDisabled"         -> {"Services", "DisabledServices"}
    [] op = "WithSelectedServices"         -> {"Services", "DisabledServices"}
    [] op = "WithoutUnnecessaryResources"  -> {"Networks", "Volumes", "Secrets", "Configs"}
    [] op = "WithImagesResolved"           -> {"Services"}
    [] op = "WithServicesTransform"        -> {"Services"}
    [] op = "WithServicesEnvironmentResolved" -> {"Services"}
    [] op = "WithServicesLabelsResolved"   -> {"Services"}
    [] op = "ForEachService"               -> {}
    [] op = "MarshalYAML"                  -> {}
    [] op = "MarshalJSON"                  -> {}
    [] OTHER -> {}
\* fields of a service an operation may change in a service that exists on both sides
AffectedSvc(op) ==
  CASE op \in {"WithServicesDisabled", "WithSelectedServices"} -> {"DependsOn"}
    [] op = "WithServicesEnabled"             -> {"Environment", "EnvFiles"}
    [] op = "WithServicesEnvironmentResolved" -> {"Environment", "EnvFiles"}
    [] op = "WithServicesLabelsResolved"      -> {"Labels", "LabelFiles"}
    [] op = "WithImagesResolved"              -> {"Image"}
    [] op = "WithServicesTransform"           -> {"Image", "Labels"}     \* what the harness' transform function changes
    [] OTHER -> {}

\* one recorded derivation e (see harness/checks/c14.go):
\*   op, before, after          hashes of the receiver's canonical deep dump around the call
\*   shared                     heap objects reachable from both receiver and result, outside extension payloads
\*   leaks                      objects of the result whose mutation changed the receiver's dump
\*   topdiff, svcdiff           top-level / per-service fields that differ between receiver and result
ReceiverUnchanged(e) == e.before = e.after
Disjoint(e)          == e.shared = {} /\ e.leaks = {}
Carries(e)           == e.topdiff \subseteq AffectedTop(e.op) /\ e.svcdiff \subseteq AffectedSvc(e.op)
Immutable(e) == ReceiverUnchanged(e) /\ Disjoint(e) /\ Carries(e)
=============================================================================
