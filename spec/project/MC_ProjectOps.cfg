SPECIFICATION Spec
CONSTANTS N = 2
 Profs = {"p", "q"}
 ProfSets = {{}, {"p"}, {"p", "q"}}
 EdgeKinds = {"none", "req", "opt"}
 UsePatterns = {1, 2, 3}
 MaxDepth = 2
INVARIANTS StepsOK PartitionAlways Functional
CHECK_DEADLOCK FALSE
