---------------------------- MODULE Trace_Alias ----------------------------
(* TLC judges recorded derivations of the real library against Alias.tla; see Trace_ProjectOps for the pattern. *)
EXTENDS Alias, Json, IOUtils, SequencesExt
Trace == ndJsonDeserialize(IOEnv.TRACE)
EvOf(j) == [op |-> j.op, before |-> j.before, after |-> j.after, shared |-> ToSet(j.shared), leaks |-> ToSet(j.leaks),
            topdiff |-> ToSet(j.topdiff), svcdiff |-> ToSet(j.svcdiff)]
VARIABLES l, bad
Init == l = 1 /\ bad = <<>>
Next == /\ l <= Len(Trace) /\ l' = l + 1
        /\ LET e == EvOf(Trace[l]) IN
           bad' = (IF ~Immutable(e) /\ Len(bad) < 200
                   THEN Append(bad, <<l, ReceiverUnchanged(e), Disjoint(e), Carries(e)>>) ELSE bad)
Spec == Init /\ [][Next]_<<l, bad>>
Report == l <= Len(Trace) \/ PrintT(<<"VERDICTS", l - 1, bad>>)
=============================================================================
