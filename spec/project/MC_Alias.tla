------------------------------ MODULE MC_Alias ------------------------------
(* Design-level model: a heap of objects with values; projects are sets of objects; Derive copies the receiver's  *)
(* objects to fresh ones and then changes some of the copies; Mutate changes one object.  TLC checks that no      *)
(* sequence of derivations and mutations lets a mutation of one project show through another - and, with          *)
(* CopyAll = FALSE (a derivation that re-uses one receiver object), that the invariant catches it.                *)
EXTENDS Naturals, Sequences, FiniteSets, TLC
CONSTANTS MaxObj, MaxProj, CopyAll
VARIABLES heap,      \* [object id -> value]
          projs,     \* sequence of [objs: set of ids]
          snap       \* sequence: value of each project (as a bag of values) when it was produced or last mutated by itself
vars == <<heap, projs, snap>>
ValueOf(P) == [o \in P.objs |-> heap[o]]
Init == heap = (1 :> 0 @@ 2 :> 0) /\ projs = << [objs |-> {1, 2}] >> /\ snap = << (1 :> 0 @@ 2 :> 0) >>
Fresh(k) == (Cardinality(DOMAIN heap) + 1)..(Cardinality(DOMAIN heap) + k)
Derive(i) == /\ Len(projs) < MaxProj /\ Cardinality(DOMAIN heap) + 2 <= MaxObj
             /\ LET src == projs[i]
                    a == CHOOSE o \in src.objs : \A p \in src.objs : o <= p
                    b == CHOOSE o \in src.objs : o # a
                    n1 == Cardinality(DOMAIN heap) + 1  n2 == n1 + 1 IN
                IF CopyAll
                  THEN /\ heap' = heap @@ (n1 :> heap[a] @@ n2 :> heap[b] + 1)          \* copy, then the op changes the copy
                       /\ projs' = Append(projs, [objs |-> {n1, n2}])
                       /\ snap' = Append(snap, (n1 :> heap[a] @@ n2 :> heap[b] + 1))
                  ELSE /\ heap' = heap @@ (n1 :> heap[a])                                 \* re-uses object b of the receiver
                       /\ projs' = Append(projs, [objs |-> {n1, b}])
                       /\ snap' = Append(snap, (n1 :> heap[a] @@ b :> heap[b]))
Mutate(i) == \E o \in projs[i].objs :
               /\ heap[o] < 2
               /\ heap' = [heap EXCEPT ![o] = @ + 1]
               /\ snap' = [snap EXCEPT ![i] = [snap[i] EXCEPT ![o] = heap[o] + 1]]
               /\ UNCHANGED projs
Next == \E i \in 1..Len(projs) : Derive(i) \/ Mutate(i)
Spec == Init /\ [][Next]_vars
\* every project still has the value it had when produced, up to its own mutations
Isolated == \A i \in 1..Len(projs) : ValueOf(projs[i]) = snap[i]
=============================================================================
