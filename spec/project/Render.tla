------------------------------- MODULE Render -------------------------------
(***************************************************************************)
(* Marshal / reload round trip (C09).  One recorded round trip e:          *)
(*   format     "yaml" | "json"                                            *)
(*   renderErr  error text of rendering P0 ("" if none)                    *)
(*   reloadErr  error text of loading the rendering ("" if none)           *)
(*   diff       the parts among {name, services, networks, volumes,        *)
(*              secrets, configs, extensions} in which the reloaded        *)
(*              project differs from P0 (for JSON: after removing          *)
(*              extension attributes below the top level from both)        *)
(*   stable     rendering the reloaded project gives identical bytes       *)
(*   precond    enabled services do not reference profile-disabled ones    *)
(* The behaviour Load -> Marshal -> Load -> Marshal is a four-step state   *)
(* machine; the property is an invariant of its final state.               *)
(***************************************************************************)
EXTENDS Naturals, Sequences, FiniteSets, TLC
Parts == {"name", "services", "networks", "volumes", "secrets", "configs", "extensions"}
RoundTrip(e) == e.precond => (e.renderErr = "" /\ e.reloadErr = "" /\ e.diff = {} /\ e.stable)
Which(e) == IF ~e.precond THEN "ok"
            ELSE IF e.renderErr # "" THEN "render-fails"
            ELSE IF e.reloadErr # "" THEN "reload-fails"
            ELSE IF e.diff # {} THEN "differs"
            ELSE IF ~e.stable THEN "unstable"
            ELSE "ok"
=============================================================================
