SPECIFICATION Spec
CONSTANTS MaxObj = 8
 MaxProj = 3
 CopyAll = TRUE
INVARIANTS Isolated
CHECK_DEADLOCK FALSE
