SPECIFICATION Spec
CONSTANTS N = 3
 Profs = {"p", "q"}
INVARIANTS Report
CHECK_DEADLOCK FALSE
