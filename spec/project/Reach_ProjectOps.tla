--------------------------- MODULE Reach_ProjectOps ---------------------------
(* The abstract projects reachable from the family by the operations; TLC's state dump lists them and the harness *)
(* builds a real types.Project for each, applies every operation of the real library to it and lets TLC judge     *)
(* the recorded transitions (Trace_ProjectOps).                                                                   *)
EXTENDS ProjectFamily
VARIABLE proj
Init == \E p \in InitProjects : proj = WithProfiles(p, {})
Next == \E o \in Ops : \E r \in Results(proj, o) : ~IsErr(r) /\ proj' = r
Spec == Init /\ [][Next]_proj
PartitionAlways == Partition(proj, Svc)
=============================================================================
