---------------------------- MODULE MC_ProjectOps ----------------------------
(* Reachability over abstract projects: from every initial project of the family, every operation with every      *)
(* argument, with every explored transition kept in the state (variable step) so that the invariants can state     *)
(* C15 on the specification itself: every admissible result of every operation satisfies the statement.           *)
EXTENDS ProjectFamily

CONSTANTS MaxDepth

VARIABLES proj, step, depth
vars == <<proj, step, depth>>

\* a freshly loaded project has had its profiles applied: start from WithProfiles({})
Init == \E p \in InitProjects : proj = WithProfiles(p, {}) /\ step = [seed |-> TRUE] /\ depth = 0
Next == /\ depth < MaxDepth
        /\ \E o \in Ops :
             LET R == Results(proj, o) IN
             /\ step' = [pre |-> proj, o |-> o, posts |-> R]
             /\ \E r \in R : proj' = (IF IsErr(r) THEN proj ELSE r)
             /\ depth' = depth + 1
Spec == Init /\ [][Next]_vars

StepsOK == "seed" \in DOMAIN step \/ \A r \in step.posts : StepOK(step.pre, step.o, r)
PartitionAlways == Partition(proj, Svc)
\* repeated on the same project an operation is a function
Functional == "seed" \in DOMAIN step \/ Cardinality(step.posts) = 1
=============================================================================
