----------------------------- MODULE ProjectOps -----------------------------
(***************************************************************************)
(* The selection operations of types.Project on an abstract project:       *)
(*   WithProfiles, WithServicesEnabled, WithServicesDisabled,              *)
(*   WithSelectedServices (dependencies | dependents | none),              *)
(*   WithoutUnnecessaryResources.                                          *)
(* Services are 1..N (the harness names them s1..sN; the slices it passes  *)
(* are in increasing order). An abstract project is a record:              *)
(*   enabled, disabled \subseteq Svc      the partition                    *)
(*   profiles \subseteq Profs \cup {"*"}  active profiles                  *)
(*   sprof[s] \subseteq Profs             profiles of service s            *)
(*   req[s], opt[s] \subseteq Svc         required / optional depends_on   *)
(*   uses[s] = [net, vol, sec, cfg]       resources referenced by s        *)
(*   decl = [net, vol, sec, cfg]          declared top-level resources     *)
(* Operations are operators from a project (and arguments) to the set of   *)
(* admissible results, or to Err.                                          *)
(***************************************************************************)
EXTENDS Naturals, Sequences, FiniteSets, TLC

CONSTANTS N, Profs
Svc == 1..N
Err == [error |-> TRUE]
IsErr(x) == "error" \in DOMAIN x

All(p) == p.enabled \cup p.disabled
Deps(p, s) == p.req[s] \cup p.opt[s]
HasProfile(p, s, P) == p.sprof[s] = {} \/ "*" \in P \/ p.sprof[s] \cap P # {}

\* ------------------------------------------------------------ WithProfiles(P): exact
WithProfiles(p, P) ==
  LET en == {s \in All(p) : HasProfile(p, s, P)} IN
  [p EXCEPT !.enabled = en, !.disabled = All(p) \ en, !.profiles = P]

\* ------------------------------------------------------------ WithServicesEnabled(names)
\* the profiles of the named services that are not enabled yet are activated (on top of the active ones)
WithServicesEnabled(p, names) ==
  IF names = {} THEN p
  ELSE WithProfiles(p, p.profiles \cup UNION {p.sprof[s] : s \in (names \cap p.disabled)})

\* ------------------------------------------------------------ WithServicesDisabled(names), names taken in increasing order
DisableOne(p, n) ==
  LET q == [p EXCEPT !.req = [s \in Svc |-> IF s \in p.enabled THEN p.req[s] \ {n} ELSE p.req[s]],
                     !.opt = [s \in Svc |-> IF s \in p.enabled THEN p.opt[s] \ {n} ELSE p.opt[s]]] IN
  IF n \in p.enabled THEN [q EXCEPT !.enabled = p.enabled \ {n}, !.disabled = p.disabled \cup {n}] ELSE q
RECURSIVE DisableSeq(_, _)
DisableSeq(p, ns) == IF ns = <<>> THEN p ELSE DisableSeq(DisableOne(p, Head(ns)), Tail(ns))
RECURSIVE Sorted(_)
Sorted(S) == IF S = {} THEN <<>> ELSE LET m == CHOOSE x \in S : \A y \in S : x <= y IN <<m>> \o Sorted(S \ {m})
WithServicesDisabled(p, names) == DisableSeq(p, Sorted(names))

\* ------------------------------------------------------------ WithSelectedServices(names, policy)
\* closure over enabled services; a named service, or a required dependency, that is not an enabled service is an error;
\* a missing optional dependency is tolerated
RECURSIVE DepClosure(_, _, _)
DepClosure(p, frontier, seen) ==
  IF frontier = {} THEN seen
  ELSE LET nxt == UNION {Deps(p, s) : s \in frontier} \cap p.enabled IN
       DepClosure(p, nxt \ (seen \cup frontier), seen \cup frontier)
RECURSIVE DependentClosure(_, _, _)
DependentClosure(p, frontier, seen) ==
  IF frontier = {} THEN seen
  ELSE LET nxt == {m \in p.enabled : Deps(p, m) \cap frontier # {}} IN
       DependentClosure(p, nxt \ (seen \cup frontier), seen \cup frontier)
Kept(p, names, policy) ==
  CASE policy = "deps" -> DepClosure(p, names, {})
    [] policy = "dependents" -> DependentClosure(p, names, {})
    [] policy = "none" -> names
SelectError(p, names, policy) ==
  \/ \E n \in names : n \notin p.enabled
  \/ policy = "deps" /\ \E s \in DepClosure(p, names \cap p.enabled, {}) : \E d \in p.req[s] : d \notin p.enabled
\* kept services lose their edges to services that are not kept; the others are disabled one after the other in
\* increasing order (each disabling strips the edges of the services still enabled at that point)
WithSelectedServices(p, names, policy) ==
  IF names = {} THEN {p}
  ELSE IF SelectError(p, names, policy) THEN {Err}
  ELSE LET keep == Kept(p, names, policy)
           q == DisableSeq(p, Sorted(p.enabled \ keep)) IN
       { [q EXCEPT !.req = [s \in Svc |-> IF s \in keep THEN p.req[s] \cap keep ELSE q.req[s]],
                   !.opt = [s \in Svc |-> IF s \in keep THEN p.opt[s] \cap keep ELSE q.opt[s]]] }

\* ------------------------------------------------------------ WithoutUnnecessaryResources: exact
Used(p, kind) == UNION {p.uses[s][kind] : s \in p.enabled}
Prune(p) == [p EXCEPT !.decl = [kind \in DOMAIN p.decl |-> p.decl[kind] \cap Used(p, kind)]]

\* ------------------------------------------------------------ operations as data
PolicySet == {"deps", "dependents", "none"}
Results(p, o) ==
  CASE o.op = "profiles" -> {WithProfiles(p, o.P)}
    [] o.op = "enable"   -> {WithServicesEnabled(p, o.names)}
    [] o.op = "disable"  -> {WithServicesDisabled(p, o.names)}
    [] o.op = "select"   -> WithSelectedServices(p, o.names, o.policy)
    [] o.op = "prune"    -> {Prune(p)}

\* ------------------------------------------------------------ the property (C15) as predicates on (pre, op, post)
Partition(p, universe) == p.enabled \cap p.disabled = {} /\ p.enabled \cup p.disabled = universe
NoDangling(p) == \A s \in p.enabled : Deps(p, s) \subseteq p.enabled
StepOK(pre, o, post) ==
  IF IsErr(post) THEN o.op = "select"
  ELSE
  /\ Partition(post, All(pre))                                     \* never loses or duplicates a service
  /\ (o.op = "profiles" => post.enabled = {s \in All(pre) : HasProfile(pre, s, o.P)})
  /\ (o.op = "enable" => /\ (o.names \cap All(pre)) \subseteq post.enabled
                         /\ \A s \in o.names \cap pre.disabled : pre.sprof[s] \subseteq post.profiles)
  /\ (o.op = "disable" => post.enabled = pre.enabled \ o.names /\ (\A s \in post.enabled : Deps(post, s) \cap o.names = {}))
  /\ (o.op = "select" /\ o.names # {} => post.enabled = Kept(pre, o.names, o.policy) /\ NoDangling(post))
  /\ (o.op = "prune" => \A kind \in DOMAIN pre.decl : post.decl[kind] = pre.decl[kind] \cap Used(pre, kind))
  /\ (o.op # "prune" => post.decl = pre.decl)
=============================================================================
