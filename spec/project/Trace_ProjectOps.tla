--------------------------- MODULE Trace_ProjectOps ---------------------------
(* TLC as judge of recorded transitions of the real library: each line of IOEnv.TRACE is                          *)
(*   [pre, o, post]  with pre/post abstract projects (or post = [error |-> TRUE]) projected from real             *)
(* types.Project values before and after one real operation.  A line is                                            *)
(*   "violation" if the statement-level relation StepOK(pre, o, post) is false,                                    *)
(*   "drift"     if StepOK holds but post is not among the results the specification admits,                       *)
(*   "ok"        otherwise.  The verdict list is printed at the end; every line is judged.                         *)
EXTENDS ProjectOps, Json, IOUtils, SequencesExt

Trace == ndJsonDeserialize(IOEnv.TRACE)

SetOf(x) == ToSet(x)
ProjOf(j) ==
  IF "error" \in DOMAIN j THEN Err
  ELSE [enabled |-> SetOf(j.enabled), disabled |-> SetOf(j.disabled), profiles |-> SetOf(j.profiles),
        sprof |-> [s \in Svc |-> SetOf(j.sprof[s])],
        req |-> [s \in Svc |-> SetOf(j.req[s])], opt |-> [s \in Svc |-> SetOf(j.opt[s])],
        uses |-> [s \in Svc |-> [net |-> SetOf(j.uses[s].net), vol |-> SetOf(j.uses[s].vol), sec |-> SetOf(j.uses[s].sec), cfg |-> SetOf(j.uses[s].cfg)]],
        decl |-> [net |-> SetOf(j.decl.net), vol |-> SetOf(j.decl.vol), sec |-> SetOf(j.decl.sec), cfg |-> SetOf(j.decl.cfg)]]
OpOf(j) ==
  CASE j.op = "profiles" -> [op |-> "profiles", P |-> SetOf(j.P)]
    [] j.op = "enable"   -> [op |-> "enable", names |-> SetOf(j.names)]
    [] j.op = "disable"  -> [op |-> "disable", names |-> SetOf(j.names)]
    [] j.op = "select"   -> [op |-> "select", names |-> SetOf(j.names), policy |-> j.policy]
    [] j.op = "prune"    -> [op |-> "prune"]

Verdict(e) ==
  LET pre == ProjOf(e.pre)  o == OpOf(e.o)  post == ProjOf(e.post) IN
  IF ~StepOK(pre, o, post) THEN "violation"
  ELSE IF post \notin Results(pre, o) THEN "drift"
  ELSE "ok"

VARIABLES l, bad, drift
Init == l = 1 /\ bad = <<>> /\ drift = <<>>
Next == /\ l <= Len(Trace) /\ l' = l + 1
        /\ LET v == Verdict(Trace[l]) IN
           /\ bad' = (IF v = "violation" /\ Len(bad) < 200 THEN Append(bad, l) ELSE bad)
           /\ drift' = (IF v = "drift" /\ Len(drift) < 200 THEN Append(drift, l) ELSE drift)
Spec == Init /\ [][Next]_<<l, bad, drift>>
\* printed once, in the last state
Report == l <= Len(Trace) \/ PrintT(<<"VERDICTS", l - 1, bad, drift>>)
=============================================================================
