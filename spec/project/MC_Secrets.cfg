SPECIFICATION Spec
CONSTANTS MaxItems = 2
 MaxConfigs = 1
 MaxOps = 1
INVARIANTS Laws
CHECK_DEADLOCK FALSE
