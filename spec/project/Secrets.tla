------------------------------ MODULE Secrets ------------------------------
(***************************************************************************)
(* Secret and config values taken from the environment (C20).              *)
(* A scenario has secrets and configs, each of a source kind               *)
(*   "file" | "environment" | "content" | "external",                      *)
(* referenced or not by the enabled service; environment-sourced ones take *)
(* the value of a variable whose value is a unique canary.                 *)
(* Load gives the project (secret content = the value, for the engine).    *)
(* Derivations keep or drop resources.  Rendering (YAML | JSON; default |  *)
(* with secret content) yields the set of canaries visible in the output.  *)
(***************************************************************************)
EXTENDS Naturals, Sequences, FiniteSets, TLC

Kinds == {"file", "environment", "content", "external"}
Derivs == {"profiles", "prune", "select", "disable-enable"}

\* items present after the derivations: prune keeps only what the service references
RECURSIVE Pruned(_)
Pruned(ops) == IF ops = <<>> THEN FALSE ELSE Head(ops) = "prune" \/ Pruned(Tail(ops))
Present(items, ops) == {i \in DOMAIN items : items[i].ref \/ ~Pruned(ops)}

\* canaries (by item index) that the rendering shows
\* - a secret from the environment: never, unless secret content is requested
\* - a config from the environment: never (it renders its variable name)
\* - inline content of a config: always (it is not a secret)
VisibleSecrets(secrets, ops, withContent) ==
  {i \in Present(secrets, ops) : secrets[i].kind = "environment" /\ withContent}
VisibleConfigs(configs, ops) ==
  {i \in Present(configs, ops) : configs[i].kind = "content"}
ForbiddenSecrets(secrets, withContent) == {i \in DOMAIN secrets : secrets[i].kind = "environment" /\ ~withContent}
ForbiddenConfigs(configs) == {i \in DOMAIN configs : configs[i].kind = "environment"}
\* what the loaded project must hold for the engine
EngineContent(secrets) == {i \in DOMAIN secrets : secrets[i].kind = "environment"}

\* the property on the specification itself
NoLeak(secrets, configs, ops, withContent) ==
  /\ VisibleSecrets(secrets, ops, withContent) \cap ForbiddenSecrets(secrets, withContent) = {}
  /\ VisibleConfigs(configs, ops) \cap ForbiddenConfigs(configs) = {}
OptIn(secrets, ops) == VisibleSecrets(secrets, ops, TRUE) = {i \in Present(secrets, ops) : secrets[i].kind = "environment"}
=============================================================================
