----------------------------- MODULE MC_Secrets -----------------------------
(* Every scenario up to the bounds is one state; the harness loads it from real files, derives, renders and searches  *)
(* the whole output for every canary.                                                                                *)
EXTENDS Secrets
CONSTANTS MaxItems, MaxConfigs, MaxOps
\* the schema admits inline content for configs only
SecretItem == [kind : Kinds \ {"content"}, ref : BOOLEAN]
Item == [kind : Kinds, ref : BOOLEAN]
Seqs(S, lo, hi) == UNION {[1..k -> S] : k \in lo..hi}
VARIABLE sc
Scenario(ss, cs, ops, fmt, wc) ==
  [secrets |-> ss, configs |-> cs, ops |-> ops, format |-> fmt, withContent |-> wc,
   forbidSecrets |-> ForbiddenSecrets(ss, wc), forbidConfigs |-> ForbiddenConfigs(cs),
   showSecrets |-> VisibleSecrets(ss, ops, wc), showConfigs |-> VisibleConfigs(cs, ops),
   presentSecrets |-> Present(ss, ops), presentConfigs |-> Present(cs, ops), engine |-> EngineContent(ss)]
Init == \E ss \in Seqs(SecretItem, 1, MaxItems) : sc = [seed |-> ss]
IsSeed == "seed" \in DOMAIN sc
Next == /\ IsSeed
        /\ \E cs \in Seqs(Item, 0, MaxConfigs) : \E ops \in Seqs(Derivs, 0, MaxOps) : \E fmt \in {"yaml", "json"} : \E wc \in BOOLEAN :
             sc' = Scenario(sc.seed, cs, ops, fmt, wc)
Spec == Init /\ [][Next]_sc
Laws == IsSeed \/ (NoLeak(sc.secrets, sc.configs, sc.ops, sc.withContent) /\ OptIn(sc.secrets, sc.ops))
=============================================================================
