---------------------------- MODULE Trace_Render ----------------------------
EXTENDS Render, Json, IOUtils, SequencesExt
Trace == ndJsonDeserialize(IOEnv.TRACE)
EvOf(j) == [format |-> j.format, renderErr |-> j.renderErr, reloadErr |-> j.reloadErr, diff |-> ToSet(j.diff), stable |-> j.stable, precond |-> j.precond]
VARIABLES l, bad
Init == l = 1 /\ bad = <<>>
Next == /\ l <= Len(Trace) /\ l' = l + 1
        /\ LET e == EvOf(Trace[l]) IN
           bad' = (IF ~RoundTrip(e) /\ Len(bad) < 300 THEN Append(bad, <<l, Which(e)>>) ELSE bad)
Spec == Init /\ [][Next]_<<l, bad>>
Report == l <= Len(Trace) \/ PrintT(<<"VERDICTS", l - 1, bad>>)
=============================================================================
