-------------------------------- MODULE Val --------------------------------
(***************************************************************************)
(* YAML/JSON trees as tagged TLA+ values (TLA+ is untyped: a generic tree  *)
(* function cannot ask a value for its kind, and <<>> is both the empty    *)
(* sequence and the empty mapping):                                        *)
(*   [t |-> "n"]                 null                                      *)
(*   [t |-> "b", v |-> TRUE]     bool      [t |-> "i", v |-> 42]   int     *)
(*   [t |-> "s", v |-> "text"]   string    [t |-> "f", v |-> "1.5"] float  *)
(*   [t |-> "l", v |-> <<..>>]   sequence  [t |-> "m", v |-> f]    mapping *)
(* a mapping's f is a function from a finite set of strings to values.     *)
(* A node may carry a YAML tag: [.., tag |-> "reset" | "override"].        *)
(***************************************************************************)
EXTENDS Naturals, Sequences, FiniteSets, TLC

Null    == [t |-> "n"]
B(x)    == [t |-> "b", v |-> x]
I(x)    == [t |-> "i", v |-> x]
S(x)    == [t |-> "s", v |-> x]
L(x)    == [t |-> "l", v |-> x]
M(f)    == [t |-> "m", v |-> f]
EmptyM  == [t |-> "m", v |-> <<>>]
EmptyL  == [t |-> "l", v |-> <<>>]
Tagged(x, tg) == [f \in DOMAIN x \cup {"tag"} |-> IF f = "tag" THEN tg ELSE x[f]]
HasTag(x, tg) == "tag" \in DOMAIN x /\ x.tag = tg
Untag(x) == [f \in DOMAIN x \ {"tag"} |-> x[f]]

IsM(x) == x.t = "m"
IsL(x) == x.t = "l"
IsNull(x) == x.t = "n"
Keys(x) == DOMAIN x.v
Has(x, k) == IsM(x) /\ k \in DOMAIN x.v
Get(x, k) == x.v[k]
\* mapping update / removal (functions over string sets)
Put(x, k, val) == [x EXCEPT !.v = [kk \in DOMAIN x.v \cup {k} |-> IF kk = k THEN val ELSE x.v[kk]]]
Del(x, k) == [x EXCEPT !.v = [kk \in DOMAIN x.v \ {k} |-> x.v[kk]]]
\* one-entry and two-entry mappings
M1(k, a) == M([kk \in {k} |-> a])
M2(k1, a, k2, b) == M([kk \in {k1, k2} |-> IF kk = k1 THEN a ELSE b])
M3(k1, a, k2, b, k3, c) == M([kk \in {k1, k2, k3} |-> IF kk = k1 THEN a ELSE IF kk = k2 THEN b ELSE c])

\* text helpers (TLC: Len, \o and SubSeq work on strings)
Char(s, i) == SubSeq(s, i, i)
IndexOf(s, c) == IF \E i \in 1..Len(s) : Char(s, i) = c
                 THEN CHOOSE i \in 1..Len(s) : Char(s, i) = c /\ \A j \in 1..(i - 1) : Char(s, j) # c
                 ELSE 0
Before(s, c) == IF IndexOf(s, c) = 0 THEN s ELSE SubSeq(s, 1, IndexOf(s, c) - 1)
After(s, c)  == IF IndexOf(s, c) = 0 THEN "" ELSE SubSeq(s, IndexOf(s, c) + 1, Len(s))

\* path patterns: a path is a sequence of keys; a pattern may hold "*"
Matches(path, pat) == Len(path) = Len(pat) /\ \A i \in 1..Len(pat) : pat[i] = "*" \/ pat[i] = path[i]
=============================================================================
