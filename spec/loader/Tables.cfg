SPECIFICATION Spec
INVARIANTS OrderIndependent Report
CHECK_DEADLOCK FALSE
