----------------------------- MODULE MC_Totality -----------------------------
(* The structured case space of C01: (i) every attribute path of the JSON schema x every YAML node kind x position of the  *)
(* document in the load; the expected outcome class comes from the schema's own admission of the kind at that path.      *)
(* The path inventory (path, kinds the schema admits there) is extracted from /repo's schema by the harness and read     *)
(* from IOEnv.PATHS.  (ii) fault sets x option sets, with MustFail from Loader.tla.                                      *)
EXTENDS Loader, Json, IOUtils, SequencesExt
Paths == ndJsonDeserialize(IOEnv.PATHS)
KindSeq == <<"null", "bool", "int", "float", "string", "empty-list", "list-of-strings", "list-of-maps", "empty-map", "map", "int-keyed-map", "nested-list", "repeated-strings", "repeated-maps",
          "odd-strings", "odd-string", "unc-prefix", "drive-prefix", "odd-map", "reset-tag", "override-tag", "list-of-ints", "yes-string">>
Kinds == ToSet(KindSeq)
PosSeq == <<"single", "override-top", "override-base", "extended-base", "extending", "included",
              "pair-map", "pair-list", "pair-string", "extends-pair-map", "extends-pair-list", "extends-pair-string", "include-pair",
              "extended-file-base">>   \* the document is another file, one of whose services the main file extends: that file is not validated before it is canonicalised and rebased     \* the attribute present in both files: base of the given kind, override of the case kind
Positions == ToSet(PosSeq)
\* the option set a kind case is loaded with: one of these per case, rotating with path, kind, position and the seed, so that
\* every (path, kind) meets several of them across positions and every case meets all of them across seeds
KindOpts == <<{}, {"SkipInterpolation"}, {}, {"SkipNormalization"}, {"NoResolvePaths"}, {}, {"SkipConsistencyCheck"}, {"SkipInterpolation", "SkipNormalization"}, {"SkipDefaultValues"}, {"SkipResolveEnvironment"}, {"SkipInterpolation", "SkipConsistencyCheck"},
              {"SkipValidation"}, {"SkipValidation", "SkipNormalization"}>>   \* without schema validation nothing has to be rejected, but nothing may crash either
Rot == IF "ROT" \in DOMAIN IOEnv THEN IOEnv.ROT ELSE "0"
RotN == CHOOSE r \in 0..30 : ToString(r) = Rot
Index(seq, x) == CHOOSE i \in 1..Len(seq) : seq[i] = x
OptsOf(i, k, pos) == KindOpts[((i + 3 * Index(KindSeq, k) + 5 * Index(PosSeq, pos) + RotN) % Len(KindOpts)) + 1]
SchemaKind(k) == CASE k \in {"empty-list", "list-of-strings", "list-of-maps", "nested-list", "odd-strings", "repeated-strings", "repeated-maps", "list-of-ints"} -> "array"
                   [] k \in {"empty-map", "map", "int-keyed-map", "odd-map", "override-tag"} -> "object"
                   [] k = "reset-tag" -> "null"
                   [] k = "int" -> "integer" [] k = "float" -> "number" [] k = "bool" -> "boolean" [] k = "null" -> "null" [] OTHER -> "string"
Admits(p, k) == LET a == ToSet(p.admits) IN
                "any" \in a \/ SchemaKind(k) \in a \/ (SchemaKind(k) = "integer" /\ "number" \in a)
VARIABLE cs
TInit == /\ absent = {} /\ opts = {} /\ pc = 1 /\ outcome = "none" /\ names = ""     \* the pipeline variables are not used here
         /\ \/ \E i \in 1..Len(Paths) : \E k \in Kinds : \E pos \in Positions :
              cs = [family |-> "kind", path |-> i, kind |-> k, position |-> pos, opts |-> OptsOf(i, k, pos),
                    expect |-> IF Admits(Paths[i], k) \/ "SkipValidation" \in OptsOf(i, k, pos) THEN "either" ELSE "error"]
            \* the document root itself of every kind, through the parser entry point and through a load
            \/ \E k \in Kinds \ {"reset-tag", "override-tag"} : \E e \in {"parse-yaml", "load"} :
                 cs = [family |-> "root", kind |-> k, entry |-> e, expect |-> IF SchemaKind(k) = "object" THEN "either" ELSE "error"]
            \/ \E a \in SUBSET Refs : \E o \in SUBSET Switches :
                 cs = [family |-> "fault", absent |-> a, opts |-> o, expect |-> IF MustFail(a, o) THEN "error" ELSE "either"]
TNext == UNCHANGED <<cs, vars>>
TSpec == TInit /\ [][TNext]_<<cs, vars>>
=============================================================================
