------------------------------- MODULE Loader -------------------------------
(***************************************************************************)
(* The load pipeline (loader/loader.go) as a state machine over phases,    *)
(* with the nine option switches and an abstract file system.              *)
(*                                                                         *)
(*  per file:   read -> decode -> interpolate -> extends (reads the        *)
(*              extended file) -> include (reads the included file, its    *)
(*              .env) -> merge -> validate-schema -> canonical             *)
(*  after all:  defaults -> validate -> resolve-paths -> normalize ->      *)
(*              bind -> consistency -> environment (reads env files) ->    *)
(*              labels (reads label files) -> done                         *)
(*                                                                         *)
(* Every phase either proceeds or ends the load with an error; there is no *)
(* third outcome.  A referenced file that is absent makes the phase that   *)
(* reads it fail - naming the file - unless the phase is switched off or   *)
(* the file is an env file marked optional.                                *)
(***************************************************************************)
EXTENDS Naturals, Sequences, FiniteSets, TLC

Refs == {"override", "extends", "include", "include_env_file", "env_file", "env_file_optional", "label_file"}
Switches == {"SkipValidation", "SkipInterpolation", "SkipNormalization", "NoResolvePaths", "SkipConsistencyCheck",
             "SkipExtends", "SkipInclude", "SkipResolveEnvironment", "SkipDefaultValues"}
Phases == <<"read-main", "read-override", "decode", "interpolate", "extends", "include", "merge", "schema", "canonical",
            "defaults", "validate", "resolve-paths", "normalize", "bind", "consistency", "environment", "labels", "done">>

\* the phase that reads a reference, and the switch that turns it off ("" = cannot be switched off)
ReaderOf(r) == CASE r = "override" -> "read-override" [] r = "extends" -> "extends" [] r \in {"include", "include_env_file"} -> "include"
                 [] r \in {"env_file", "env_file_optional"} -> "environment" [] r = "label_file" -> "labels"
OffSwitch(r) == CASE r = "extends" -> "SkipExtends" [] r \in {"include", "include_env_file"} -> "SkipInclude"
                  [] r \in {"env_file", "env_file_optional"} -> "SkipResolveEnvironment" [] OTHER -> ""

VARIABLES absent,   \* references whose file is missing
          opts,     \* switches that are on
          pc,       \* index into Phases
          outcome,  \* "none" | "project" | "error"
          names     \* the reference the error names ("" if none)
vars == <<absent, opts, pc, outcome, names>>

FailsAt(ph) == {r \in absent : ReaderOf(r) = ph /\ OffSwitch(r) \notin opts /\ r # "env_file_optional"}
\* an extends/include reference left in place because its phase is off is rejected later by schema validation or binding
\* (the model then still holds `extends:` / `include:`): outside what the statement fixes, kept as "either"
Init == /\ absent \in SUBSET Refs /\ opts \in SUBSET Switches
        /\ pc = 1 /\ outcome = "none" /\ names = ""
Step == /\ outcome = "none"
        /\ LET ph == Phases[pc] IN
           IF ph = "done" THEN outcome' = "project" /\ UNCHANGED <<pc, names>>
           ELSE IF FailsAt(ph) # {} THEN outcome' = "error" /\ names' = (CHOOSE r \in FailsAt(ph) : TRUE) /\ UNCHANGED pc
           ELSE pc' = pc + 1 /\ UNCHANGED <<outcome, names>>
        /\ UNCHANGED <<absent, opts>>
Next == Step \/ (outcome # "none" /\ UNCHANGED vars)
Spec == Init /\ [][Next]_vars /\ WF_vars(Step)

\* what the statement fixes for a fault set and option set
MustFail(a, o) == \E r \in a : OffSwitch(r) \notin o /\ r # "env_file_optional"
\* ---- properties of the pipeline model
Exclusive == outcome \in {"none", "project", "error"} /\ (outcome = "error" <=> names # "")
Decided == (outcome = "error" => MustFail(absent, opts)) /\ (outcome = "project" => ~MustFail(absent, opts))
Terminates == <>(outcome # "none")
=============================================================================
