----------------------------- MODULE Determinism -----------------------------
(***************************************************************************)
(* Loading is a function of (files, environment, working directory,        *)
(* options): whatever ran before in the same process, however often it is  *)
(* repeated, in whatever order services and resources are declared.        *)
(* A history is a sequence of loads over a pool of inputs; MC_Determinism  *)
(* enumerates the histories, the harness executes each in one process and  *)
(* records (history, position, input, outcome hash); Trace_Determinism     *)
(* checks that the recorded relation input -> outcome is a function.       *)
(***************************************************************************)
EXTENDS Naturals, Sequences, FiniteSets, TLC
CONSTANTS Pool, MaxLen       \* Pool: number of inputs
Histories == UNION {[1..n -> 1..Pool] : n \in 1..MaxLen}
VARIABLE h
Init == h \in Histories
Next == UNCHANGED h
Spec == Init /\ [][Next]_h
\* the design-level statement: with load modelled as a function of its input only, any two positions with the same input agree
Load(i) == <<"outcome-of", i>>
Functional == \A a, b \in 1..Len(h) : h[a] = h[b] => Load(h[a]) = Load(h[b])
=============================================================================
