------------------------------- MODULE Pipeline -------------------------------
(***************************************************************************)
(* The load pipeline of loader/loader.go as a stack machine, one action    *)
(* per step the implementation takes (and logs, in verification builds,    *)
(* through loader.verifPhase):                                             *)
(*                                                                         *)
(*   load    LoadWithContext / LoadModelWithContext:                       *)
(*             project-name, one model, normalize, [project loads only:]   *)
(*             bind, profiles, consistency, environment, done              *)
(*   model   loadYamlModel: its files, then defaults, validate,            *)
(*             resolve-paths (environment resolution closes the frame)     *)
(*   file    loadYamlFile: its YAML documents                              *)
(*   doc     processRawYaml: interpolate, extends (opens one "xfile" per    *)
(*             base that lives in another file; each is closed and then    *)
(*             rebased), include (opens one model per included project),   *)
(*             merge (+ unicity), schema, canonical (+ unicity)            *)
(*                                                                         *)
(* A phase whose switch is on is skipped; every other phase either         *)
(* completes (one step) or fails, and a failure anywhere unwinds the whole *)
(* stack: there is no error recovery inside a load.  Nested frames run     *)
(* under derived switch sets (ExtSw, IncSw below), which is where "the     *)
(* extended file is not validated on its own", "an included project always *)
(* resolves its paths" and "only the outermost load normalises and checks  *)
(* consistency" live.                                                      *)
(***************************************************************************)
EXTENDS Naturals, Sequences, FiniteSets, TLC

CONSTANT MaxKids,    \* bound on the children one frame may open (model checking only)
         MaxDepth    \* bound on the stack height (model checking only)

Switches == {"SkipValidation", "SkipInterpolation", "SkipNormalization", "NoResolvePaths", "SkipConsistencyCheck",
             "SkipExtends", "SkipInclude", "SkipResolveEnvironment", "SkipDefaultValues"}

\* loader/extends.go: the options an extended file is loaded with
ExtAdds == {"NoResolvePaths", "SkipNormalization", "SkipConsistencyCheck", "SkipInclude", "SkipExtends",
            "SkipValidation", "SkipDefaultValues"}
\* Options.clone() carries neither SkipResolveEnvironment nor SkipDefaultValues (the nested frames never consult the
\* first; the second means an included project is given default values even when the caller switched them off)
Clone(sw) == sw \ {"SkipResolveEnvironment", "SkipDefaultValues"}
ExtSw(sw) == Clone(sw) \cup ExtAdds
\* loader/include.go: the options an included project is loaded with
IncSw(sw) == (Clone(sw) \ {"NoResolvePaths"}) \cup {"SkipNormalization", "SkipConsistencyCheck"}

\* "bare": loadYamlModel entered directly (what an include does; the package's own tests do it too)
Loads == {"project", "modelload", "bare"}
PhasesOf(k) ==
  CASE k = "doc"       -> <<"interpolate", "extends", "include", "merge", "schema", "canonical">>
    [] k = "model"     -> <<"defaults", "validate", "resolve-paths">>
    [] k = "project"   -> <<"project-name", "model", "normalize", "bind", "profiles", "consistency", "environment", "done">>
    [] k = "modelload" -> <<"project-name", "model", "normalize">>
    [] k = "bare"      -> <<"project-name", "model">>
    [] OTHER           -> <<>>
Off(p) == CASE p = "interpolate" -> "SkipInterpolation" [] p = "extends" -> "SkipExtends" [] p = "include" -> "SkipInclude"
            [] p = "schema" -> "SkipValidation" [] p = "validate" -> "SkipValidation" [] p = "defaults" -> "SkipDefaultValues"
            [] p = "resolve-paths" -> "NoResolvePaths" [] p = "normalize" -> "SkipNormalization"
            [] p = "consistency" -> "SkipConsistencyCheck" [] p = "environment" -> "SkipResolveEnvironment"
            [] OTHER -> ""

VARIABLES stack,     \* frames [k, pc, sw, n]: kind, index of the last phase completed, switches, children opened
          outcome,   \* of the last load: "none" | "project" | "model" | "error"
          ran        \* phases completed by the outermost frames of the current / last load (ghost)
vars == <<stack, outcome, ran>>

Frame(k, sw) == [k |-> k, pc |-> 0, sw |-> sw, n |-> 0]
Top == stack[Len(stack)]
\* index of the next phase of f that is not switched off (0: none left)
NextIx(f) == LET ph == PhasesOf(f.k)
                 c == {i \in DOMAIN ph : i > f.pc /\ Off(ph[i]) \notin f.sw}
             IN IF c = {} THEN 0 ELSE CHOOSE i \in c : \A j \in c : i <= j
NextPhase(f) == IF NextIx(f) = 0 THEN "" ELSE PhasesOf(f.k)[NextIx(f)]
SetTop(f) == [stack EXCEPT ![Len(stack)] = f]
Pop == SubSeq(stack, 1, Len(stack) - 1)
Push(parent, child) == Append(SetTop([parent EXCEPT !.n = @ + 1]), child)
Room(f) == f.n < MaxKids /\ Len(stack) < MaxDepth

BeginLoad(kind, sw) ==
  /\ stack = <<>> /\ kind \in Loads /\ sw \subseteq Switches
  /\ stack' = <<[Frame(kind, sw) EXCEPT !.pc = IF kind = "bare" THEN 1 ELSE 0]>> /\ outcome' = "none" /\ ran' = {}

\* a phase of the top frame completes
Phase(p) ==
  /\ stack # <<>> /\ p # "" /\ p # "model" /\ NextPhase(Top) = p
  /\ IF p = "done" THEN stack' = <<>> /\ outcome' = "project"
     ELSE stack' = SetTop([Top EXCEPT !.pc = NextIx(Top)]) /\ UNCHANGED outcome
  /\ ran' = IF Len(stack) <= 2 /\ Top.k \in Loads \cup {"model"} THEN ran \cup {p} ELSE ran

OpenModel ==
  /\ stack # <<>> /\ Room(Top)
  /\ \/ Top.k \in Loads /\ NextPhase(Top) = "model" /\ stack' = Push(Top, Frame("model", Top.sw))
     \/ Top.k = "doc" /\ NextPhase(Top) = "include" /\ stack' = Push(Top, Frame("model", IncSw(Top.sw)))
  /\ UNCHANGED <<outcome, ran>>
CloseModel ==
  /\ stack # <<>> /\ Top.k = "model" /\ NextIx(Top) = 0
  /\ LET parent == stack[Len(stack) - 1] IN
     stack' = IF parent.k \in Loads THEN Append(SubSeq(stack, 1, Len(stack) - 2), [parent EXCEPT !.pc = 2]) ELSE Pop
  /\ UNCHANGED <<outcome, ran>>

OpenFile ==
  /\ stack # <<>> /\ Room(Top)
  /\ \/ Top.k = "model" /\ Top.pc = 0 /\ stack' = Push(Top, Frame("file", Top.sw))
     \/ Top.k = "doc" /\ NextPhase(Top) = "extends" /\ stack' = Push(Top, Frame("xfile", ExtSw(Top.sw)))
  /\ UNCHANGED <<outcome, ran>>
CloseFile ==
  /\ stack # <<>>
  /\ \/ Top.k = "file" /\ stack' = Pop
     \/ Top.k = "xfile" /\ Top.pc = 0 /\ stack' = SetTop([Top EXCEPT !.pc = 1])
  /\ UNCHANGED <<outcome, ran>>
\* the services of an extended file are rebased onto the extending file's directory
Rebase ==
  /\ stack # <<>> /\ Top.k = "xfile" /\ Top.pc = 1 /\ stack' = Pop
  /\ UNCHANGED <<outcome, ran>>

OpenDoc ==
  /\ stack # <<>> /\ Room(Top) /\ Top.k \in {"file", "xfile"} /\ Top.pc = 0
  /\ stack' = Push(Top, Frame("doc", Top.sw))
  /\ UNCHANGED <<outcome, ran>>
CloseDoc ==
  /\ stack # <<>> /\ Top.k = "doc" /\ NextIx(Top) = 0 /\ stack' = Pop
  /\ UNCHANGED <<outcome, ran>>

\* LoadModelWithContext returns its dictionary
ReturnModel ==
  /\ stack # <<>> /\ Top.k \in {"modelload", "bare"} /\ NextIx(Top) = 0
  /\ stack' = <<>> /\ outcome' = "model" /\ UNCHANGED ran
\* any step may fail instead of completing: the error is returned through every frame
Fail ==
  /\ stack # <<>> /\ stack' = <<>> /\ outcome' = "error" /\ UNCHANGED ran

AllPhases == {"project-name", "normalize", "bind", "profiles", "consistency", "environment", "done",
              "defaults", "validate", "resolve-paths", "interpolate", "extends", "include", "merge", "schema", "canonical"}
Init == stack = <<>> /\ outcome = "none" /\ ran = {}
Next == \/ \E k \in Loads, sw \in SUBSET Switches : BeginLoad(k, sw)
        \/ \E p \in AllPhases : Phase(p)
        \/ OpenModel \/ CloseModel \/ OpenFile \/ CloseFile \/ Rebase \/ OpenDoc \/ CloseDoc \/ ReturnModel \/ Fail
Spec == Init /\ [][Next]_vars

\* ---------------------------------------------------------------- properties of the design
TypeOK == /\ outcome \in {"none", "project", "model", "error"}
          /\ \A i \in DOMAIN stack : stack[i].k \in Loads \cup {"model", "file", "xfile", "doc"} /\ stack[i].sw \subseteq Switches
\* frames nest as the code nests
WellNested ==
  \A i \in DOMAIN stack :
    LET f == stack[i] IN
    /\ (i = 1) = (f.k \in Loads)
    /\ i > 1 =>
        LET p == stack[i - 1] IN
        CASE f.k = "model" -> p.k \in Loads \cup {"doc"}
          [] f.k = "file"  -> p.k = "model"
          [] f.k = "xfile" -> p.k = "doc"
          [] f.k = "doc"   -> p.k \in {"file", "xfile"}
          [] OTHER -> FALSE
\* an extended file is read as data only: nothing is opened below its documents, it is never validated on its own
ExtendedFileIsPlain ==
  \A i \in DOMAIN stack : stack[i].k = "xfile" =>
    /\ ExtAdds \subseteq stack[i].sw
    /\ \A j \in DOMAIN stack : j > i => stack[j].k = "doc" /\ j = i + 1
\* an included project resolves its own paths whatever the caller asked for, and is never normalised or consistency-checked alone
IncludedResolves ==
  \A i \in DOMAIN stack : (i > 2 /\ stack[i].k = "model") =>
    "NoResolvePaths" \notin stack[i].sw /\ {"SkipNormalization", "SkipConsistencyCheck"} \subseteq stack[i].sw
\* a project is returned only after every phase that is not switched off has completed, in the outermost frames
Required(sw) == {p \in {"project-name", "normalize", "bind", "profiles", "consistency", "environment", "done",
                        "defaults", "validate", "resolve-paths"} : Off(p) \notin sw}
ProjectMeansAllRan ==
  [][ (outcome' = "project" /\ outcome # "project") => Required(stack[1].sw) \subseteq ran' ]_vars
\* a switched-off phase never runs
OffMeansOff == [][ \A p \in AllPhases : (Phase(p) /\ Off(p) # "") => Off(p) \notin Top.sw ]_vars
\* the load can always move on (no state in which neither a step nor a failure is possible)
NeverStuck == stack # <<>> => ENABLED Fail
=============================================================================
