-------------------------- MODULE Trace_Determinism --------------------------
(* Every recorded load [input, hash, where]: the relation input -> hash must be a function over the whole trace. *)
EXTENDS Naturals, Sequences, FiniteSets, TLC, Json, IOUtils
Trace == ndJsonDeserialize(IOEnv.TRACE)
VARIABLES l, seen, bad
Init == l = 1 /\ seen = <<>> /\ bad = <<>>
Known(s, k) == \E i \in 1..Len(s) : s[i].input = k
Hash(s, k) == s[CHOOSE i \in 1..Len(s) : s[i].input = k].hash
Next == /\ l <= Len(Trace) /\ l' = l + 1
        /\ LET e == Trace[l] IN
           IF Known(seen, e.input)
             THEN /\ seen' = seen
                  /\ bad' = (IF Hash(seen, e.input) # e.hash /\ Len(bad) < 100 THEN Append(bad, <<l, e.input>>) ELSE bad)
             ELSE seen' = Append(seen, [input |-> e.input, hash |-> e.hash]) /\ bad' = bad
Spec == Init /\ [][Next]_<<l, seen, bad>>
Report == l <= Len(Trace) \/ PrintT(<<"VERDICTS", l - 1, bad>>)
=============================================================================
