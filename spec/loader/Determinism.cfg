SPECIFICATION Spec
CONSTANTS Pool = 5
 MaxLen = 3
INVARIANTS Functional
CHECK_DEADLOCK FALSE
