------------------------------- MODULE Tables -------------------------------
(***************************************************************************)
(* The library looks rules up by ranging over a Go map of path patterns    *)
(* and taking the first pattern that matches (override.mergeSpecials,      *)
(* override.unique, transform.transformers, transform.defaultValues,       *)
(* validation.checks, loader.interpolateTypeCastMapping, the path          *)
(* resolvers).  Go randomises map iteration, so the lookup is a function   *)
(* of the path - for ALL paths - iff no two patterns of a table can match  *)
(* the same concrete path.  The tables are exported by the running binary  *)
(* (guard verif) into IOEnv.TABLES: one line [table, keys] with each key   *)
(* a sequence of segments.                                                 *)
(***************************************************************************)
EXTENDS Naturals, Sequences, FiniteSets, TLC, Json, IOUtils
Tables == ndJsonDeserialize(IOEnv.TABLES)
\* some concrete path is matched by both patterns
Overlap(p, q) == Len(p) = Len(q) /\ \A i \in 1..Len(p) : p[i] = "*" \/ q[i] = "*" \/ p[i] = q[i]
Conflicts(t) == {<<i, j>> \in (1..Len(t.keys)) \X (1..Len(t.keys)) : i < j /\ Overlap(t.keys[i], t.keys[j])}
VARIABLE l
Init == l = 1
Next == l <= Len(Tables) /\ l' = l + 1
Spec == Init /\ [][Next]_l
\* checked on every table; a violated table is printed with the overlapping pairs
OrderIndependent == l > Len(Tables) \/ Conflicts(Tables[l]) = {} \/
                    PrintT(<<"OVERLAP", Tables[l].table, {<<Tables[l].keys[c[1]], Tables[l].keys[c[2]]>> : c \in Conflicts(Tables[l])}>>) = FALSE
Report == l <= Len(Tables) \/ PrintT(<<"TABLES-CHECKED", l - 1>>)
=============================================================================
