--------------------------- MODULE Trace_Pipeline ---------------------------
(* Trace validation of the load pipeline.  IOEnv.TRACE holds the events loader.verifPhase emitted while real     *)
(* loads ran (the harness's own loads and the loads of the repository's test suite), one JSON object per line:    *)
(*   [e |-> event name, sw |-> switches in force for the frame that emitted it]                                    *)
(* plus, for loads the harness performed itself, a line "ret:ok" / "ret:err" with what the call returned.          *)
(* Every event is replayed through the corresponding action of Pipeline; a line is rejected when that action is   *)
(* not enabled in the current state or when the logged switch set is not the one the specification derives for    *)
(* that frame.  After a rejection the judge resynchronises at the next load.  A load that ends without "done" has *)
(* failed (or was a model load that returned): Fail and ReturnModel have no event of their own, so they are        *)
(* composed into the next "load{" line.                                                                             *)
EXTENDS Pipeline, Json, IOUtils, SequencesExt

Trace == ndJsonDeserialize(IOEnv.TRACE)

VARIABLES l, bad, lost, nloads
tvars == <<vars, l, bad, lost, nloads>>
Ev == Trace[l]
Sw(e) == ToSet(e.sw)

IsBegin(e) == e.e \in {"load{project", "load{model"}
\* the previous load is over (returned or failed, silently) and a new one starts
Begin(e) ==
  /\ stack' = <<Frame(IF e.e = "load{project" THEN "project" ELSE "modelload", Sw(e))>>
  /\ outcome' = "none" /\ ran' = {}

\* the package's own tests also enter at loadYamlModel (no load frame around it)
IsBareModel(e) == e.e = "model{" /\ (stack = <<>> \/ (Len(stack) = 1 /\ Top.k = "bare" /\ NextIx(Top) = 0))
BeginBare(e) ==
  /\ stack' = <<[k |-> "bare", pc |-> 1, sw |-> Sw(e), n |-> 1], Frame("model", Sw(e))>>
  /\ outcome' = "none" /\ ran' = {}

Match(e) ==
  CASE e.e = "model{"  -> OpenModel /\ stack'[Len(stack')].sw = Sw(e)
    [] e.e = "}model"  -> Top.sw = Sw(e) /\ CloseModel
    [] e.e = "file{"   -> OpenFile /\ stack'[Len(stack')].sw = Sw(e)
    [] e.e = "}file"   -> Top.sw = Sw(e) /\ CloseFile
    [] e.e = "rebase"  -> Top.sw = Sw(e) /\ Rebase
    [] e.e = "doc{"    -> OpenDoc /\ stack'[Len(stack')].sw = Sw(e)
    [] e.e = "}doc"    -> Top.sw = Sw(e) /\ CloseDoc
    [] e.e = "ret:ok"  -> \/ stack = <<>> /\ outcome = "project" /\ UNCHANGED vars
                          \/ ReturnModel
    [] e.e = "ret:err" -> Fail
    [] OTHER           -> stack # <<>> /\ Top.sw = Sw(e) /\ Phase(e.e)

TInit == Init /\ l = 1 /\ bad = <<>> /\ lost = FALSE /\ nloads = 0
TNext ==
  /\ l <= Len(Trace) /\ l' = l + 1
  /\ IF IsBegin(Ev) THEN Begin(Ev) /\ lost' = FALSE /\ nloads' = nloads + 1 /\ UNCHANGED bad
     ELSE IF IsBareModel(Ev) THEN BeginBare(Ev) /\ lost' = FALSE /\ nloads' = nloads + 1 /\ UNCHANGED bad
     ELSE IF lost THEN UNCHANGED <<vars, bad, lost, nloads>>
     ELSE IF ENABLED Match(Ev) THEN Match(Ev) /\ UNCHANGED <<bad, lost, nloads>>
     ELSE /\ bad' = (IF Len(bad) < 100 THEN Append(bad, l) ELSE bad) /\ lost' = TRUE /\ UNCHANGED <<vars, nloads>>
TraceSpec == TInit /\ [][TNext]_tvars
\* printed once, in the last state
Report == l <= Len(Trace) \/ PrintT(<<"VERDICTS", l - 1, bad, nloads>>)
=============================================================================
