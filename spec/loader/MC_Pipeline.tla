---------------------------- MODULE MC_Pipeline ----------------------------
(* Bounded instance of Pipeline: the switch sets are restricted to a family that exercises every switch alone,    *)
(* none, all, and a few pairs (the derived sets of nested frames are reached from these).                          *)
EXTENDS Pipeline
SwFamily == {{}} \cup {{s} : s \in Switches} \cup {Switches}
            \cup {{"SkipValidation", "SkipNormalization"}, {"SkipExtends", "SkipInclude"}, {"NoResolvePaths", "SkipInterpolation"}}
MCNext == \/ \E k \in Loads, sw \in SwFamily : BeginLoad(k, sw)
          \/ \E p \in AllPhases : Phase(p)
          \/ OpenModel \/ CloseModel \/ OpenFile \/ CloseFile \/ Rebase \/ OpenDoc \/ CloseDoc \/ ReturnModel \/ Fail
MCSpec == Init /\ [][MCNext]_vars
=============================================================================
