SPECIFICATION Spec
INVARIANTS Exclusive Decided
PROPERTY Terminates
CHECK_DEADLOCK TRUE
