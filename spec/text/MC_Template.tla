---------------------------- MODULE MC_Template ----------------------------
(* Exhaustive enumeration of the grammar up to a size bound x variable states; every case is emitted with the     *)
(* value the specification defines for it and replayed on template.Substitute and on a full load.               *)
EXTENDS Template

CONSTANTS W0,      \* max items in a nested T
          W1,      \* max items at top level
          Deep,    \* BOOLEAN: allow one more nesting level inside nested T
          RestAny  \* BOOLEAN: items after the first may be substitutions with operators (FALSE: leaves only)

Names == {"A", "b_1"}
Lits  == {"x", " ", "-", ":"}
TopLits == Lits \cup {"}"}
Leaf(L) == [k : {"lit"}, c : L] \cup {[k |-> "esc"]} \cup [k : {"var"}, n : Names, b : BOOLEAN]
Seqs(S, L) == UNION {[1..k -> S] : k \in 0..L}
\* an unbraced $NAME followed by a name character would be read as a longer name: keep the generator unambiguous
NameChar(c) == c \in {"x"}
NoClash(t) == \A j \in 1..(Len(t) - 1) :
     ~(t[j].k = "var" /\ ~t[j].b /\ t[j+1].k = "lit" /\ NameChar(t[j+1].c))
\* two adjacent literals are the same text as one: keep only canonical sequences to avoid duplicates
NoLitLit(t) == \A j \in 1..(Len(t) - 1) : ~(t[j].k = "lit" /\ t[j+1].k = "lit")
T00 == {t \in Seqs(Leaf(Lits), 1) : TRUE}
Item0 == Leaf(Lits) \cup (IF Deep THEN [k : {"op"}, n : Names, op : Ops, t : T00] ELSE {})
T0 == {t \in Seqs(Item0, W0) : NoClash(t) /\ NoLitLit(t)}
Item1 == Leaf(TopLits) \cup [k : {"op"}, n : Names, op : Ops, t : T0]
T1 == {t \in Seqs(Item1, W1) : NoClash(t) /\ NoLitLit(t)}
Vals == {[set |-> FALSE, v |-> ""], [set |-> TRUE, v |-> ""], [set |-> TRUE, v |-> "v"], [set |-> TRUE, v |-> "${A}$b_1"], [set |-> TRUE, v |-> " "]}   \* " ": set and not empty

\* the whole case is one state: the AST, its rendering, the environment and the value the specification defines;
\* the harness reads the states from TLC's state dump (-dump) and replays them on the real code
VARIABLE vec
Case(t, e) == [t |-> t, s |-> Render(t), env |-> e, r |-> Eval(t, e)]
\* Initial states are seeds (the first item of the template); the cases themselves are generated as their
\* successors, so that all TLC workers share the enumeration (initial states are computed by one thread).
\* literal text with balanced braces inside a default / replacement / message (Go templates, JSON): the substitution ends at the
\* brace that closes it, not at the first closing brace
BraceLits == {"{{.N}}", "{}", "{\"a\":1}", "h@ello w@orld", "@>{@e}"}   \* (@e, @o, @>: the harness writes é, ö, → - text of more than one byte per character)
BraceItems == [k : {"op"}, n : Names, op : Ops, t : {<<[k |-> "lit", c |-> c]>> : c \in BraceLits}]
Seeds == {<<>>} \cup {<<i>> : i \in Item1 \cup BraceItems}
Init == \E sd \in Seeds : vec = [seed |-> sd]
IsSeed == "seed" \in DOMAIN vec
Next == /\ IsSeed
        /\ \E rest \in (IF vec.seed = <<>> THEN {<<>>} ELSE Seqs(IF RestAny THEN Item1 ELSE Leaf(TopLits), W1 - 1)) : \E e \in [Names -> Vals] :
              LET t == vec.seed \o rest IN
              /\ NoClash(t) /\ NoLitLit(t)
              /\ vec' = Case(t, e)
Spec == Init /\ [][Next]_vec
Laws == IsSeed \/ (NonEmptyLaw(vec.t, vec.env) /\ UnsetLaw(vec.t, vec.env) /\ ConcatLaw(vec.t, vec.env))
=============================================================================
