------------------------------ MODULE MC_Dotenv ------------------------------
(* Exhaustive enumeration of env files of up to MaxLines lines from the line grammar; each state is a case:     *)
(* the file text, the lookup, and the map (or error) the grammar defines.                                       *)
EXTENDS Dotenv

CONSTANTS MaxLines,   \* 1 or 2
          FirstAll,   \* BOOLEAN: with two lines, the first line ranges over all lines (FALSE: over a small set)
          SecondAll   \* BOOLEAN: likewise for the second line

Names == {"A", "B", "U", "K1", "E"}
Lookup == [A |-> "la", B |-> "lb", E |-> ""]           \* the lookup function (e.g. the OS environment); E is set to the empty string

Seqs(S, L) == UNION {[1..k -> S] : k \in 0..L}
TItems == {[k |-> "lit", c |-> "a"], [k |-> "lit", c |-> "b c"], [k |-> "lit", c |-> "a#b"], [k |-> "lit", c |-> "="], [k |-> "esc"],
           [k |-> "var", n |-> "A", b |-> FALSE], [k |-> "var", n |-> "K1", b |-> TRUE], [k |-> "var", n |-> "B", b |-> TRUE],
           [k |-> "var", n |-> "U", b |-> TRUE],
           [k |-> "op", n |-> "U", op |-> ":-", t |-> <<[k |-> "lit", c |-> "d"]>>],
           [k |-> "op", n |-> "K1", op |-> "-", t |-> <<[k |-> "var", n |-> "A", b |-> TRUE]>>],
           [k |-> "op", n |-> "U", op |-> "?", t |-> <<[k |-> "lit", c |-> "m"]>>],
           [k |-> "var", n |-> "E", b |-> TRUE], [k |-> "op", n |-> "E", op |-> "-", t |-> <<[k |-> "lit", c |-> "d"]>>],
           [k |-> "op", n |-> "E", op |-> "?", t |-> <<[k |-> "lit", c |-> "m"]>>]}
Special(ks) == {[k |-> x] : x \in ks}
AtomsNone   == TItems \cup Special({"q1", "q2", "bs", "hash", "tsp"})
AtomsSingle == TItems \cup Special({"q2", "bs", "nlraw", "hash", "tsp"})
AtomsDouble == TItems \cup Special({"q1", "q2", "bs", "nlraw", "nlesc", "tab", "dollar", "hash", "tsp"})

\* a name character right after an unbraced $NAME would extend the name; a backslash right before a quote, a `$`
\* or another escape letter would form a different escape: keep the generator inside the documented grammar
NameCharStart(a) == a.k = "lit" /\ SubSeq(a.c, 1, 1) \in {"a", "b"}
Clash(x, y) == \/ (x.k = "var" /\ ~x.b /\ NameCharStart(y))
               \/ (x.k = "bs" /\ y.k \in {"q1", "q2", "esc", "var", "op", "bs", "dollar", "nlesc", "tab"})
               \/ (x.k = "bs" /\ y.k = "lit")
               \/ (x.k = "lit" /\ y.k = "lit")
OKSeq(as) == \A j \in 1..(Len(as) - 1) : ~Clash(as[j], as[j + 1])
\* inside double quotes the backslash atom is the complete escape `\\`: a reference or an escaped `$` may follow it
ClashDouble(x, y) == Clash(x, y) /\ ~(x.k = "bs" /\ y.k \in {"var", "op", "dollar", "esc"})
OKSeqDouble(as) == \A j \in 1..(Len(as) - 1) : ~ClashDouble(as[j], as[j + 1])
ValsNone == {as \in Seqs(AtomsNone, 2) :
               /\ OKSeq(as)
               /\ (as # <<>> => as[1].k \notin {"q1", "q2", "tsp", "hash"})        \* a leading quote makes it quoted
               /\ \A j \in 1..Len(as) : (as[j].k = "tsp" => j = Len(as))
               /\ (Len(as) = 2 /\ as[2].k = "hash" => as[1].k # "tsp")
               /\ (as # <<>> => as[Len(as)].k # "bs")}
ValsSingle == {as \in Seqs(AtomsSingle, 2) : OKSeq(as) /\ (as # <<>> => as[Len(as)].k # "bs")}
ValsDouble == {as \in Seqs(AtomsDouble, 2) : OKSeqDouble(as)}

Assign(ex, key, sep, q, val, cmt) == [k |-> "assign", export |-> ex, key |-> key, sep |-> sep, q |-> q, val |-> val, cmt |-> cmt]
SmallVals == {<<>>, <<[k |-> "lit", c |-> "a"]>>}
\* class A: key / separator / export / trailing comment variants with small values
LinesA == {Assign(ex, key, sep, q, v, cmt) : ex \in BOOLEAN, key \in {"K1", "k.2", "exportK"}, sep \in {"=", ": ", " = ", ":"},
                                             q \in {"none", "single", "double"}, v \in SmallVals, cmt \in BOOLEAN}
\* class B: every value shape with a fixed key shape
LinesB == {Assign(FALSE, key, "=", "none", v, FALSE) : key \in {"K1", "B"}, v \in ValsNone}
     \cup {Assign(FALSE, key, "=", "single", v, FALSE) : key \in {"K1", "B"}, v \in ValsSingle}
     \cup {Assign(FALSE, key, "=", "double", v, FALSE) : key \in {"K1", "B"}, v \in ValsDouble}
Other == {[k |-> "bare", key |-> "A"], [k |-> "bare", key |-> "U"], [k |-> "comment"], [k |-> "blank"]}
\* unquoted values with a trailing comment flag would double the ` #`; they carry it through the hash atom instead
Proper(l) == ~(l.k = "assign" /\ l.q = "none" /\ l.cmt)
AllLines == {l \in LinesA \cup LinesB \cup Other : Proper(l)}
FewLines == {Assign(FALSE, "K1", "=", "none", <<[k |-> "lit", c |-> "a"]>>, FALSE),
             Assign(FALSE, "K1", "=", "double", <<[k |-> "var", n |-> "A", b |-> TRUE], [k |-> "nlraw"]>>, FALSE),
             Assign(TRUE, "B", ": ", "single", <<[k |-> "lit", c |-> "b c"]>>, TRUE),
             [k |-> "bare", key |-> "A"], [k |-> "comment"]}

VARIABLE vec
Case(ls, eol, final) ==
  LET f == [lines |-> ls, eol |-> eol, final |-> final] IN
  \* exp0: what the file defines when the caller gives no lookup at all (Parse, Read, UnmarshalWithLookup(_, nil)): only its own lines
  [text |-> RenderFile(f), lines |-> Len(ls), exp |-> EvalFile(f, Names, Lookup), exp0 |-> EvalFile(f, Names, [x \in {} |-> ""])]
\* files of three and four lines in which keys are assigned, referenced, assigned again and referenced again
Lit(c) == [k |-> "lit", c |-> c]
Ref(n, braced) == [k |-> "var", n |-> n, b |-> braced]
ChainLines == {Assign(FALSE, "K1", "=", "none", <<Lit("a")>>, FALSE),
               Assign(FALSE, "K1", "=", "single", <<Lit("b c")>>, FALSE),
               Assign(FALSE, "U", "=", "none", <<Ref("K1", FALSE)>>, FALSE),
               Assign(FALSE, "K1", "=", "double", <<Ref("K1", TRUE), Lit("a")>>, FALSE),
               Assign(TRUE, "U", "=", "double", <<Ref("K1", TRUE), Ref("U", TRUE)>>, FALSE),
               Assign(FALSE, "B", "=", "none", <<Ref("U", TRUE), Ref("A", TRUE)>>, FALSE)}
ChainSeed == [k |-> "chains"]
Init == \/ \E l \in (IF MaxLines = 2 /\ ~FirstAll THEN FewLines ELSE AllLines) : vec = [seed |-> l]
        \/ vec = [seed |-> ChainSeed]
IsSeed == "seed" \in DOMAIN vec
Next == \/ /\ IsSeed /\ vec.seed = ChainSeed
           /\ \E n \in 3..4 : \E ls \in [1..n -> ChainLines] : vec' = Case(ls, "\n", TRUE)
        \/ /\ IsSeed /\ vec.seed # ChainSeed
           /\ \E rest \in (IF MaxLines = 1 THEN {<<>>} ELSE {<<l>> : l \in (IF SecondAll THEN AllLines ELSE FewLines)}) :
              \E eol \in {"\n", "\r\n"} : \E final \in BOOLEAN :
                 vec' = Case(<<vec.seed>> \o rest, eol, final)
Spec == Init /\ [][Next]_vec

\* sanity laws of the specification itself
\* a file whose lines are all comments / blanks defines the empty map; an error never carries entries
Laws == IsSeed \/ (~vec.exp.ok => vec.exp.kv = <<>>)
=============================================================================
