-------------------------- MODULE TemplateStrings --------------------------
(* Arbitrary strings over the interpolation alphabet, classified by a left-to-right scan written from the       *)
(* grammar:  clean     - only literals, $$, $NAME, ${NAME}: the value is defined exactly (SimpleEval);          *)
(*           malformed - a `${` that no production of the grammar can continue: must be an error;               *)
(*           complex   - contains ${NAME op ...}: covered exhaustively by MC_Template, here only totality.      *)
EXTENDS Naturals, Sequences, FiniteSets, TLC

CONSTANTS MaxLen
Alphabet == <<"$", "{", "}", ":", "-", "+", "?", "A", "_", "1", " ">>

Char(s, i) == SubSeq(s, i, i)
IsNameStart(c) == c \in {"A", "_"}
IsNameChar(c)  == c \in {"A", "_", "1"}
RECURSIVE NameEnd(_, _)
NameEnd(s, i) == IF i <= Len(s) /\ IsNameChar(Char(s, i)) THEN NameEnd(s, i + 1) ELSE i
IsOpAt(s, j) == \/ Char(s, j) \in {"-", "+", "?"}
                \/ (Char(s, j) = ":" /\ j + 1 <= Len(s) /\ Char(s, j + 1) \in {"-", "+", "?"})
HasCloseAfter(s, i) == \E j \in i..Len(s) : Char(s, j) = "}"

RECURSIVE Scan(_, _)
Scan(s, i) ==
  IF i > Len(s) THEN "clean"
  ELSE IF Char(s, i) # "$" \/ i = Len(s) THEN Scan(s, i + 1)
  ELSE LET c == Char(s, i + 1) IN
    CASE c = "$" -> Scan(s, i + 2)
      [] c = "{" -> IF i + 2 > Len(s) \/ ~IsNameStart(Char(s, i + 2)) THEN "malformed"
                    ELSE LET j == NameEnd(s, i + 2) IN
                         IF j > Len(s) THEN "malformed"
                         ELSE IF Char(s, j) = "}" THEN Scan(s, j + 1)
                         ELSE IF IsOpAt(s, j) THEN (IF HasCloseAfter(s, j) THEN "complex" ELSE "malformed")
                         ELSE "malformed"
      [] IsNameStart(c) -> Scan(s, NameEnd(s, i + 1))
      [] OTHER -> Scan(s, i + 1)

\* value of a clean string when every variable named in it has the value val (set) or is unset
RECURSIVE SimpleEval(_, _, _, _)
SimpleEval(s, i, isSet, val) ==
  IF i > Len(s) THEN ""
  ELSE IF Char(s, i) # "$" \/ i = Len(s) THEN Char(s, i) \o SimpleEval(s, i + 1, isSet, val)
  ELSE LET c == Char(s, i + 1) v == (IF isSet THEN val ELSE "") IN
    CASE c = "$" -> "$" \o SimpleEval(s, i + 2, isSet, val)
      [] c = "{" -> v \o SimpleEval(s, NameEnd(s, i + 2) + 1, isSet, val)
      [] IsNameStart(c) -> v \o SimpleEval(s, NameEnd(s, i + 1), isSet, val)
      [] OTHER -> "$" \o SimpleEval(s, i + 1, isSet, val)

VARIABLE vec
Mk(s) == LET cl == Scan(s, 1) IN
         [s |-> s, class |-> cl,
          set |-> IF cl = "clean" THEN SimpleEval(s, 1, TRUE, "v$A") ELSE "",
          unset |-> IF cl = "clean" THEN SimpleEval(s, 1, FALSE, "") ELSE ""]
\* seeds: the first character; successors: all completions (parallel across workers)
RECURSIVE Strs(_)
Strs(n) == IF n = 0 THEN {""} ELSE LET R == Strs(n - 1) IN R \cup {r \o Alphabet[k] : r \in {x \in R : Len(x) = n - 1}, k \in 1..Len(Alphabet)}
Init == \E k \in 0..Len(Alphabet) : vec = [seed |-> IF k = 0 THEN "" ELSE Alphabet[k]]
IsSeed == "seed" \in DOMAIN vec
Next == /\ IsSeed
        /\ \E r \in (IF vec.seed = "" THEN {""} ELSE Strs(MaxLen - 1)) : vec' = Mk(vec.seed \o r)
Spec == Init /\ [][Next]_vec
\* sanity of the classifier itself: a string without `$` is clean and evaluates to itself
NoDollarLaw == IsSeed \/ ((\A i \in 1..Len(vec.s) : Char(vec.s, i) # "$") => (vec.class = "clean" /\ vec.set = vec.s /\ vec.unset = vec.s))
=============================================================================
