------------------------------ MODULE Template ------------------------------
(***************************************************************************)
(* The Compose interpolation grammar (template/template.go), as an AST     *)
(* with a renderer and an evaluator.                                       *)
(*                                                                         *)
(*   T    ::= item*                                                        *)
(*   item ::= literal | $$ | $NAME | ${NAME} | ${NAME op T}                *)
(*   op   ::= :- | - | :+ | + | :? | ?                                     *)
(*                                                                         *)
(* AST items (records):                                                    *)
(*   [k |-> "lit", c |-> text]                                             *)
(*   [k |-> "esc"]                                     $$                  *)
(*   [k |-> "var", n |-> name, b |-> braced?]          $NAME / ${NAME}     *)
(*   [k |-> "op",  n |-> name, op |-> op, t |-> T]     ${NAME op T}        *)
(* An environment maps names to [set |-> BOOLEAN, v |-> text].             *)
(***************************************************************************)
EXTENDS Naturals, Sequences, FiniteSets, TLC

Ops == {":-", "-", ":+", "+", ":?", "?"}

RECURSIVE Render(_), RenderItem(_)
RenderItem(i) ==
  CASE i.k = "lit" -> i.c
    [] i.k = "esc" -> "$$"
    [] i.k = "var" -> IF i.b THEN "${" \o i.n \o "}" ELSE "$" \o i.n
    [] i.k = "op"  -> "${" \o i.n \o i.op \o Render(i.t) \o "}"
Render(t) == IF t = <<>> THEN "" ELSE RenderItem(Head(t)) \o Render(Tail(t))

\* result: [ok |-> TRUE, v |-> text]  or  [ok |-> FALSE, var |-> name, msg |-> text]
OK(s) == [ok |-> TRUE, v |-> s]
Missing(n, m) == [ok |-> FALSE, var |-> n, msg |-> m]

IsSet(env, n)    == env[n].set
NonEmpty(env, n) == env[n].set /\ env[n].v # ""
Val(env, n)      == IF env[n].set THEN env[n].v ELSE ""

RECURSIVE Eval(_, _), EvalItem(_, _)
EvalItem(i, env) ==
  CASE i.k = "lit" -> OK(i.c)                       \* text outside substitutions is copied verbatim
    [] i.k = "esc" -> OK("$")                       \* $$ yields one literal $
    [] i.k = "var" -> OK(Val(env, i.n))             \* value or the empty string; never expanded again
    [] i.k = "op"  ->
        LET d == Eval(i.t, env) IN                  \* default / replacement / message is itself interpolated
        IF ~d.ok THEN d
        ELSE CASE i.op = ":-" -> OK(IF NonEmpty(env, i.n) THEN Val(env, i.n) ELSE d.v)
               [] i.op = "-"  -> OK(IF IsSet(env, i.n) THEN Val(env, i.n) ELSE d.v)
               [] i.op = ":+" -> OK(IF NonEmpty(env, i.n) THEN d.v ELSE "")
               [] i.op = "+"  -> OK(IF IsSet(env, i.n) THEN d.v ELSE "")
               [] i.op = ":?" -> IF NonEmpty(env, i.n) THEN OK(Val(env, i.n)) ELSE Missing(i.n, d.v)
               [] i.op = "?"  -> IF IsSet(env, i.n) THEN OK(Val(env, i.n)) ELSE Missing(i.n, d.v)
Eval(t, env) ==
  IF t = <<>> THEN OK("")
  ELSE LET h == EvalItem(Head(t), env) IN
       IF ~h.ok THEN h                               \* the first error wins
       ELSE LET r == Eval(Tail(t), env) IN IF ~r.ok THEN r ELSE OK(h.v \o r.v)

\* ------------------------------------------------------------ laws of the evaluator (checked by TLC on every enumerated case)
\* with a non-empty value every operator of the "default"/"required" family yields the value itself
NonEmptyLaw(t, env) ==
  \A j \in 1..Len(t) :
     (t[j].k = "op" /\ NonEmpty(env, t[j].n) /\ t[j].op \in {":-", "-", ":?", "?"} /\ Eval(t[j].t, env).ok)
        => EvalItem(t[j], env) = OK(Val(env, t[j].n))
\* an unset variable makes the colon and the plain variant of an operator agree
UnsetLaw(t, env) ==
  \A j \in 1..Len(t) :
     (t[j].k = "op" /\ ~IsSet(env, t[j].n)) =>
        \A o \in {":-", ":+", ":?"} :
           t[j].op = o => EvalItem(t[j], env) = EvalItem([t[j] EXCEPT !.op = SubSeq(o, 2, Len(o))], env)
\* evaluation distributes over concatenation
ConcatLaw(t, env) ==
  \A j \in 0..Len(t) :
     LET a == Eval(SubSeq(t, 1, j), env)  b == Eval(SubSeq(t, j + 1, Len(t)), env)  w == Eval(t, env) IN
     IF a.ok /\ b.ok THEN w = OK(a.v \o b.v) ELSE ~w.ok
=============================================================================
