SPECIFICATION Spec
CONSTANTS MaxLines = 1
 FirstAll = TRUE
 SecondAll = TRUE
INVARIANTS Laws
CHECK_DEADLOCK FALSE
