SPECIFICATION Spec
CONSTANTS MaxLen = 4
INVARIANTS NoDollarLaw
CHECK_DEADLOCK FALSE
