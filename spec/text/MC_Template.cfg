SPECIFICATION Spec
CONSTANTS W0 = 1
 W1 = 2
 Deep = FALSE
 RestAny = FALSE
INVARIANTS Laws
CHECK_DEADLOCK FALSE
