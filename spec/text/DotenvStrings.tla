--------------------------- MODULE DotenvStrings ---------------------------
(* Every string over a small alphabet up to MaxLen, with the two error classes the grammar defines:            *)
(*   unterminated - `K=` followed by a quote that is never closed: must be an error;                            *)
(*   badkey       - a character outside the key alphabet before the first separator: must be an error;          *)
(*   other        - totality only (a map or an error, no crash).                                                *)
EXTENDS Naturals, Sequences, FiniteSets, TLC

CONSTANTS MaxLen
Alphabet == <<"K", "=", "'", "\"", "\\", "#", "$", " ", "\n", "!">>
Char(s, i) == SubSeq(s, i, i)

Unterminated(s) == /\ Len(s) >= 3 /\ SubSeq(s, 1, 2) = "K=" /\ Char(s, 3) \in {"'", "\""}
                   /\ \A j \in 4..Len(s) : Char(s, j) # Char(s, 3)
FirstSep(s) == IF \E j \in 1..Len(s) : Char(s, j) \in {"=", "\n"}
               THEN CHOOSE j \in 1..Len(s) : Char(s, j) \in {"=", "\n"} /\ \A i \in 1..(j - 1) : Char(s, i) \notin {"=", "\n"}
               ELSE Len(s) + 1
BadKey(s) == /\ Len(s) >= 1 /\ Char(s, 1) \in {"K", "!"}
             /\ \E j \in 1..(FirstSep(s) - 1) : Char(s, j) \in {"!", "'", "\"", "\\", "#", "$"}
Class(s) == IF BadKey(s) THEN "badkey" ELSE IF Unterminated(s) THEN "unterminated" ELSE "other"

VARIABLE vec
RECURSIVE Strs(_)
Strs(n) == IF n = 0 THEN {""} ELSE LET R == Strs(n - 1) IN R \cup {r \o Alphabet[k] : r \in {x \in R : Len(x) = n - 1}, k \in 1..Len(Alphabet)}
Init == \E k \in 0..Len(Alphabet) : vec = [seed |-> IF k = 0 THEN "" ELSE Alphabet[k]]
IsSeed == "seed" \in DOMAIN vec
Next == /\ IsSeed
        /\ \E r \in (IF vec.seed = "" THEN {""} ELSE Strs(MaxLen - 1)) : vec' = [s |-> vec.seed \o r, class |-> Class(vec.seed \o r)]
Spec == Init /\ [][Next]_vec
Sane == IsSeed \/ (vec.class = "unterminated" => SubSeq(vec.s, 1, 2) = "K=")
=============================================================================
