------------------------------- MODULE Dotenv -------------------------------
(***************************************************************************)
(* The dotenv grammar of env files (dotenv/parser.go), as an AST of lines  *)
(* with a renderer (AST -> file text) and an evaluator (AST, lookup ->     *)
(* key/value map or error), written from the documented grammar.           *)
(*                                                                         *)
(* line ::= assign(export?, key, sep, quoting, atoms, trailing comment?)   *)
(*        | bare(key)        inherited from the lookup, absent otherwise   *)
(*        | comment | blank                                                *)
(* quoting: "none" (trimmed, cut at ` #`, interpolated)                    *)
(*          "single" (literal: no expansion, no escapes)                   *)
(*          "double" (escapes \n \t \" \\ \$ then interpolated; may span   *)
(*                    lines)                                               *)
(* atoms: template items (lit, esc, var, op - see Template) plus           *)
(*   q1 ' | q2 " | bs \ | nlraw (real newline) | nlesc (\n) | tab (\t) |   *)
(*   hash ( #c) | tsp (a trailing space)                                   *)
(* Interpolation looks a name up in the lookup function first and in the   *)
(* entries produced by earlier lines second. Later assignments win.        *)
(***************************************************************************)
EXTENDS Template

NL == "\n"

\* ------------------------------------------------------------ rendering
RECURSIVE RenderAtoms(_, _)
RenderAtom(style, a) ==
  CASE a.k \in {"lit", "esc", "var", "op"} -> RenderItem(a)
    [] a.k = "q1" -> "'"
    [] a.k = "q2" -> IF style = "double" THEN "\\\"" ELSE "\""
    [] a.k = "bs" -> IF style = "double" THEN "\\\\" ELSE "\\"
    [] a.k = "nlraw" -> NL
    [] a.k = "nlesc" -> "\\n"
    [] a.k = "tab" -> "\\t"
    [] a.k = "dollar" -> "\\$"
    [] a.k = "hash" -> " #c #d"          \* an inline comment that itself contains the comment marker
    [] a.k = "tsp" -> " "
RenderAtoms(style, as) == IF as = <<>> THEN "" ELSE RenderAtom(style, Head(as)) \o RenderAtoms(style, Tail(as))

RenderLine(l) ==
  CASE l.k = "assign" ->
         (IF l.export THEN "export " ELSE "") \o l.key \o l.sep \o
         (CASE l.q = "none" -> RenderAtoms("none", l.val)
            [] l.q = "single" -> "'" \o RenderAtoms("single", l.val) \o "'"
            [] l.q = "double" -> "\"" \o RenderAtoms("double", l.val) \o "\"") \o
         (IF l.cmt THEN " # trailing # twice" ELSE "")
    [] l.k = "bare" -> l.key
    [] l.k = "comment" -> "# a comment = 1"
    [] l.k = "blank" -> "  "

RECURSIVE RenderLines(_, _)
RenderLines(ls, eol) == IF ls = <<>> THEN ""
                        ELSE IF Len(ls) = 1 THEN RenderLine(ls[1])
                        ELSE RenderLine(Head(ls)) \o eol \o RenderLines(Tail(ls), eol)
\* f = [lines, eol ("\n" | "\r\n"), final (BOOLEAN: the last line ends with eol)]
RenderFile(f) == RenderLines(f.lines, f.eol) \o (IF f.final /\ f.lines # <<>> THEN f.eol ELSE "")

\* ------------------------------------------------------------ evaluation
\* out: sequence of [k, v] (at most one per key, in order of first assignment)
Has(out, k) == \E i \in 1..Len(out) : out[i].k = k
Get(out, k) == out[CHOOSE i \in 1..Len(out) : out[i].k = k].v
Put(out, k, v) == IF Has(out, k) THEN [i \in 1..Len(out) |-> IF out[i].k = k THEN [k |-> k, v |-> v] ELSE out[i]]
                  ELSE Append(out, [k |-> k, v |-> v])

\* lookup first, earlier lines second
EnvOf(names, lookup, out) ==
  [n \in names |-> IF n \in DOMAIN lookup THEN [set |-> TRUE, v |-> lookup[n]]
                   ELSE IF Has(out, n) THEN [set |-> TRUE, v |-> Get(out, n)]
                   ELSE [set |-> FALSE, v |-> ""]]

\* the template a double-quoted / unquoted value denotes after escape processing
AsItem(a) ==
  CASE a.k \in {"lit", "esc", "var", "op"} -> a
    [] a.k = "q1" -> [k |-> "lit", c |-> "'"]
    [] a.k = "q2" -> [k |-> "lit", c |-> "\""]
    [] a.k = "bs" -> [k |-> "lit", c |-> "\\"]
    [] a.k \in {"nlraw", "nlesc"} -> [k |-> "lit", c |-> NL]
    [] a.k = "tab" -> [k |-> "lit", c |-> "\t"]
    [] a.k = "dollar" -> [k |-> "lit", c |-> "$"]
    [] a.k = "hash" -> [k |-> "lit", c |-> " #c #d"]
    [] a.k = "tsp" -> [k |-> "lit", c |-> " "]
Items(as) == [i \in 1..Len(as) |-> AsItem(as[i])]

\* unquoted: cut at the first ` #`, trim trailing spaces
RECURSIVE CutHash(_)
CutHash(as) == IF as = <<>> THEN <<>> ELSE IF Head(as).k = "hash" THEN <<>> ELSE <<Head(as)>> \o CutHash(Tail(as))
RECURSIVE TrimTail(_)
TrimTail(as) == IF as # <<>> /\ as[Len(as)].k = "tsp" THEN TrimTail(SubSeq(as, 1, Len(as) - 1)) ELSE as

ValueOf(l, env) ==
  CASE l.q = "single" -> OK(RenderAtoms("single", l.val))        \* literal: what is written is what you get
    [] l.q = "double" -> Eval(Items(l.val), env)
    [] l.q = "none"   -> Eval(Items(TrimTail(CutHash(l.val))), env)

RECURSIVE EvalLines(_, _, _, _)
EvalLines(ls, names, lookup, out) ==
  IF ls = <<>> THEN [ok |-> TRUE, kv |-> out]
  ELSE LET l == Head(ls) IN
    CASE l.k \in {"comment", "blank"} -> EvalLines(Tail(ls), names, lookup, out)
      [] l.k = "bare" -> EvalLines(Tail(ls), names, lookup,
                                   IF l.key \in DOMAIN lookup THEN Put(out, l.key, lookup[l.key]) ELSE out)
      [] l.k = "assign" ->
           LET v == ValueOf(l, EnvOf(names, lookup, out)) IN
           IF ~v.ok THEN [ok |-> FALSE, kv |-> <<>>]
           ELSE EvalLines(Tail(ls), names, lookup, Put(out, l.key, v.v))
EvalFile(f, names, lookup) == EvalLines(f.lines, names, lookup, <<>>)
=============================================================================
