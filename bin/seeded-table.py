#!/usr/bin/env python3
"""Prints the markdown table of the second-wave seeded changes from seeded/<id>-w2-<k>/ (first evaluation: verify.log,
evaluation after strengthening: recheck.log)."""
import json, os, re, sys
root = os.path.join(os.path.dirname(os.path.abspath(__file__)), '..', 'seeded')
notes = json.load(open(os.path.join(root, 'w2-notes.json'))) if os.path.exists(os.path.join(root, 'w2-notes.json')) else {}
rows = []
for d in sorted(os.listdir(root)):
    m = re.match(r'^(C\d\d)-w2-(\d)$', d)
    if not m:
        continue
    p = os.path.join(root, d)
    meta = {}
    for fn in ('agent-meta.json',):
        try:
            meta = json.load(open(os.path.join(p, fn)))
        except Exception:
            pass
    def caught(fn):
        try:
            t = open(os.path.join(p, fn)).read()
        except Exception:
            return None
        mm = re.search(r'caught_by=(.*)', t)
        return mm.group(1).strip() if mm else ''
    first, now = caught('verify.log'), caught('recheck.log')
    summ = (meta.get('summary') or '').replace('|', '/').replace('\n', ' ')
    if len(summ) > 230:
        summ = summ[:230] + '...'
    key = '%s-%s' % (m.group(1), m.group(2))
    note = 'caught by the check as built at that time' if first else ('missed at first: ' + notes.get(key, ''))
    rows.append('| %s (w2) | %s | %s | %s |' % (key, summ, now if now is not None else (first or '?'), note))
print('| change | what it does (agent\'s summary) | caught by | note |\n|---|---|---|---|')
print('\n'.join(rows))
