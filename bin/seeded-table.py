#!/usr/bin/env python3
"""Prints the markdown table of the seeded changes of wave N (argument, default 2) from seeded/<id>-wN-<k>/ (first
evaluation: verify-first.log or verify.log, evaluation after strengthening: recheck.log)."""
import json, os, re, sys
root = os.path.join(os.path.dirname(os.path.abspath(__file__)), '..', 'seeded')
wave = sys.argv[1] if len(sys.argv) > 1 else '2'
nf = os.path.join(root, 'w%s-notes.json' % wave)
notes = json.load(open(nf)) if os.path.exists(nf) else {}
rows = []
for d in sorted(os.listdir(root)):
    m = re.match(r'^(C\d\d)-w%s-(\d)$' % wave, d)
    if not m:
        continue
    p = os.path.join(root, d)
    meta = {}
    for fn in ('agent-meta.json',):
        try:
            meta = json.load(open(os.path.join(p, fn)))
        except Exception:
            pass
    def caught(fn):
        try:
            t = open(os.path.join(p, fn)).read()
        except Exception:
            return None
        mm = re.search(r'caught_by=(.*)', t)
        return mm.group(1).strip() if mm else ''
    first = caught('verify-first.log')
    if first is None:
        first = caught('verify.log')
    now = caught('recheck.log')
    summ = (meta.get('summary') or '').replace('|', '/').replace('\n', ' ')
    if len(summ) > 230:
        summ = summ[:230] + '...'
    key = '%s-%s' % (m.group(1), m.group(2))
    note = 'caught by the check as built at that time' if first else ('missed at first: ' + notes.get(key, ''))
    rows.append('| %s (w%s) | %s | %s | %s |' % (key, wave, summ, now if now is not None else (first or '?'), note))
print('| change | what it does (agent\'s summary) | caught by | note |\n|---|---|---|---|')
print('\n'.join(rows))
