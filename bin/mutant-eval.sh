#!/bin/bash
# bin/mutant-eval.sh <ID> <k> [check ids...]: verify a seeded change produced by a sub-agent and run the checks against it.
# 1. scratch worktree of /repo HEAD: patch applies, builds, existing suite passes, demo fails with / passes without
# 2. apply to /repo, run the given checks (default: the property's own), undo
set -u
export GOFLAGS=-mod=mod GOPROXY=off GOSUMDB=off GOTOOLCHAIN=local
ID=$1; K=$2; shift 2
CHECKS="${*:-$ID}"
SRC=${MUT_ROOT:-/tmp/wt}/$ID/MUTANT$K
[ -f $SRC/patch.diff ] || { echo "no patch at $SRC"; exit 2; }
OUT=/verif/seeded/$ID-${MUT_TAG:-}$K
mkdir -p $OUT
cp $SRC/patch.diff $OUT/patch.diff
# a patch rebased by hand on later fix commits (same change, context updated) takes precedence when present
[ -f $OUT/patch-rebased.diff ] && cp $OUT/patch-rebased.diff $OUT/patch-applied.diff || cp $OUT/patch.diff $OUT/patch-applied.diff
cp $SRC/demo_test.go $OUT/demo_test.go 2>/dev/null; cp $SRC/meta.json $OUT/agent-meta.json 2>/dev/null
WT=/tmp/mut-verify-$ID-$K
git -C /repo worktree remove --force $WT 2>/dev/null
git -C /repo worktree add -q --detach $WT HEAD || exit 2
res() { echo "$1" >> $OUT/verify.log; }
: > $OUT/verify.log
cd $WT
mkdir -p mutant_demo && cp $OUT/demo_test.go mutant_demo/demo_test.go
demo_clean=$(go test -count=1 ./mutant_demo/ >/dev/null 2>&1 && echo pass || echo fail)
applies=$(git apply --check $OUT/patch-applied.diff 2>/dev/null && echo yes || echo no)
builds=no; suite=unknown; demo_mut=unknown
if [ $applies = yes ]; then
  git apply $OUT/patch-applied.diff
  if go build ./... 2>/dev/null && go build -tags verif ./... 2>/dev/null; then builds=yes; fi
  if [ $builds = yes ]; then
    suite=$(go test -count=1 $(go list ./... | grep -v mutant_demo) >/dev/null 2>&1 && echo pass || echo fail)
    demo_mut=$(go test -count=1 ./mutant_demo/ >/dev/null 2>&1 && echo pass || echo fail)
  fi
fi
res "applies=$applies builds=$builds existing_suite_with_change=$suite demo_without_change=$demo_clean demo_with_change=$demo_mut"
cd /; git -C /repo worktree remove --force $WT
valid=no
[ "$applies" = yes ] && [ "$builds" = yes ] && [ "$suite" = pass ] && [ "$demo_clean" = pass ] && [ "$demo_mut" = fail ] && valid=yes
res "valid=$valid"
caught=""
if [ $valid = yes ]; then
  git -C /repo apply $OUT/patch-applied.diff
  for c in $CHECKS; do
    ${VERIF_BIN:-/verif/bin/check} $c --tier quick > $OUT/check-$c.log 2>&1; rc=$?
    sigs=$(grep -E "^  sig=" $OUT/check-$c.log | head -3 | tr '\n' ' ')
    res "check=$c tier=quick exit=$rc $sigs"
    [ $rc = 1 ] && caught="$caught $c"
    grep -E "^OK|^VIOLATION|^  sig|^INCONCL|^DRIFT" $OUT/check-$c.log | cut -c1-250 | head -8 > $OUT/check-$c.summary; rm -f $OUT/check-$c.log
  done
  git -C /repo checkout -- .
  git -C /repo status --short | grep -v '^??' && echo "WARNING: /repo not clean"
fi
res "caught_by=$caught"
cat $OUT/verify.log
