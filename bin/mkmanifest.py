#!/usr/bin/env python3
"""Regenerates MANIFEST.json from bin/manifest_src.py (one entry per claimed property)."""
import json, subprocess, sys
sys.path.insert(0, '/verif/bin')
import manifest_src as m
props = [json.loads(l) for l in open('/verif/properties.jsonl')]
ids = [p['id'] for p in props]
checks = []
for pid in ids:
    if pid in m.CLAIMED:
        c = m.CLAIMED[pid]
        checks.append({
            "property_id": pid,
            "quick_cmd": f"bin/check {pid} --tier quick",
            "thorough_cmd": f"bin/check {pid} --tier thorough",
            "evidence_file": f"/verif/evidence/{pid}.json",
            "replay_cmd_template": f"bin/check {pid} --replay {{path}}",
            "engine": c.get("engine", "tlc+go-harness"),
            "level_claimed": {"category": c["level"], "text": c["text"], "design_ref": c.get("design_ref", "DESIGN.md §5 " + pid)},
            "level_note": c["note"],
            "technique": c["technique"],
        })
na = [{"property_id": pid, "reason": m.NOT_APPLICABLE.get(pid, "not built yet in this round: no check is registered, nothing is claimed")} for pid in ids if pid not in m.CLAIMED]
try:
    commits = subprocess.check_output(['git', '-C', '/repo', 'log', '--format=%H %s'], text=True).splitlines()
    hooks = [l.split()[0] for l in commits if l.split(' ', 1)[1].startswith('verif:')]
except Exception:
    hooks = []
man = {
    "version": 1,
    "setup_cmd": "bin/setup",
    "hooks": {"guard": "verif", "enable": "go build -tags verif (bin/check builds the harness against /repo with -tags verif)",
              "baseline_off_cmd": "cd /repo && GOFLAGS=-mod=mod GOPROXY=off go test -vet=off -count=1 -timeout 25m ./...",
              "source_commits": hooks, "add_only": True},
    "engines": m.ENGINES,
    "checks": checks,
    "notes": m.NOTES,
    "not_applicable": na,
}
json.dump(man, open('/verif/MANIFEST.json', 'w'), indent=1)
print("claimed", len(checks), "not_applicable", len(na))
