#!/bin/bash
# bin/regress-seeded.sh [jobs] : regression over every seeded change under seeded/: each patch is applied to a scratch worktree of
# /repo HEAD (never to /repo itself), the property's quick check runs against it through VERIF_REPO, and the result is
# compared with "caught". Prints one line per change; exit 1 if a change that applies is no longer caught.
# (The recorded evaluations in seeded/*/verify.log / recheck.log come from bin/mutant-eval.sh, which applies to /repo.)
set -u
JOBS=${1:-4}
V=$(cd "$(dirname "$0")/.." && pwd)
OUT=$V/.work/regress; rm -rf $OUT; mkdir -p $OUT
ls -d $V/seeded/C??-* | sed 's#.*/##' | grep -E "${REGRESS_ONLY:-.}" > $OUT/list   # REGRESS_ONLY: a regular expression selecting the changes to run
run_one() {
  d=$1; V=$2; OUT=$3; slot=$4
  id=${d%%-*}
  if grep -q "^$d " $V/seeded/superseded.txt 2>/dev/null; then echo "$d superseded"; return; fi
  wt=/tmp/regress-wt-$slot
  git -C /repo worktree remove --force $wt >/dev/null 2>&1
  git -C /repo worktree add -q --detach $wt HEAD || { echo "$d worktree-failed"; return; }
  # the stored patch; the patch rebased by hand on later fixes; a three-way merge; a fuzzy patch (each attempt on a clean tree)
  if git -C $wt apply $V/seeded/$d/patch.diff 2>/dev/null \
     || { [ -f $V/seeded/$d/patch-rebased.diff ] && git -C $wt apply $V/seeded/$d/patch-rebased.diff 2>/dev/null; } \
     || { git -C $wt apply --3way $V/seeded/$d/patch.diff >/dev/null 2>&1 || { git -C $wt reset -q --hard; false; }; } \
     || { git -C $wt checkout -q -- . && (cd $wt && patch -p1 -s -F3 --no-backup-if-mismatch -r - < $V/seeded/$d/patch.diff >/dev/null 2>&1) && (cd $wt && GOFLAGS=-mod=mod go build ./... 2>/dev/null); }; then
    checks=$id
    case $d in C05-w2-2) checks="C05 C12";; C11-2) checks="C04";; C08-w5-2) checks="C08 C06";; C12-w5-1) checks="C12 C17";; C07-w6-2) checks="C07 C18";; C11-w6-2) checks="C11 C09";; C10-w7-1) checks="C10 C08";; esac
    res=missed
    for c in $checks; do
      VERIF_REPO=$wt $V/bin/check $c --tier quick > $OUT/$d-$c.log 2>&1; rc=$?
      [ $rc = 1 ] && res="caught($c)"
      [ $rc = 2 ] && [ "$res" = missed ] && res="inconclusive($c)"
    done
    echo "$d $res"
  else
    echo "$d patch-does-not-apply"
  fi
  git -C /repo worktree remove --force $wt >/dev/null 2>&1
}
export -f run_one
i=0
cat $OUT/list | xargs -P $JOBS -I{} bash -c 'slot=$$; run_one {} '"$V $OUT"' $slot' | tee $OUT/results.txt
echo "---"; awk '{print $2}' $OUT/results.txt | sed 's/(.*//' | sort | uniq -c
grep -q " missed" $OUT/results.txt && exit 1
exit 0
