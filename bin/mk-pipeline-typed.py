#!/usr/bin/env python3
"""Derives PipelineTyped.tla (Apalache: @type annotations + the inductive invariant) from spec/loader/Pipeline.tla, so that
Pipeline.tla stays the single source of the actions.  usage: mk-pipeline-typed.py <Pipeline.tla> <out.tla>"""
import sys
s = open(sys.argv[1]).read()
def rep(a, b, n=1):
    global s
    assert a in s, a
    s = s.replace(a, b, n)
rep('------------------------------- MODULE Pipeline -------------------------------', '------------------------------- MODULE PipelineTyped -------------------------------')
rep('EXTENDS Naturals, Sequences, FiniteSets, TLC', 'EXTENDS Integers, Sequences, FiniteSets, Apalache\n\n(* @typeAlias: frame = {k: Str, pc: Int, sw: Set(Str), n: Int}; *)\nPipelineTyped_aliases == TRUE')
rep('''CONSTANT MaxKids,    \\* bound on the children one frame may open (model checking only)
         MaxDepth    \\* bound on the stack height (model checking only)''', '''CONSTANT
  \\* @type: Int;
  MaxKids,
  \\* @type: Int;
  MaxDepth''')
rep('''VARIABLES stack,     \\* frames [k, pc, sw, n]: kind, index of the last phase completed, switches, children opened
          outcome,   \\* of the last load: "none" | "project" | "model" | "error"
          ran        \\* phases completed by the outermost frames of the current / last load (ghost)''', '''VARIABLES
  \\* @type: Seq($frame);
  stack,
  \\* @type: Str;
  outcome,
  \\* @type: Set(Str);
  ran''')
ann = {
 'ExtSw(sw) ==': '(Set(Str)) => Set(Str)', 'Clone(sw) ==': '(Set(Str)) => Set(Str)', 'IncSw(sw) ==': '(Set(Str)) => Set(Str)',
 'PhasesOf(k) ==': '(Str) => Seq(Str)', 'Off(p) ==': '(Str) => Str', 'Frame(k, sw) ==': '(Str, Set(Str)) => $frame',
 'NextIx(f) ==': '($frame) => Int', 'NextPhase(f) ==': '($frame) => Str', 'SetTop(f) ==': '($frame) => Seq($frame)',
 'Push(parent, child) ==': '($frame, $frame) => Seq($frame)', 'Room(f) ==': '($frame) => Bool', 'Required(sw) ==': '(Set(Str)) => Set(Str)',
}
for k, t in ann.items():
    rep(k, '\\* @type: %s;\n%s' % (t, k))
rep('    [] OTHER           -> <<>>', '    [] OTHER           -> SubSeq(<<"x">>, 2, 1)')
rep('=============================================================================', '''\\* ---------------------------------------------------------------- inductive invariant (Apalache)
Kinds == Loads \\cup {"model", "file", "xfile", "doc"}
TypeInv == /\\ outcome \\in {"none", "project", "model", "error"}
           /\\ ran \\subseteq AllPhases
           /\\ \\A i \\in DOMAIN stack : /\\ stack[i].k \\in Kinds /\\ stack[i].sw \\subseteq Switches
                                      /\\ stack[i].pc \\in 0..8 /\\ stack[i].n >= 0
\\* the switch set of every frame is the one derived from its parent
Derived ==
  \\A i \\in DOMAIN stack : i > 1 =>
    LET f == stack[i]  p == stack[i - 1] IN
    CASE f.k = "doc"   -> f.sw = p.sw
      [] f.k = "file"  -> f.sw = p.sw
      [] f.k = "xfile" -> f.sw = ExtSw(p.sw)
      [] f.k = "model" -> f.sw = (IF p.k = "doc" THEN IncSw(p.sw) ELSE p.sw)
      [] OTHER -> TRUE
IndInv == TypeInv /\\ WellNested /\\ Derived /\\ ExtendedFileIsPlain /\\ IncludedResolves
CInit == MaxKids = 1000000 /\\ MaxDepth = 1000000
\\* an arbitrary state satisfying IndInv: stacks of up to 9 frames, arbitrary switch sets
IndInit == /\\ stack = Gen(9) /\\ outcome \\in {"none", "project", "model", "error"} /\\ ran = Gen(16)
           /\\ IndInv
=============================================================================''')
open(sys.argv[2], 'w').write(s)
