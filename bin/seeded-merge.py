#!/usr/bin/env python3
"""bin/seeded-merge.py <wave>: folds the re-evaluation directories seeded/<ID>-w<wave>r-<k>/ (bin/mutant-eval.sh with MUT_TAG=w<wave>r-)
into seeded/<ID>-w<wave>-<k>/ (recheck.log, meta.json) and removes them."""
import json, os, re, shutil, sys
root = os.path.join(os.path.dirname(os.path.abspath(__file__)), '..', 'seeded')
wave = sys.argv[1]
nf = os.path.join(root, 'w%s-notes.json' % wave)
notes = json.load(open(nf)) if os.path.exists(nf) else {}
def lines(p):
    try:
        return [l.rstrip('\n') for l in open(p)]
    except Exception:
        return None
def caught(ls):
    for l in ls or []:
        m = re.match(r'caught_by=(.*)', l)
        if m:
            return m.group(1).strip()
    return ''
for d in sorted(os.listdir(root)):
    m = re.match(r'^(C\d\d)-w%s-(\d)$' % wave, d)
    if not m:
        continue
    p = os.path.join(root, d)
    r = os.path.join(root, '%s-w%sr-%s' % (m.group(1), wave, m.group(2)))
    if os.path.isdir(r):
        rl = lines(os.path.join(r, 'verify.log'))
        if rl and 'valid=yes' in rl:
            open(os.path.join(p, 'recheck.log'), 'w').write('\n'.join(rl) + '\n')
        if os.path.exists(os.path.join(r, 'patch-rebased.diff')) and not os.path.exists(os.path.join(p, 'patch-rebased.diff')):
            shutil.copy(os.path.join(r, 'patch-rebased.diff'), p)
        shutil.rmtree(r)
    first = lines(os.path.join(p, 'verify-first.log')) or lines(os.path.join(p, 'verify.log'))
    now = lines(os.path.join(p, 'recheck.log'))
    am = {}
    try:
        am = json.load(open(os.path.join(p, 'agent-meta.json')))
    except Exception:
        pass
    key = '%s-%s' % (m.group(1), m.group(2))
    cf, cn = caught(first), caught(now)
    meta = {'id': d, 'wave': int(wave), 'property': m.group(1), 'summary': am.get('summary', ''), 'needs_to_manifest': am.get('needs_to_manifest', ''),
            'files_changed': am.get('files_changed', []),
            'what_was_run': 'bin/mutant-eval.sh: patch applied in a scratch worktree of /repo HEAD (builds with and without -tags verif; existing suite passes; demo passes without / fails with the change); then `git -C /repo apply`, `bin/check <id> --tier quick`, `git -C /repo checkout -- .` - once with the checks as they were when the change arrived (verification_first) and once after the strengthenings (verification_now)',
            'verification_first': first, 'verification_now': now, 'caught_by_first': cf, 'caught_by': cn,
            'note': 'caught by the check as built at that time' if cf else 'missed at first: ' + notes.get(key, '')}
    if os.path.exists(os.path.join(p, 'patch-rebased.diff')):
        meta['patch_rebased'] = 'patch-rebased.diff: the same change with its context updated after a later fix commit touched the same lines'
    json.dump(meta, open(os.path.join(p, 'meta.json'), 'w'), indent=1)
    print(d, 'first=%r now=%r' % (cf, cn))
