ENGINES = [
 {"name": "tlc-mc", "path": "spec/**/MC_*.tla", "serves_properties": [], "kind_free_text": "TLC exhaustive model checking of the explicit TLA+ specification (invariants, action properties, liveness)"},
 {"name": "tlc-gen", "path": "spec/**/Gen_*.tla", "serves_properties": [], "kind_free_text": "TLC as enumerator of behaviours / input vectors with spec-computed expectations, replayed on the real library by harness/"},
 {"name": "tlc-trace", "path": "spec/**/Trace_*.tla", "serves_properties": [], "kind_free_text": "TLC trace validation of executions recorded from the real library (ndjson), re-using the specification's actions"},
 {"name": "go-harness", "path": "harness/", "serves_properties": [], "kind_free_text": "Go module built against /repo's working tree with -tags verif: gate scheduler, replay drivers, monitors, evidence"},
]
NOTES = "All checks: bin/check <id> --tier quick|thorough. Exit 0 held, 1 VIOLATION (real-code witness, replay file), 2 INCONCLUSIVE (infrastructure). Known findings in known-findings.json. See DESIGN.md."
NOT_APPLICABLE = {}
CLAIMED = {
 "C13": {
  "level": "model_checking",
  "technique": "TLA+ spec of the traversal protocol model-checked by TLC; TLC behaviours walked on the real goroutines through gate hooks; recorded executions trace-validated by TLC",
  "text": "spec/graph/Traversal.tla models graph/traversal.go at the grain of its critical sections (main, coordinator, one worker per vertex, errgroup slots, buffered channel). TLC checks once-each, deps-first, bound, return-after-all, result, roots closure, deadlock freedom (and liveness in thorough) over every DAG on <=3 nodes x direction x limit x roots x failing visitors (N=4 partially in thorough). The code is bound to the model both ways: TLC-simulated behaviours are merged into a prefix tree and walked on the real goroutines by a gate scheduler (yield hooks, guard verif), TLC's BoundAlways counterexample is replayed on the real code, and executions recorded under seeded random/biased schedules on DAGs up to 5 (7) nodes are validated by TLC against Trace_Traversal, which re-uses the spec's actions. Cyclic graphs: Cycle.tla enumerates all digraphs <=3 (4) nodes. Verdicts come from monitors on the real visitor callbacks.",
  "note": "Exhaustive only for the stated small constants; beyond them schedules are sampled (seeded). Trusts TLC, the Go runtime's run-queue order under GOMAXPROCS(1) for quiescence (cross-checked against runtime.Stack), and the yield hooks being placed at the critical sections (a corrupted trace is shown to be rejected on every run).",
 },
 "C19": {
  "level": "model_checking",
  "technique": "TLA+ specs of the fan-out protocol and of shared package state model-checked by TLC; every TLC-enumerated completion order / workload executed on the real code under the Go race detector and compared with sequential results",
  "text": "spec/graph/Fanout.tla models WithServicesTransform (main, collector, one worker per service, buffered channel, errgroup cancellation, non-atomic access brackets on the shared Services field); TLC checks exact results, first-error propagation, joining, absence of overlapping conflicting accesses, deadlock freedom and termination for 0..3 (4) services and every failing subset. Every completion order x failing subset for 0..4 (5; 6 sampled) services is then forced on the real code by holding each callback at a gate, in a -race build. spec/graph/Traversal.tla (C13) covers the traversal; its gate-scheduled executions are repeated under -race with per-service result checks. spec/graph/SharedState.tla takes the inventory of package-level variables written at run time (extracted from /repo's source with go/parser, with a guarded-by-lock flag) and checks that concurrent loads cannot overlap on them and stay independent; its workloads (which loads carry `version:` etc.) are run from 2..8 (16) goroutines under -race and every concurrent result is compared with the same load run alone.",
  "note": "Data-race freedom itself is decided by the Go race detector on the executions driven (sampling of real schedules beyond the gate-controlled ones); TLC decides the protocol-level claims and predicts which variables can race. Each load gets its own copy of the environment map (equal inputs, not shared mutable arguments).",
 },
 "C07": {
  "level": "model_checking",
  "technique": "TLA+ grammar/evaluator spec enumerated exhaustively by TLC (states = cases with spec-defined value), replayed on template.Substitute and on full loads",
  "text": "spec/text/Template.tla defines the interpolation grammar as an AST with Render and Eval (written from the Compose grammar). TLC enumerates every template up to the size bound x 16 variable states, checks algebraic laws of the evaluator on each, and the harness replays every state on the real Substitute (and a slice through loader.LoadWithContext). spec/text/TemplateStrings.tla classifies every string over an 11-symbol alphabet up to length 5 (6) as clean / malformed / complex by a scanner written from the grammar: clean strings must give the exact value, malformed ones an error, all of them must return without panic.",
  "note": "Exhaustive within the bounds (names {A,b_1}, 4 literals, nesting depth 1 (2 in thorough)); deeper nesting is not enumerated. Strings of class complex are only checked for totality (their exact value is covered by the grammar enumeration).",
 },
 "C18": {
  "level": "model_checking",
  "technique": "TLA+ dotenv line-grammar spec (AST, renderer, evaluator) enumerated exhaustively by TLC; every state replayed on dotenv.ParseWithLookup; string classifier for the error side",
  "text": "spec/text/Dotenv.tla defines env files as an AST of lines (assign with export/separator/quoting/atoms/trailing comment, bare, comment, blank) with RenderFile and EvalFile (lookup first, earlier lines second, later wins, single quotes literal, escapes in double quotes, inline comment cut, re-using Template.tla for interpolation). TLC enumerates all 1-line files and 2-line files (small x all; all x small in thorough) x LF/CRLF x final newline, and the harness compares the real parser's map (or error) with the grammar's on every state. spec/text/DotenvStrings.tla classifies every string over a 10-symbol alphabet up to length 5 (6) into unterminated-quote / invalid-key (must error) / other (must return); seeded byte mutations add longer inputs for the no-crash side.",
  "note": "Files of more than 2 lines are not enumerated; value shapes are limited to 2 atoms from the atom alphabet. Corner shapes the statement leaves open (empty key `=x`, `\\'` inside single quotes, `A=1#c`) are kept out of the exact-value generator and stay on the totality side.",
 },
}
