#!/usr/bin/env python3
"""Prints a markdown table of what the last run of every check covered, from evidence/<id>.json."""
import json, glob, os
root = os.path.join(os.path.dirname(os.path.abspath(__file__)), '..', 'evidence')
print('| id | tier | cases evaluated (distinct non-trivial) | TLC states | real executions / traces | wall |\n|---|---|---|---|---|---|')
for f in sorted(glob.glob(os.path.join(root, 'C*.json'))):
    e = json.load(open(f)); c = e.get('coverage', {})
    print('| %s | %s | %s (%s) | %s | %s | %.0f s |' % (e['property_id'], e['tier'], f"{c.get('evaluations',0):,}", f"{c.get('distinct_nontrivial',0):,}", f"{c.get('states',0):,}", f"{c.get('traces_validated_against_impl',0):,}", e.get('wall_s', 0)))
